"""Catalogue of scratch-copy variants for ./selftest.

Each variant: (id, property, kind, description, edits, expect)
  edits  : list of (file relative to src/bare_script, old text, new text) - old must occur exactly once
  expect : for kind 'break'  -> rule id (prefix) that the property's check must report with exit 1
           for kind 'benign' -> 'ok' (exit 0 on every check) or 'ok-or-unrecognised' (exit 0 or 2, never 1)
Variants are anchored on today's source text; a variant whose anchor is gone is SKIPPED and reported, never failed.
The first group re-introduces the defects repaired by the `fix:` commits of /repo (known_findings.json "fixed").
"""

P, R, V, L, D, M, O = 'parser.py', 'runtime.py', 'value.py', 'library.py', 'data.py', 'model.py', 'options.py'

VARIANTS = [
    # ------------------------------------------------------------------ re-introduced (fixed) defects
    ('fixed-F1', 'C12', 'break', 'arraySet without int()', [(L, 'array[int(index)] = value', 'array[index] = value')], 'C12.sink'),
    ('fixed-F1b', 'C15', 'break', 'arraySet without int()', [(L, 'array[int(index)] = value', 'array[index] = value')], 'C15.H'),
    ('fixed-F2', 'C12', 'break', 'dataTop count uncoerced', [(D, 'range(min(int(count), len(category_key_rows)))', 'range(min(count, len(category_key_rows)))')], 'C12.sink'),
    ('fixed-F2b', 'C19', 'break', 'dataTop count uncoerced', [(D, 'range(min(int(count), len(category_key_rows)))', 'range(min(count, len(category_key_rows)))')], 'C'),
    ('fixed-F3', 'C14', 'break', 'JSON clean-up applied to string contents',
     [(V, "    return _R_VALUE_JSON_NUMBER_CLEANUP.sub(r'\\1', result)\n", "    result = _R_VALUE_JSON_NUMBER_CLEANUP.sub(r'', result)\n    return _R_VALUE_JSON_NUMBER_CLEANUP2.sub(r'\\1', result)\n"),
      (V, "_R_VALUE_JSON_NUMBER_CLEANUP = re.compile(r'(\"(?:\\\\.|[^\"\\\\])*\")|\\.0*(?=[,}\\]\\s]|$)')",
       "_R_VALUE_JSON_NUMBER_CLEANUP = re.compile(r'\\.0*$', re.MULTILINE)\n_R_VALUE_JSON_NUMBER_CLEANUP2 = re.compile(r'\\.0*([,}\\]])')")], 'C14.S'),
    ('fixed-F4', 'C05', 'break', 'arithmetic errors escape', [(R, '        except (ArithmeticError, ValueError):', '        except (KeyError,):')], 'C05.E'),
    ('fixed-F4c', 'C05', 'break', 'complex result of ** returned', [(R, 'return result if not isinstance(result, complex) else None', 'return result')], 'C05.V'),
    ('fixed-F5', 'C06', 'break', 'if-expression parsed unprotected',
     [(P, "_parse_statement_expression(match_if_begin, 'expr', line, start_line_number + ix_line)", "parse_expression(match_if_begin.group('expr'))")], 'C06.P'),
    ('fixed-F6', 'C20', 'break', 'diff.bare pushes onto an undefined name',
     [('include/diff.bare', "arrayPush(diffs, objectNew('type', 'Identical', 'lines', identicalLines))", "arrayPush(objectdiffs, objectNew('type', 'Identical', 'lines', identicalLines))")], 'C20'),
    ('fixed-F8', 'C09', 'break', 'include count not carried back',
     [(R, "                try:\n                    _execute_script_helper(script['statements'], include_options, None)\n                finally:\n                    options['statementCount'] = include_options['statementCount']\n",
       "                _execute_script_helper(script['statements'], include_options, None)\n")], 'C09.I'),
    ('fixed-F8d', 'C09', 'break', 'data.py count not carried back', [(D, "        options['statementCount'] = eval_options['statementCount']", "        pass")], 'C09'),
    ('fixed-F10', 'C16', 'break', 'value_parse_datetime raises', [(V, '    except (ValueError, OverflowError):\n        pass\n\n    return None', '    except (KeyError,):\n        pass\n\n    return None')], 'C16.P'),
    ('fixed-F10b', 'C19', 'break', 'date-like CSV text aborts the parse', [(V, '    except (ValueError, OverflowError):\n        pass\n\n    return None', '    except (KeyError,):\n        pass\n\n    return None')], 'C16.P'),
    ('fixed-F11', 'C06', 'break', 'pending continuation dropped at end of input',
     [(P, "    if line_continuation:\n        raise BareScriptParserError('Unterminated line continuation'", "    if False:\n        raise BareScriptParserError('Unterminated line continuation'")], 'C06.U'),
    ('fixed-F12', 'C06', 'break', 'function left open accepted', [(P, '    if function_def is not None:\n        raise BareScriptParserError(\'Missing endfunction statement\'', '    if False:\n        raise BareScriptParserError(\'Missing endfunction statement\'')], 'C06.U'),
    ('fixed-N1', 'C03', 'break', 'booleans accepted as numbers by operators', [(R, 'return isinstance(value, (int, float)) and not isinstance(value, bool)', 'return isinstance(value, (int, float))')], 'C03.T'),
    ('fixed-N1b', 'C15', 'break', 'booleans accepted as number arguments',
     [(V, "(arg_type == 'number' and (not isinstance(arg_value, (int, float)) or isinstance(arg_value, bool)))", "(arg_type == 'number' and not isinstance(arg_value, (int, float)))")], 'C15.T'),
    ('fixed-N2', 'C08', 'break', 'argument list None without args', [(R, "if 'args' in expr['function'] else []", "if 'args' in expr['function'] else None")], 'C08.A'),
    ('fixed-N4', 'C02', 'break', 'one-character function names not callable', [(P, "_R_EXPR_FUNCTION_OPEN = re.compile(r'^\\s*([A-Za-z_]\\w*)\\s*\\(')", "_R_EXPR_FUNCTION_OPEN = re.compile(r'^\\s*([A-Za-z_]\\w+)\\s*\\(')")], 'C02.I'),
    ('fixed-CSVNONE', 'C05', 'break', 'dataParseCSV keeps the None rest key', [(L, "    for row in data:\n        row.pop(None, None)\n", "")], 'C05.K'),
    ('fixed-LAA', 'C04', 'break', 'lastArgArray False collects all arguments',
     [(R, "ix_arg_last = (func_args_length - 1) if function.get('lastArgArray') else None", "ix_arg_last = function.get('lastArgArray', None) and (func_args_length - 1)")], 'C04.B'),

    # ------------------------------------------------------------------ C01 / C07 (lowering)
    ('c01-for-continue-loop', 'C01', 'break', 'continue of for jumps to the loop label', [(P, "'continue': f'__bareScriptContinue{label_index}',", "'continue': f'__bareScriptLoop{label_index}',")], 'C01.F'),
    ('c01-while-footer-done', 'C01', 'break', 'while footer jumps to done', [(P, "statements.append({'jump': {'label': whiledo['loop'], 'expr': whiledo['expr']}})", "statements.append({'jump': {'label': whiledo['done'], 'expr': whiledo['expr']}})")], 'C01.W'),
    ('c01-break-loop', 'C01', 'break', 'break jumps to the loop label', [(P, "statements.append({'jump': {'label': loop_def['done']}})", "statements.append({'jump': {'label': loop_def['loop']}})")], 'C01'),
    ('c01-elif-no-jump-done', 'C01', 'break', 'elif without the jump to done',
     [(P, "            statements.extend([\n                {'jump': {'label': ifthen['done']}},\n                {'label': prev_label},\n                {'jump': ifthen['jump']}\n            ])", "            statements.extend([\n                {'label': prev_label},\n                {'jump': ifthen['jump']}\n            ])")], 'C01.I'),
    ('c01-endif-no-retarget', 'C01', 'break', 'endif does not retarget the pending jump', [(P, "            if not ifthen['hasElse']:\n                ifthen['jump']['label'] = ifthen['done']", "            if False:\n                ifthen['jump']['label'] = ifthen['done']")], 'C01'),
    ('c01-floor-lte', 'C01', 'break', 'break floor test off by one', [(P, "            if ix_label_def < label_def_depth:\n                raise BareScriptParserError('Break statement outside of loop'", "            if ix_label_def < label_def_depth - 1:\n                raise BareScriptParserError('Break statement outside of loop'")], 'C01.B'),
    ('c01-for-index-start-1', 'C01', 'break', 'for index starts at 1', [(P, "{'expr': {'name': foreach['index'], 'expr': {'number': 0}}},", "{'expr': {'name': foreach['index'], 'expr': {'number': 1}}},")], 'C01.F'),
    ('c01-for-lte', 'C01', 'break', 'for re-test uses <=', [(P, "'expr': {'binary': {'op': '<', 'left': {'variable': foreach['index']}, 'right': {'variable': foreach['length']}}}", "'expr': {'binary': {'op': '<=', 'left': {'variable': foreach['index']}, 'right': {'variable': foreach['length']}}}")], 'C01.F'),
    ('c07-emit-record', 'C07', 'break', 'if header emits the bookkeeping record', [(P, "            statements.append({'jump': ifthen['jump']})\n            continue", "            statements.append({'jump': ifthen})\n            continue")], 'C07.S'),
    ('c07-while-no-increment', 'C07', 'break', 'while does not advance the label counter', [(P, "            label_defs.append({'while': whiledo})\n            label_index += 1", "            label_defs.append({'while': whiledo})")], 'C07.T'),
    ('c07-always-continue-label', 'C07', 'break', 'continue label always emitted', [(P, "            if foreach.get('hasContinue'):\n                statements.append({'label': foreach['continue']})", "            if True:\n                statements.append({'label': foreach['continue']})")], 'C07.T'),
    ('c07-misspelt-key', 'C07', 'break', "label statement key misspelt", [(P, "                {'label': foreach['done']}\n            ])", "                {'lable': foreach['done']}\n            ])")], 'C07'),
    ('c07-prefix', 'C07', 'break', 'generated label without the reserved prefix', [(P, "'done': f\"__bareScriptDone{label_index}\",", "'done': f\"done{label_index}\",")], 'C07.T'),
    ('c01-benign-prefix-names', 'C01', 'benign', 'different generated label text', [(P, "'loop': f'__bareScriptLoop{label_index}',\n                'continue': f'__bareScriptLoop{label_index}',", "'loop': f'__bareScriptWhile{label_index}',\n                'continue': f'__bareScriptWhile{label_index}',")], 'ok'),
    ('c01-benign-two-appends', 'C01', 'benign', 'extend replaced by two appends', [(P, "            statements.extend([\n                {'jump': {'label': ifthen['done']}},\n                {'label': ifthen['jump']['label']}\n            ])", "            statements.append({'jump': {'label': ifthen['done']}})\n            statements.append({'label': ifthen['jump']['label']})")], 'ok'),
    ('c07-benign-counter-by-2', 'C07', 'benign', 'counter advances by 2 in while', [(P, "            label_defs.append({'while': whiledo})\n            label_index += 1", "            label_defs.append({'while': whiledo})\n            label_index += 2")], 'ok'),

    # ------------------------------------------------------------------ C02
    ('c02-row-extra', 'C02', 'break', "'+' row contains '-'", [(P, "    '+': {'<=', '<', '>=', '>', '==', '!=', '&&', '||'},", "    '+': {'-', '<=', '<', '>=', '>', '==', '!=', '&&', '||'},")], 'C02.T'),
    ('c02-row-missing', 'C02', 'break', "'*' row lacks '+'", [(P, "    '*': {'+', '-', '<=', '<', '>=', '>', '==', '!=', '&&', '||'},", "    '*': {'-', '<=', '<', '>=', '>', '==', '!=', '&&', '||'},")], 'C02.T'),
    ('c02-alt-order', 'C02', 'break', '* tried before **', [(P, r"(\*\*|\*|\/|%|\+|-|<=|<|>=|>|==|!=|&&|\|\|)", r"(\*|\*\*|\/|%|\+|-|<=|<|>=|>|==|!=|&&|\|\|)")], 'C02.L'),
    ('c02-descend-left', 'C02', 'break', 'cursor descends along left', [(P, "            reorder_expr = reorder_expr['binary']['right']\n", "            reorder_expr = reorder_expr['binary']['left']\n")], 'C02.S'),
    ('c02-no-blank-test', 'C02', 'break', 'blank remainder test dropped', [(P, "        if next_text.strip() != '':\n            raise BareScriptParserError('Syntax error', next_text)\n", "")], 'C02.R'),
    ('c02-benign-frozenset', 'C02', 'benign', 'rows written as frozenset', [(P, "    '||': set()\n}", "    '||': frozenset()\n}")], 'ok'),

    # ------------------------------------------------------------------ C03 / C11
    ('c03-mod-div', 'C03', 'break', '% computes /', [(R, "return left_value % right_value", "return left_value / right_value")], 'C03.T'),
    ('c03-sub-swapped', 'C03', 'break', 'operands of - swapped', [(R, "                    return left_value - right_value", "                    return right_value - left_value")], 'C03.T'),
    ('c03-lt-lte', 'C03', 'break', '< implemented as <=', [(R, "                return value_compare(left_value, right_value) < 0", "                return value_compare(left_value, right_value) <= 0")], 'C11.S'),
    ('c03-and-false', 'C03', 'break', '&& returns False instead of the left value', [(R, "            if not value_boolean(left_value):\n                return left_value", "            if not value_boolean(left_value):\n                return False")], 'C03.S'),
    ('c03-ms-seconds', 'C03', 'break', 'datetime + number in seconds', [(R, "return left_dt + datetime.timedelta(milliseconds=right_value)", "return left_dt + datetime.timedelta(seconds=right_value)")], 'C03.T'),
    ('c03-alias', 'C03', 'break', 'abs aliases mathAcos', [(L, "    'abs': 'mathAbs',", "    'abs': 'mathAcos',")], 'C03.B'),
    ('c03-if-eager', 'C03', 'break', 'if() evaluates the false branch too',
     [(R, "            result_expr = true_expr if value_boolean(value) else false_expr", "            unused = evaluate_expression(false_expr, options, locals_, builtins) if false_expr else None\n            result_expr = true_expr if value_boolean(value) else false_expr")], 'C03.I'),
    ('c11-number-no-bool', 'C11', 'break', 'number branch admits bool', [(V, "    elif isinstance(left, (int, float)) and not isinstance(left, bool) and \\\n         isinstance(right, (int, float)) and not isinstance(right, bool):", "    elif isinstance(left, (int, float)) and isinstance(right, (int, float)):")], 'C11.P'),
    ('c11-lengths-first', 'C11', 'break', 'one side of the datetime branch not normalised', [(V, "        right_dt = value_normalize_datetime(right)\n        return -1 if left_dt < right_dt", "        right_dt = right\n        return -1 if left_dt < right_dt")], 'C11.F'),
    ('c11-max-gte', 'C11', 'break', 'mathMax replaces on >= 0 and < 0', [(L, "        elif value_compare(value, result) > 0:", "        elif value_compare(value, result) < 0:")], 'C11.U'),
    ('c11-null-last', 'C11', 'break', 'null sorts last', [(V, "        return 0 if right is None else -1", "        return 0 if right is None else 1")], 'C11.F'),

    # ------------------------------------------------------------------ C04 / C08 / C09
    ('c04-locals-globals-swapped', 'C04', 'break', 'assignment branches swapped', [(R, "                if locals_ is not None:\n                    locals_[expr_name] = expr_value\n                else:\n                    globals_[expr_name] = expr_value", "                if locals_ is None:\n                    locals_[expr_name] = expr_value\n                else:\n                    globals_[expr_name] = expr_value")], 'C04.W'),
    ('c04-guarded-function-store', 'C04', 'break', 'function statement does not replace', [(R, "            globals_[statement['function']['name']] = functools.partial(_script_function, statement['function'])", "            if statement['function']['name'] not in globals_:\n                globals_[statement['function']['name']] = functools.partial(_script_function, statement['function'])")], 'C04.R'),
    ('c04-sort-none-options', 'C04', 'break', 'arraySort callback gets None options', [(L, "lambda v1, v2: compare_fn([v1, v2], options)", "lambda v1, v2: compare_fn([v1, v2], None)")], 'C04.O'),
    ('c08-label-plus-one', 'C08', 'break', 'jump lands one past the label', [(R, "                    ix_statement = ix_label\n", "                    ix_statement = ix_label + 1\n")], None),
    ('c08-model-write', 'C08', 'break', 'jump label normalised in the model', [(R, "                    jump_label = statement['jump']['label']\n", "                    jump_label = statement['jump']['label']\n                    statement['jump']['label'] = jump_label.strip()\n")], 'C08.M'),
    ('c08-function-to-locals', 'C08', 'break', 'function statement binds into locals', [(R, "            globals_[statement['function']['name']] = functools.partial(_script_function, statement['function'])", "            (locals_ if locals_ is not None else globals_)[statement['function']['name']] = functools.partial(_script_function, statement['function'])")], 'C04.R'),
    ('c09-increment-after', 'C09', 'break', 'count incremented after the dispatch',
     [(R, "        # Increment the statement counter\n        options['statementCount'] += 1\n        max_statements", "        max_statements"),
      (R, "        # Increment the statement counter\n        ix_statement += 1", "        options['statementCount'] += 1\n        ix_statement += 1")], 'C09.D'),
    ('c09-gte', 'C09', 'break', 'abort test uses >=', [(R, "options['statementCount'] > max_statements:", "options['statementCount'] >= max_statements:")], 'C09.T'),
    ('c09-reset-in-helper', 'C09', 'break', 'count reset in the helper', [(R, "    globals_ = options['globals']\n\n    # Iterate each script statement", "    globals_ = options['globals']\n    options['statementCount'] = 0\n\n    # Iterate each script statement")], 'C09.W'),
    ('c09-limit-read-elsewhere', 'C09', 'break', 'include skipped when the budget is low', [(R, "        elif statement_key == 'include':\n", "        elif statement_key == 'include' and options.get('maxStatements', 0) != 1:\n")], 'C09.R'),
    ('c09-benign-rename', 'C09', 'benign', 'include_options renamed', [(R, "include_options", "nested_options")], 'ok'),

    # ------------------------------------------------------------------ C05
    ('c05-no-catch-all', 'C05', 'break', 'catch-all removed', [(R, "            except Exception as error: # pylint: disable=broad-exception-caught", "            except ValueArgsError as error:")], 'C05.W'),
    ('c05-call-outside-try', 'C05', 'break', 'handler order: catch-all first',
     [(R, "            except BareScriptRuntimeError:\n                raise\n            except Exception as error: # pylint: disable=broad-exception-caught", "            except Exception as error: # pylint: disable=broad-exception-caught")], 'C05'),
    ('c05-sqrt-unguarded', 'C05', 'break', 'unguarded math.sqrt in unary minus', [(R, "            return -value\n", "            return -value if value >= 0 else -(int(value) // int(value - value))\n")], 'C05.E'),

    # ------------------------------------------------------------------ C06 / C10
    ('c06-return-unprotected', 'C06', 'break', 'return expression parsed unprotected',
     [(P, "                try:\n                    return_statement['return']['expr'] = parse_expression(match_return.group('expr'))\n                except BareScriptParserError as error:\n                    column_number = len(match_return.group('return')) - len(match_return.group('expr')) + error.column_number\n                    raise BareScriptParserError(error.error, line, column_number, start_line_number + ix_line)", "                return_statement['return']['expr'] = parse_expression(match_return.group('expr'))")], 'C06.P'),
    ('c06-jumpif-minus-1', 'C06', 'break', 'jumpif column without - 1', [(P, "len(match_jump.group('jump')) - len(match_jump.group('expr')) - 1 + error.column_number", "len(match_jump.group('jump')) - len(match_jump.group('expr')) + error.column_number")], 'C06.C'),
    ('c06-ix-line-part', 'C06', 'break', 'error line number from the physical index of the last part', [(P, "raise BareScriptParserError(error.error, line, error.column_number, start_line_number + ix_line)", "raise BareScriptParserError(error.error, line, error.column_number, start_line_number + ix_line_part)")], None),
    ('c06-whole-text', 'C06', 'break', 'Unmatched parenthesis carries the remainder after the group', [(P, "            raise BareScriptParserError('Unmatched parenthesis', expr_text)", "            raise BareScriptParserError('Unmatched parenthesis', expr.get('x', ''))")], 'C06.X'),
    ('c06-no-dangling-check', 'C06', 'break', 'dangling label definitions accepted', [(P, "    if label_defs:\n        label_def = label_defs.pop()", "    if False:\n        label_def = label_defs.pop()")], 'C06'),
    ('c06-caret-middle', 'C06', 'break', 'caret of the middle elision branch off by the prefix', [(P, "                line_column -= line_left - len(line_prefix)\n", "                line_column -= line_left\n")], 'C06.A'),
    ('c10-if-no-leading-ws', 'C10', 'break', 'if regex without leading blanks', [(P, "_R_SCRIPT_IF_BEGIN = re.compile(r'^\\s*if\\s+", "_R_SCRIPT_IF_BEGIN = re.compile(r'^if\\s+")], 'C10.W'),
    ('c10-endwhile-no-trailing', 'C10', 'break', 'endwhile without trailing blanks', [(P, "re.compile(r'^\\s*endwhile\\s*$')", "re.compile(r'^\\s*endwhile$')")], 'C10.W'),
    ('c10-join-empty', 'C10', 'break', 'continuation parts joined without blank', [(P, "line = ' '.join(line_continuation)", "line = ''.join(line_continuation)")], 'C10.J'),
    ('c10-token-no-ws', 'C10', 'break', 'separator token without leading blanks', [(P, "_R_EXPR_FUNCTION_SEPARATOR = re.compile(r'^\\s*,')", "_R_EXPR_FUNCTION_SEPARATOR = re.compile(r'^,')")], 'C10.T'),

    # ------------------------------------------------------------------ C12 / C13 / C14
    ('c12-arrayget', 'C12', 'break', 'arrayGet without int()', [(L, "    return array[int(index)]", "    return array[index]")], 'C12.sink'),
    ('c12-stringrepeat', 'C12', 'break', 'stringRepeat without int()', [(L, "return string * int(count)", "return string * count")], 'C12.sink'),
    ('c12-parseint', 'C12', 'break', 'numberParseInt radix uncoerced', [(L, "return value_parse_integer(string, int(radix))", "return value_parse_integer(string, radix)")], 'C12.sink'),
    ('c12-tofixed', 'C12', 'break', 'numberToFixed digits uncoerced', [(L, ":.{int(digits)}f}'", ":.{digits}f}'")], 'C12.sink'),
    ('c12-datetimenew', 'C12', 'break', 'datetimeNew hour uncoerced', [(L, "int(day), int(hour), int(minute)", "int(day), hour, int(minute)")], 'C12.sink'),
    ('c12-integrality-isinstance', 'C12', 'break', 'integer constraint by isinstance', [(V, "(fn_arg.get('integer') and int(arg_value) != arg_value)", "(fn_arg.get('integer') and not isinstance(arg_value, int))")], 'C12.chk'),
    ('c12-benign-coerce-top', 'C12', 'benign', 'coerce once at the top', [(L, "    return array[int(index)]", "    index = int(index)\n    return array[index]")], 'ok-or-unrecognised'),
    ('c13-no-anchor', 'C13', 'break', 'clean-up without end anchor', [(V, "R_NUMBER_CLEANUP = re.compile(r'\\.0*$')", "R_NUMBER_CLEANUP = re.compile(r'\\.0*')")], 'C13.C'),
    ('c13-int-before-bool', 'C13', 'break', 'int tested before bool in value_string', [(V, "    elif isinstance(value, bool):\n        return 'true' if value else 'false'\n    elif isinstance(value, int):\n        return str(value)", "    elif isinstance(value, int):\n        return str(value)\n    elif isinstance(value, bool):\n        return 'true' if value else 'false'")], 'C13.D'),
    ('c13-arrayjoin-str', 'C13', 'break', 'arrayJoin uses str()', [(L, "return separator.join(value_string(value) for value in array)", "return separator.join(str(value) for value in array)")], 'C13.D'),
    ('c13-upper-e', 'C13', 'break', 'literal regex with upper-case E only', [(P, "(?:e[+-]\\d+)?)')", "(?:E[+-]\\d+)?)')")], 'C13.L'),
    ('c14-no-sort-keys', 'C14', 'break', 'default encoder without sort_keys', [(V, "_JSON_ENCODER_DEFAULT = _JSONEncoder(allow_nan=False, separators=(',', ':'), sort_keys=True)", "_JSON_ENCODER_DEFAULT = _JSONEncoder(allow_nan=False, separators=(',', ':'))")], 'C14.E'),
    ('c14-ensure-ascii', 'C14', 'break', 'ensure_ascii disabled', [(V, "_JSON_ENCODER_DEFAULT = _JSONEncoder(allow_nan=False, separators=(',', ':'), sort_keys=True)", "_JSON_ENCODER_DEFAULT = _JSONEncoder(allow_nan=False, ensure_ascii=False, separators=(',', ':'), sort_keys=True)")], 'C14.E'),

    # ------------------------------------------------------------------ C15 / C16 / C17 / C18 / C19
    ('c15-indexof-failure', 'C15', 'break', 'arrayIndexOf explicit raise without -1', [(L, "    array, value, index = value_args_validate(_ARRAY_INDEX_OF_ARGS, args, -1)\n    if index >= len(array):\n        raise ValueArgsError('index', index, -1)", "    array, value, index = value_args_validate(_ARRAY_INDEX_OF_ARGS, args, -1)\n    if index >= len(array):\n        raise ValueArgsError('index', index)")], 'C15.V'),
    ('c15-no-gte', 'C15', 'break', 'arrayGet model without gte', [(L, "_ARRAY_GET_ARGS = value_args_model([\n    {'name': 'array', 'type': 'array'},\n    {'name': 'index', 'type': 'number', 'integer': True, 'gte': 0}", "_ARRAY_GET_ARGS = value_args_model([\n    {'name': 'array', 'type': 'array'},\n    {'name': 'index', 'type': 'number', 'integer': True}")], 'C15.B'),
    ('c15-copy-alias', 'C15', 'break', 'arrayCopy returns its argument', [(L, "    array, = value_args_validate(_ARRAY_COPY_ARGS, args)\n    return list(array)", "    array, = value_args_validate(_ARRAY_COPY_ARGS, args)\n    return array")], 'C15.A'),
    ('c15-push-on-copy', 'C15', 'break', 'arrayPush extends a copy', [(L, "    array, values = value_args_validate(_ARRAY_PUSH_ARGS, args)\n    array.extend(values)\n    return array", "    array, values = value_args_validate(_ARRAY_PUSH_ARGS, args)\n    array = list(array)\n    array.extend(values)\n    return array")], 'C15'),
    ('c15-safe-percent', 'C15', 'break', 'urlEncodeComponent keeps %', [(L, "return urllib.parse.quote(url, safe=\"'\")", "return urllib.parse.quote(url, safe=\"'%\")")], 'C15.H'),
    ('c15-pop-before-check', 'C15', 'break', 'arrayShift deletes before the emptiness test', [(L, "    array, = value_args_validate(_ARRAY_SHIFT_ARGS, args)\n    if len(array) == 0:\n        raise ValueArgsError('array', array)\n\n    result = array[0]\n    del array[0]", "    array, = value_args_validate(_ARRAY_SHIFT_ARGS, args)\n    result = array[0] if array else None\n    del array[0:1]\n    if result is None:\n        raise ValueArgsError('array', array)\n")], 'C15.M'),
    ('c16-minute-24', 'C16', 'break', 'minute block uses 24 in one place', [(L, "        minute -= extra_hours * 60", "        minute -= extra_hours * 24")], 'C16.M'),
    ('c16-getter-month', 'C16', 'break', 'datetimeMinute returns the month', [(L, "return value_normalize_datetime(datetime_).minute", "return value_normalize_datetime(datetime_).month")], 'C16.G'),
    ('c16-parser-round', 'C16', 'break', 'formatter without astimezone', [(V, "iso = value_normalize_datetime(value).astimezone().isoformat()", "iso = value_normalize_datetime(value).isoformat()")], 'C16.I'),
    ('c17-own-urlfn', 'C17', 'break', 'urlFn stored on the shared options', [(R, "include_options['urlFn'] = functools.partial(url_file_relative, url)", "include_options['urlFn'] = options['urlFn'] = functools.partial(url_file_relative, url)")], 'C17.I'),
    ('c17-return-nested', 'C17', 'break', 'nested run given locals', [(R, "_execute_script_helper(script['statements'], include_options, None)", "_execute_script_helper(script['statements'], include_options, locals_)")], 'C17.G'),
    ('c17-raw-url-message', 'C17', 'break', 'failure message names the raw url', [(R, "raise BareScriptRuntimeError(f'Include of \"{url}\" failed')", "raise BareScriptRuntimeError(f'Include of \"{include[\"url\"]}\" failed')")], 'C17.F'),
    ('c18-args-unguarded', 'C18', 'break', "function args read unguarded", [(M, "            args = statement['function'].get('args')", "            args = statement['function']['args']")], 'C18.K'),
    ('c18-skip-return', 'C18', 'break', 'use collector skips return expressions', [(M, "        elif statement_key == 'return' and 'expr' in statement['return']:\n            _get_expression_variable_uses(statement['return']['expr'], uses, ix_statement)", "        elif statement_key == 'return' and 'expr' in statement['return']:\n            pass")], 'C18.X'),
    ('c18-pointless-unary', 'C18', 'break', 'unary over a call is pointless', [(M, "    elif expr_key == 'unary':\n        return _is_pointless_expression(expr['unary']['expr'])", "    elif expr_key == 'unary':\n        return True")], 'C18.X'),
    ('c19-probe-key', 'C19', 'break', 'probe key through value_string', [(D, "            category_key = value_json(evaluate_expression(left_expression, eval_options, left_row))", "            category_key = str(evaluate_expression(left_expression, eval_options, left_row))")], 'C'),
    ('c19-sum-max', 'C19', 'break', 'sum computed with max', [(D, "                aggregate_row[field] = sum(measure_values)", "                aggregate_row[field] = max(measure_values)")], 'C19.A'),
    ('c19-no-null-filter', 'C19', 'break', 'null filter by truthiness', [(D, "            if value is not None:\n                aggregate_row[field].append(value)", "            if value:\n                aggregate_row[field].append(value)")], 'C19.A'),
    ('c20-swap-add-remove', 'C20', 'break', 'Add and Remove swapped in one push', [('include/diff.bare', "            arrayPush(diffs, objectNew('type', 'Remove', 'lines', arraySlice(leftLines, ixLeft, ixLeftTmp)))", "            arrayPush(diffs, objectNew('type', 'Add', 'lines', arraySlice(leftLines, ixLeft, ixLeftTmp)))")], 'C20.D'),
    ('c20-delete-endif', 'C20', 'break', 'an endif deleted in diff.bare', [('include/diff.bare', "            continue\n        endif\n\n        # Look ahead", "            continue\n\n        # Look ahead")], 'C20.W'),
    ('c20-benign-rename', 'C20', 'benign', 'ixLeftTmp renamed', [('include/diff.bare', "ixLeftTmp", "ixLeftAhead")], 'ok'),
]
