"""Type-atom abstraction: evaluate isinstance / `is None` / callable ladders symbolically over the host types that
BareScript values are made of.  Used by C03.G, C11.P, C13.D, C15.T."""
import ast

from .core import Unrecognised, call_name, const_str, norm, is_name

ATOMS = ['None', 'str', 'bool', 'int', 'float', 'date', 'datetime', 'dict', 'list', 'function', 'regex', 'uuid', 'other']

# atom -> set of host class names it is an instance of
INSTANCE_OF = {
    'None': {'NoneType'},
    'str': {'str'},
    'bool': {'bool', 'int'},
    'int': {'int'},
    'float': {'float'},
    'date': {'date'},
    'datetime': {'datetime', 'date'},
    'dict': {'dict'},
    'list': {'list'},
    'function': {'function'},
    'regex': {'Pattern'},
    'uuid': {'UUID'},
    'other': set(),
}

# the BareScript type name each atom must have (the language definition; value_type is checked against it by C11.P)
BARE_TYPE = {'None': 'null', 'str': 'string', 'bool': 'boolean', 'int': 'number', 'float': 'number', 'date': 'datetime',
             'datetime': 'datetime', 'dict': 'object', 'list': 'array', 'function': 'function', 'regex': 'regex',
             'uuid': None, 'other': None}

CLASS_NAMES = {
    'str': 'str', 'bool': 'bool', 'int': 'int', 'float': 'float', 'dict': 'dict', 'list': 'list',
    'datetime.date': 'date', 'datetime.datetime': 'datetime', 'REGEX_TYPE': 'Pattern', 're.Pattern': 'Pattern',
    'uuid.UUID': 'UUID', 'type(None)': 'NoneType', 'complex': 'complex', 'tuple': 'tuple', 'bytes': 'bytes',
    'numbers.Number': None,
}


class Unknown(Exception):
    pass


class AtomEval:
    """Evaluates boolean type tests for an environment {expr_text: atom}."""

    def __init__(self, repo, mod, env, depth=0, consts=None):
        self.repo = repo
        self.mod = mod
        self.env = env
        self.depth = depth
        self.consts = consts or {}     # expr text -> concrete constant (e.g. arg_type -> 'number')

    def atom_of(self, node):
        key = norm(node)
        if key in self.env:
            return self.env[key]
        raise Unknown(f'no atom for {key}')

    def classes(self, node):
        if isinstance(node, ast.Subscript) and isinstance(node.value, ast.Name) and norm(node.slice) in self.consts and node.value.id in self.mod.assigns:
            table = self.mod.assigns[node.value.id][0]
            if isinstance(table, ast.Dict):
                key = self.consts[norm(node.slice)]
                for k, v in zip(table.keys, table.values):
                    if isinstance(k, ast.Constant) and k.value == key:
                        return self.classes(v)
                raise Unknown(f'{node.value.id} has no entry {key!r}')
        if isinstance(node, ast.Call) and isinstance(node.func, ast.Attribute) and node.func.attr == 'get' and isinstance(node.func.value, ast.Name) \
                and node.args and norm(node.args[0]) in self.consts and node.func.value.id in self.mod.assigns:
            table = self.mod.assigns[node.func.value.id][0]
            if isinstance(table, ast.Dict):
                key = self.consts[norm(node.args[0])]
                for k, v in zip(table.keys, table.values):
                    if isinstance(k, ast.Constant) and k.value == key:
                        return self.classes(v)
                return []
        elts = node.elts if isinstance(node, ast.Tuple) else [node]
        out = []
        for e in elts:
            name = norm(e)
            if name == '(dict)':
                name = 'dict'
            if name.startswith('(') and name.endswith(')'):
                name = name[1:-1]
            if name not in CLASS_NAMES:
                raise Unknown(f'unknown class {name}')
            out.append(CLASS_NAMES[name])
        return out

    def test(self, e):
        """-> True / False; raises Unknown when the test is not a pure type test of known operands."""
        if isinstance(e, ast.BoolOp):
            vals = [self.test(v) for v in e.values]
            return all(vals) if isinstance(e.op, ast.And) else any(vals)
        if isinstance(e, ast.UnaryOp) and isinstance(e.op, ast.Not):
            return not self.test(e.operand)
        if isinstance(e, ast.IfExp):
            return self.test(e.body) if self.test(e.test) else self.test(e.orelse)
        if isinstance(e, ast.Compare) and len(e.ops) == 1:
            op = e.ops[0]
            l, r = e.left, e.comparators[0]
            if isinstance(op, (ast.Is, ast.IsNot)) and isinstance(r, ast.Constant) and r.value is None and isinstance(l, ast.Call) \
                    and isinstance(l.func, ast.Attribute) and l.func.attr == 'get' and l.args and norm(l.args[0]) in self.consts:
                present = bool(self.classes(l))
                return (not present) if isinstance(op, ast.Is) else present
            if isinstance(op, (ast.Is, ast.IsNot)) and isinstance(r, ast.Constant) and r.value is None:
                res = self.atom_of(l) == 'None'
                return res if isinstance(op, ast.Is) else not res
            if isinstance(op, (ast.Eq, ast.NotEq, ast.In, ast.NotIn)):
                lt = norm(l)
                if lt in self.consts:
                    try:
                        rv = ast.literal_eval(r)
                    except (ValueError, SyntaxError):
                        rv = None
                        if norm(r) in self.consts:
                            rv = self.consts[norm(r)]
                        else:
                            raise Unknown(norm(e))
                    if isinstance(op, (ast.Eq, ast.NotEq)):
                        res = self.consts[lt] == rv
                        return res if isinstance(op, ast.Eq) else not res
                    res = self.consts[lt] in rv
                    return res if isinstance(op, ast.In) else not res
            if isinstance(op, (ast.Eq, ast.NotEq)):
                for a, b in ((l, r), (r, l)):
                    if isinstance(a, ast.Call) and call_name(a) == 'value_type' and const_str(b) is not None:
                        res = self.value_type(self.atom_of(a.args[0])) == const_str(b)
                        return res if isinstance(op, ast.Eq) else not res
            raise Unknown(norm(e))
        if isinstance(e, ast.Call):
            cn = call_name(e)
            if cn == 'isinstance' and len(e.args) == 2:
                atom = self.atom_of(e.args[0])
                return any(c in INSTANCE_OF[atom] for c in self.classes(e.args[1]) if c)
            if cn == 'callable' and len(e.args) == 1:
                return self.atom_of(e.args[0]) == 'function'
            if cn and self.depth < 3:
                res = self.repo.resolve_function(self.mod, cn) if '.' not in cn else None
                if res is not None:
                    mod, func = res
                    body = [s for s in func.body if not (isinstance(s, ast.Expr) and isinstance(s.value, ast.Constant))]
                    params = [a.arg for a in func.args.args]
                    if len(body) == 1 and isinstance(body[0], ast.Return) and len(params) == len(e.args):
                        env = {p: self.atom_of(a) for p, a in zip(params, e.args)}
                        return AtomEval(self.repo, mod, env, self.depth + 1).test(body[0].value)
            raise Unknown(norm(e))
        if isinstance(e, ast.Constant) and isinstance(e.value, bool):
            return e.value
        raise Unknown(norm(e))

    _vt_cache = {}

    def value_type(self, atom):
        """Abstractly execute the repository's value_type ladder on an atom -> the returned constant."""
        key = (self.repo.root, atom)
        if key not in AtomEval._vt_cache:
            vmod = self.repo.module('value')
            func = vmod.func('value_type', 'C11.P')
            ret = ladder(self.repo, vmod, func, {func.args.args[0].arg: atom})
            val = ret.value if ret is not None else None
            if isinstance(val, ast.Constant):
                AtomEval._vt_cache[key] = val.value
            elif val is None:
                AtomEval._vt_cache[key] = None
            else:
                raise Unrecognised('C11.P', f'value_type returns a non-constant for {atom}: {norm(val)}', vmod.rel)
        return AtomEval._vt_cache[key]


def ladder(repo, mod, func, env, rule='atoms'):
    """Walk the top-level statement list of `func` (if/elif/else ladders with returns) under the atom environment
    `env` and return the ast.Return reached (None if the function falls off the end).  Non-type tests raise Unknown."""
    ev = AtomEval(repo, mod, env)

    def run(stmts):
        for s in stmts:
            if isinstance(s, ast.Expr) and isinstance(s.value, ast.Constant):
                continue
            if isinstance(s, ast.Return):
                return s
            if isinstance(s, ast.If):
                if ev.test(s.test):
                    r = run(s.body)
                else:
                    r = run(s.orelse)
                if r is not None:
                    return r
                continue
            if isinstance(s, ast.Try):
                r = run(s.body)
                if r is not None:
                    return r
                continue
            raise Unknown(f'statement {type(s).__name__} in ladder: {norm(s)[:60]}')
        return None
    return run(func.body)


def select_branch(repo, mod, func, env):
    """statements of the first top-level if/elif alternative of `func` whose (type) test holds under env, else None"""
    from .core import if_chain
    ev = AtomEval(repo, mod, env)
    for s in func.body:
        if isinstance(s, ast.If):
            for test, body in if_chain(s):
                if test is None or ev.test(test):
                    return body
    return None
