"""Parser lowering analysis shared by C01 / C06 / C07 / C10: handler discovery, abstract lines, shape enumeration,
reference (structured) flow graphs, lowered flow graphs, bisimulation and well-formedness checks."""
import ast
import itertools

from .core import Unrecognised, norm, call_name, walk_no_nested, Regex
from .rx import Rx, MAXREPEAT
from .absint import (Interp, ALine, ADict, AList, Sym, AMatch, ContinueSig, BreakSig, ReturnSig, RaiseSig, reify)

KEYWORDS = ['if', 'elif', 'else', 'endif', 'while', 'endwhile', 'for', 'endfor', 'break', 'continue', 'function', 'endfunction',
            'jump', 'return', 'include']


def lead_keywords(node):
    """possible leading keyword strings of a regex tree (after optional blanks / optional groups)"""
    k = node.kind
    if k == 'cat':
        acc = ''
        for kid in node.kids:
            if kid.kind == 'at' or Rx.is_ws_star(kid) or Rx.is_ws_plus(kid):
                if acc:
                    return {acc}
                continue
            if kid.kind == 'lit' and (kid.a.isalpha()):
                acc += kid.a
                continue
            if acc:
                return {acc}
            if kid.kind == 'rep' and kid.a == 0:
                continue          # optional prefix such as (\s*async)?
            if kid.kind in ('group', 'alt', 'rep'):
                return lead_keywords(kid)
            return set()
        return {acc} if acc else set()
    if k == 'group':
        return lead_keywords(node.kids[0])
    if k == 'alt':
        out = set()
        for a in node.kids:
            out |= lead_keywords(a)
        return out
    if k == 'rep' and node.a >= 1:
        return lead_keywords(node.kids[0])
    if k == 'lit' and node.a.isalpha():
        return {node.a}
    return set()


class ParserModel:
    """Everything the analyses need to know about parser.parse_script, read from its source."""

    def __init__(self, repo, rule='E6'):
        self.repo = repo
        self.rule = rule
        self.mod = repo.module('parser')
        self.func = self.mod.func('parse_script', rule)
        loops = [s for s in self.func.body if isinstance(s, ast.For)]
        main = [l for l in loops if any(isinstance(n, ast.Call) and isinstance(n.func, ast.Attribute) and n.func.attr == 'match' for n in ast.walk(l))]
        if len(main) != 1:
            raise Unrecognised(rule, f'parse_script: expected one line loop, found {len(main)}', self.mod.rel)
        self.loop = main[0]
        ix = self.func.body.index(self.loop)
        self.prologue = self.func.body[:ix]
        self.epilogue = self.func.body[ix + 1:]
        self.regexes = {}
        for name, rg in self.mod.regexes().items():
            self.regexes[name] = Rx(rg.pattern, rg.flags, name)
        self._discover_handlers()

    def _discover_handlers(self):
        """handler = `NAME = REGEX.match(line)` immediately followed by `if NAME:`; kind from the regex itself"""
        self.handlers = []          # (kind, [regex names], if_node)
        self.kind_regex = {}
        body = self.loop.body
        self.line_var = None
        for i, s in enumerate(body):
            if isinstance(s, ast.Assign) and len(s.targets) == 1 and isinstance(s.targets[0], ast.Name):
                rnames = []
                for n in ast.walk(s.value):
                    if isinstance(n, ast.Call) and isinstance(n.func, ast.Attribute) and n.func.attr == 'match' and isinstance(n.func.value, ast.Name) \
                            and n.func.value.id in self.regexes:
                        rnames.append(n.func.value.id)
                        self.line_var = self.line_var or (norm(n.args[0]) if n.args else None)
                if rnames and i + 1 < len(body) and isinstance(body[i + 1], ast.If) and norm(body[i + 1].test) == s.targets[0].id:
                    kinds = set()
                    for rn in rnames:
                        kinds |= self.classify_regex(rn)
                    if len(kinds) != 1:
                        raise Unrecognised(self.rule, f'handler regexes {rnames} do not classify to one construct: {kinds}', self.mod.rel)
                    kind = kinds.pop()
                    self.handlers.append((kind, rnames, body[i + 1]))
                    self.kind_regex.setdefault(kind, []).extend(rnames)
        tail = body[-1]
        self.expr_handler = tail if isinstance(tail, ast.Try) else None
        # statement regexes that no `NAME = R.match(line); if NAME:` handler names (table-driven dispatch, helpers): classified from the regex table itself.
        # Which regex matches a line is what the abstract lines encode; the code that consumes the match is evaluated, not recognised.
        used = {n.func.value.id for n in ast.walk(self.func) if isinstance(n, ast.Call) and isinstance(n.func, ast.Attribute) and isinstance(n.func.value, ast.Name)
                and n.func.value.id in self.regexes}
        for fn in self.mod.funcs.values():
            if fn is not self.func:
                used |= {n.id for n in ast.walk(fn) if isinstance(n, ast.Name) and n.id in self.regexes}
        used |= {n.id for vals in self.mod.assigns.values() for v in vals for n in ast.walk(v) if isinstance(n, ast.Name) and n.id in self.regexes}
        known = {r for _k, rs, _n in self.handlers for r in rs}
        for rn in self.regexes:
            if rn in known or not rn.startswith('_R_SCRIPT'):
                continue
            try:
                kinds = self.classify_regex(rn)
            except Unrecognised:
                continue
            if len(kinds) == 1:
                kind = next(iter(kinds))
                if rn not in self.kind_regex.get(kind, []):
                    self.kind_regex.setdefault(kind, []).append(rn)
        if len(self.kind_regex) < 15:
            raise Unrecognised(self.rule, f'only {len(self.kind_regex)} statement kinds identified from the regex table', self.mod.rel)
        # comment / continuation / split regexes
        self.comment_regex = self.cont_regex = None
        # from the regex table itself: the comment regex accepts a blank line and mentions '#'; the continuation regex is backslash, blanks, end
        for rn, rx in self.regexes.items():
            if not rn.startswith('_R_SCRIPT'):
                continue
            pat = rx.pattern
            if '#' in pat and not rx.mandatory_chars() and self.comment_regex is None:
                self.comment_regex = rn
            if pat.startswith('\\\\') and pat.endswith('$') and self.cont_regex is None:
                self.cont_regex = rn
        for n in (ast.walk(self.loop) if (self.comment_regex is None or self.cont_regex is None) else []):
            if isinstance(n, ast.Call) and isinstance(n.func, ast.Attribute) and isinstance(n.func.value, ast.Name) and n.func.value.id in self.regexes:
                rn = n.func.value.id
                if n.func.attr == 'match' and rn not in [r for rs in self.kind_regex.values() for r in rs]:
                    self.comment_regex = rn
                elif n.func.attr == 'sub' and n.args and norm(n.args[-1]) != self.line_var and 'line' in norm(n.args[-1]):
                    self.cont_regex = self.cont_regex or rn

        if self.comment_regex is None or self.cont_regex is None:
            raise Unrecognised(self.rule, f'comment / continuation regex not identified ({self.comment_regex}, {self.cont_regex})', self.mod.rel)

    def classify_regex(self, rname):
        rx = self.regexes[rname]
        kws = {k for k in lead_keywords(rx.tree) if k in KEYWORDS or any(k.startswith(x) for x in ('jump',))}
        kws = {('jump' if k.startswith('jump') else k) for k in kws}
        if kws:
            return kws
        names = set(rx.group_names())
        mand = rx.mandatory_chars()
        if 'name' in names and '=' in mand:
            return {'assign'}
        if names == {'name'} and ':' in mand:
            return {'label'}
        raise Unrecognised(self.rule, f'statement regex {rname} not classified', self.mod.rel)

    # ---- abstract lines
    def line(self, lid, kind, present=(), regex_ix=0):
        """ALine of a construct kind; optional groups participate only if listed in `present`"""
        if kind == 'expr':
            return ALine(lid, None, {})
        if kind == 'comment':
            return ALine(lid, self.comment_regex, {})
        rnames = self.kind_regex.get(kind)
        if not rnames:
            raise Unrecognised(self.rule, f'no handler for construct {kind}', self.mod.rel)
        rn = rnames[regex_ix]
        ck = (rn, tuple(present))
        cache = self.__dict__.setdefault('_line_cache', {})
        if ck not in cache:
            rx = self.regexes[rn]
            groups = {}
            for g in rx.group_names():
                lit = rx.group_literal(g)
                if rx.group_optional(g) and g not in present:
                    groups[g] = None
                elif lit is not None and len(lit) <= 2 and not lit.isalnum():
                    groups[g] = lit
                else:
                    groups[g] = 'sym'
            cache[ck] = groups
        return ALine(lid, rn, dict(cache[ck]))

    # ---- run the loop over abstract lines
    def lower(self, lines, start_env=None, fail_parse=None):
        """-> ('ok', script ADict, interp) | ('error', RaiseSig, interp)
        parse_script is evaluated as a whole on the abstract input "a list of chunks, one abstract physical line each" (the line-split regex applied to
        an abstract line yields that line), so the verdict does not depend on how the line loop is written (helpers, generators, table-driven dispatch)."""
        it = Interp(self.mod, self.rule)
        it.repo = self.repo
        it.max_depth = 12
        it.fail_parse = fail_parse
        params = [a.arg for a in self.func.args.args]
        args = [AList(list(lines)), Sym('start')][:len(params)]
        try:
            val = it.call_function(self.func, args, self.func)
        except RaiseSig as sig:
            return 'error', sig, it
        return 'ok', val, it


# --------------------------------------------------------------------------- shapes

class Shape:
    """structured program shape -> abstract lines + reference structure"""

    def __init__(self, pm):
        self.pm = pm
        self.lines = []
        self.src = []

    def add(self, kind, text, present=(), regex_ix=0):
        ln = self.pm.line(len(self.lines), kind, present, regex_ix)
        self.lines.append(ln)
        self.src.append(text)
        return ln.lid

    def emit_block(self, block, indent):
        """block: list of items; returns reference items with line ids"""
        out = []
        pad = '    ' * indent
        for item in block:
            k = item[0]
            if k == 'body':
                out.append(('body', self.add('expr', f'{pad}B{len(self.lines)}()')))
            elif k == 'if':
                branches, els = item[1], item[2]
                rb = []
                for j, b in enumerate(branches):
                    lid = self.add('if' if j == 0 else 'elif', f'{pad}{"if" if j == 0 else "elif"} c{len(self.lines)}:')
                    rb.append((lid, self.emit_block(b, indent + 1)))
                re_ = None
                if els is not None:
                    self.add('else', f'{pad}else:')
                    re_ = self.emit_block(els, indent + 1)
                self.add('endif', f'{pad}endif')
                out.append(('if', rb, re_))
            elif k == 'while':
                lid = self.add('while', f'{pad}while c{len(self.lines)}:')
                body = self.emit_block(item[1], indent + 1)
                self.add('endwhile', f'{pad}endwhile')
                out.append(('while', lid, body))
            elif k == 'for':
                with_index = item[1]
                lid = self.add('for', f'{pad}for v{", i" if with_index else ""} in vs{len(self.lines)}:', present=('index',) if with_index else ())
                body = self.emit_block(item[2], indent + 1)
                self.add('endfor', f'{pad}endfor')
                out.append(('for', lid, body, with_index))
            elif k == 'break':
                out.append(('break', self.add('break', f'{pad}break')))
            elif k == 'continue':
                out.append(('continue', self.add('continue', f'{pad}continue')))
            elif k == 'return':
                out.append(('return', self.add('return', f'{pad}return{" r" if item[1] else ""}', present=('expr',) if item[1] else ()), item[1]))
            elif k == 'func':
                lid = self.add('function', f'{pad}function f{len(self.lines)}({"a, b" if item[2] else ""}):', present=('args',) if item[2] else ())
                body = self.emit_block(item[1], indent + 1)
                self.add('endfunction', f'{pad}endfunction')
                out.append(('func', lid, body))
            elif k == 'comment':
                self.add('comment', f'{pad}# comment')
            elif k == 'include':
                n_inc = len(self.pm.kind_regex.get('include', []))
                out.append(('include', self.add('include', f"{pad}include {'<lib.bare>' if item[1] else chr(39) + 'lib.bare' + chr(39)}", (), regex_ix=min(item[1], n_inc - 1))))
            else:
                raise ValueError(k)
        return out


B = ('body',)


def loop_variants(kind, inner, level):
    """blocks for a loop body: inner construct (or None) plus break/continue sites"""
    base = [B] + ([inner] if inner else []) + [B]
    out = [base]
    if level == 'full':
        out.append(base + [('continue',)])
        out.append([B, ('if', [[('break',)]], None)] + ([inner] if inner else []) + [B])
        out.append([B, ('if', [[B, ('continue',)]], None)] + ([inner] if inner else []) + [B])
        out.append([B, ('if', [[('break',)]], [('continue',)])] + ([inner] if inner else []) + [B])
        out.append(base + [('if', [[B]], [('if', [[('continue',)]], None), ('break',)])])
        out.append([B, ('if', [[('if', [[B], [('break',)]], [('if', [[('continue',)]], None)])]], None)] + ([inner] if inner else []) + [B])
        out.append([('if', [[B]], [('if', [[B]], [('if', [[('break',)]], None), ('continue',)])])] + ([inner] if inner else []))
        # several continue / break sites of the same loop
        out.append([('if', [[('continue',)]], None), B, ('if', [[('continue',)]], [('break',)]), ('if', [[('break',)]], None)] + ([inner] if inner else []) + [('continue',)])
    elif level == 'some':
        out.append([B, ('if', [[('break',)]], None)] + ([inner] if inner else []) + [B, ('if', [[('continue',)]], None), B])
    return out


def constructs(depth, level='full'):
    """all construct shapes up to nesting depth `depth` (an item each)"""
    if depth == 0:
        return []
    inners = [None] + constructs(depth - 1, 'some' if level == 'full' else 'none')
    out = []
    for inner in inners:
        blk = [B] + ([inner] if inner else [])
        blk2 = ([inner] if inner else []) + [B]
        # if variants: nest in first branch, elif branch, or else branch
        out.append(('if', [blk], None))
        out.append(('if', [blk], blk2 if inner is None else [B]))
        out.append(('if', [[B], blk], None))
        out.append(('if', [[B], [B]], blk2))
        if inner is not None:
            out.append(('if', [[B]], blk2))
            out.append(('if', [[B], [B], blk], [B]))
        for lb in loop_variants('while', inner, level):
            out.append(('while', lb))
        for lb in loop_variants('for', inner, level):
            out.append(('for', False, lb))
        out.append(('for', True, [B] + ([inner] if inner else [])))
    return out


# --------------------------------------------------------------------------- reference graph

class RNodeG:
    def __init__(self, kind, key, extra=None):
        self.kind = kind
        self.key = key
        self.extra = extra
        self.succ = {}      # label -> (node, why)

    def label(self):
        return (self.kind, self.key)

    def __repr__(self):
        return f'{self.kind}:{self.key}'


EXIT = RNodeG('exit', None)


def ref_graph(items, nxt=EXIT, loop=None, why_next='end of program'):
    """structured big-step reading of a block as a deterministic labelled graph; returns entry node.
    loop = (continue_target, why_c, break_target, why_b)"""
    entry = nxt
    for item in reversed(items):
        k = item[0]
        if k == 'body':
            n = RNodeG('body', item[1])
            n.succ['N'] = (entry, 'sequence')
            entry = n
        elif k == 'if':
            after = entry
            branches, els = item[1], item[2]
            else_entry = ref_graph(els, after, loop) if els is not None else after
            nxt_test = else_entry
            why_false = 'if: all conditions false -> else branch' if els is not None else 'if: all conditions false -> after endif'
            for j in range(len(branches) - 1, -1, -1):
                lid, blk = branches[j]
                t = RNodeG('test', lid)
                t.succ['T'] = (ref_graph(blk, after, loop), f'if: condition {j} true -> its branch')
                t.succ['F'] = (nxt_test, why_false if j == len(branches) - 1 else f'if: condition {j} false -> next condition')
                nxt_test = t
            entry = nxt_test
            _retag(entry, after, 'if: end of a branch -> after endif')
        elif k == 'while':
            _k, lid, blk = item
            after = entry
            t = RNodeG('test', lid)
            body = ref_graph(blk, t, (t, 'while: continue -> re-test the condition', after, 'while: break -> after endwhile'))
            t.succ['T'] = (body, 'while: condition true -> body')
            t.succ['F'] = (after, 'while: condition false -> after endwhile')
            entry = t
        elif k == 'for':
            _k, lid, blk, with_index = item
            after = entry
            init = RNodeG('forinit', lid)
            h = RNodeG('hasnext', lid)
            init.succ['N'] = (h, 'for: values evaluated once -> first element test')
            body = ref_graph(blk, h, (h, 'for: continue -> advance to the next element', after, 'for: break -> after endfor'))
            h.succ['T'] = (body, 'for: another element -> body')
            h.succ['F'] = (after, 'for: no more elements -> after endfor')
            entry = init
        elif k == 'break':
            if loop is None:
                raise ValueError('break outside loop in shape')
            entry = _Redirect(loop[2], loop[3])
        elif k == 'continue':
            if loop is None:
                raise ValueError('continue outside loop in shape')
            entry = _Redirect(loop[0], loop[1])
        elif k == 'return':
            n = RNodeG('return', item[1], item[2])
            entry = n
        elif k == 'func':
            n = RNodeG('funcdef', item[1])
            n.succ['N'] = (entry, 'sequence')
            entry = n
    return entry


class _Redirect:
    """placeholder: control transfers to `target` (break/continue)"""

    def __init__(self, target, why):
        self.target = target
        self.why = why


def _retag(entry, after, why):
    pass


def resolve(node_why):
    """follow _Redirect placeholders"""
    node, why = node_why
    while isinstance(node, _Redirect):
        why = node.why
        node = node.target
    return node, why


# --------------------------------------------------------------------------- lowered graph

class Lowered:
    """event view of one emitted statement list"""

    def __init__(self, stmts, lines, scope):
        self.stmts = stmts
        self.lines = lines
        self.scope = scope
        self.labels = {}
        self.dups = []
        for i, s in enumerate(stmts):
            if isinstance(s, dict) and 'label' in s:
                if s['label'] in self.labels:
                    self.dups.append(s['label'])
                else:
                    self.labels[s['label']] = i
        self.problems = []
        self.kinds = [self.classify(i, s) for i, s in enumerate(stmts)]

    def cond_key(self, e):
        """expression node -> (key, negated) where key identifies the source condition / loop"""
        neg = False
        while isinstance(e, dict) and 'unary' in e and e['unary'].get('op') == '!':
            neg = not neg
            e = e['unary']['expr']
        if isinstance(e, Sym) and e.kind == 'parsed' and isinstance(e.args[0], Sym) and e.args[0].kind == 'group':
            g = e.args[0]
            return ('cond', g.args[2], g.args[1]), neg
        if isinstance(e, dict) and 'variable' in e:
            return ('var', e['variable']), neg
        if isinstance(e, dict) and 'binary' in e:
            b = e['binary']
            if isinstance(b.get('left'), dict) and isinstance(b.get('right'), dict) and 'variable' in b['left'] and 'variable' in b['right']:
                return ('rel', b.get('op'), b['left']['variable'], b['right']['variable']), neg
        return ('unknown', repr(e)[:60]), neg

    def classify(self, i, s):
        if not isinstance(s, dict) or len(s) != 1:
            return ('bad', repr(s)[:80])
        (k, v), = s.items()
        if k == 'label':
            return ('label', v)
        if k == 'jump':
            if not isinstance(v, dict) or 'label' not in v:
                return ('bad', repr(s)[:80])
            if 'expr' in v:
                key, neg = self.cond_key(v['expr'])
                return ('cjump', v['label'], key, neg)
            return ('jump', v['label'])
        if k == 'return':
            return ('return', 'expr' in v if isinstance(v, dict) else False)
        if k == 'function':
            return ('funcdef', v)
        if k == 'include':
            return ('include', v)
        if k == 'expr':
            if not isinstance(v, dict) or 'expr' not in v:
                return ('bad', repr(s)[:80])
            e = v['expr']
            if 'name' not in v:
                if isinstance(e, Sym) and e.kind == 'parsed' and isinstance(e.args[0], ALine):
                    return ('body', e.args[0].lid)
                return ('exprstmt', repr(e)[:60])
            name = v['name']
            if isinstance(e, Sym) and e.kind == 'parsed' and isinstance(e.args[0], Sym) and e.args[0].kind == 'group':
                g = e.args[0]
                return ('assign-parsed', name, g.args[2], g.args[1])      # name := parsed(group g.args[1] of line g.args[2])
            if isinstance(e, dict) and 'function' in e:
                f = e['function']
                args = f.get('args', [])
                argv = [a.get('variable') if isinstance(a, dict) else None for a in args]
                return ('assign-call', name, f.get('name'), tuple(argv))
            if isinstance(e, dict) and 'number' in e:
                return ('assign-num', name, e['number'])
            if isinstance(e, dict) and 'binary' in e:
                b = e['binary']
                l, r = b.get('left'), b.get('right')
                if isinstance(l, dict) and 'variable' in l and isinstance(r, dict) and 'number' in r:
                    return ('assign-inc', name, b.get('op'), l['variable'], r['number'])
            return ('assign-other', name, repr(e)[:60])
        return ('bad', repr(s)[:80])

    def target(self, label):
        return self.labels.get(label)


# --------------------------------------------------------------------------- comparison (bisimulation)

class Mismatch(Exception):
    def __init__(self, why, detail):
        self.why = why
        self.detail = detail


def obs_label(low, i, forloops):
    """observable label of lowered statement i or None if silent"""
    k = low.kinds[i]
    if k[0] == 'body':
        return ('body', k[1])
    if k[0] == 'cjump':
        key = k[2]
        if key[0] == 'cond':
            return ('test', key[1])
        if key[0] in ('var', 'rel'):
            lp = forloops.by_test.get(i)
            if lp is not None:
                return ('hasnext', lp)
            return ('unknown-test', key)
        return ('unknown-test', key)
    if k[0] == 'assign-parsed':
        lp = forloops.by_init.get(i)
        if lp is not None:
            return ('forinit', lp)
        return ('assign', k[1])
    if k[0] == 'return':
        return ('return', None)
    if k[0] == 'funcdef':
        nm = k[1].get('name') if isinstance(k[1], dict) else None
        return ('funcdef', nm.args[2] if isinstance(nm, Sym) and nm.kind == 'group' and nm.args[1] == 'name' else None)
    if k[0] in ('bad', 'exprstmt', 'assign-other', 'include'):
        return ('other', k)
    return None


class ForLoops:
    """associate for-loop bookkeeping statements of a lowered list with the `for` line they belong to"""

    def __init__(self, low, problems):
        self.by_init = {}     # stmt index -> loop line id
        self.by_test = {}     # cjump index -> loop id
        self.info = {}        # loop id -> dict(values=, length=, index=, value=, init_ix, len_ix, idx0_ix, fetch_ix, inc_ix, tests)
        kinds = low.kinds
        for i, k in enumerate(kinds):
            if k[0] == 'assign-parsed' and k[3] == 'values':
                lid = k[2]
                if lid in self.info:
                    problems.append(('for-init-twice', f'the values expression of the for at line {lid} is evaluated by two statements'))
                self.info[lid] = {'values': k[1], 'init_ix': i, 'tests': []}
                self.by_init[i] = lid
        for lid, inf in self.info.items():
            V = inf['values']
            for i, k in enumerate(kinds):
                if k[0] == 'assign-call' and k[2] == 'arrayLength' and k[3] == (V,):
                    inf.setdefault('len_ixs', []).append(i)
                    inf['length'] = k[1]
                if k[0] == 'assign-call' and k[2] == 'arrayGet' and len(k[3]) == 2 and k[3][0] == V:
                    inf.setdefault('fetch_ixs', []).append(i)
                    inf['index'] = k[3][1]
                    inf['value'] = k[1]
            I = inf.get('index')
            Ln = inf.get('length')
            for i, k in enumerate(kinds):
                if I is not None and k[0] == 'assign-num' and k[1] == I:
                    inf.setdefault('idx0_ixs', []).append(i)
                    inf['idx0_value'] = k[2]
                if I is not None and k[0] == 'assign-inc' and k[1] == I:
                    inf.setdefault('inc_ixs', []).append(i)
                    inf['inc'] = (k[2], k[3], k[4])
                if k[0] == 'cjump':
                    key, neg = k[2], k[3]
                    if key == ('var', Ln) and Ln is not None:
                        self.by_test[i] = lid
                        inf['tests'].append((i, 'nonempty', neg))
                    elif key[0] == 'rel' and Ln is not None and key[2] == I and key[3] == Ln:
                        self.by_test[i] = lid
                        inf['tests'].append((i, 'rel:' + str(key[1]), neg))
                    elif key[0] == 'rel' and Ln is not None and (key[3] == Ln or key[2] == I):
                        self.by_test[i] = lid
                        inf['tests'].append((i, f'rel:{key[1]}:{key[2]}:{key[3]}', neg))


def hasnext_polarity(test_kind, neg):
    """(edge taken when the jump is taken, edge when it falls through) in terms of 'T' = another element exists"""
    if test_kind == 'nonempty':
        # jump taken iff (length truthy) xor neg
        return ('F', 'T') if neg else ('T', 'F')
    if test_kind == 'rel:<':
        return ('F', 'T') if neg else ('T', 'F')
    if test_kind == 'rel:>=':
        return ('T', 'F') if neg else ('F', 'T')
    return None


def low_succ(low, i, forloops):
    """successors of lowered statement i: {edge_label: next_index or None(exit)}; edge labels: N, T, F"""
    k = low.kinds[i]
    n = len(low.stmts)
    nxt = i + 1 if i + 1 < n else None
    if k[0] == 'jump':
        t = low.target(k[1])
        if t is None:
            raise Mismatch('jump target', f'unconditional jump to undefined label {k[1]!r}')
        return {'N': t}
    if k[0] == 'cjump':
        t = low.target(k[1])
        if t is None:
            raise Mismatch('jump target', f'conditional jump to undefined label {k[1]!r}')
        key, neg = k[2], k[3]
        if key[0] == 'cond':
            # jump taken iff cond xor neg
            return {'F': t, 'T': nxt} if neg else {'T': t, 'F': nxt}
        lp = forloops.by_test.get(i)
        if lp is not None:
            kind = next(tk for ix, tk, _n in forloops.info[lp]['tests'] if ix == i)
            pol = hasnext_polarity(kind, neg)
            if pol is None:
                raise Mismatch('for: element test', f'loop test {kind} (negated={neg}) is not a recognised "another element?" test')
            return {pol[0]: t, pol[1]: nxt}
        raise Mismatch('unknown test', f'conditional jump on {key} is neither a source condition nor a loop guard')
    if k[0] == 'return':
        return {}
    return {'N': nxt}


def next_observable(low, start, forloops, limit=10000):
    """from statement index `start` (or None) skip silent statements; -> (index or None, [silent indices passed])"""
    passed = []
    i = start
    seen = set()
    while i is not None:
        if obs_label(low, i, forloops) is not None:
            return i, passed
        if i in seen:
            raise Mismatch('silent cycle', f'the lowered code loops through statements {sorted(seen)} without executing any source condition or body')
        seen.add(i)
        passed.append(i)
        succ = low_succ(low, i, forloops)
        i = succ.get('N')
        if 'N' not in succ:
            return None, passed
    return None, passed


def bisimulate(low, ref_entry, forloops):
    """lockstep walk of lowered event graph and structured reference; raises Mismatch; returns list of
    (ref_edge_why, lowered silent statements passed, lowered node index) for the data-flow rules"""
    edges = []
    start, passed = next_observable(low, 0 if low.stmts else None, forloops)
    ref_entry, why0 = resolve((ref_entry, 'program entry'))
    work = [(start, ref_entry, why0, passed, None)]
    seen = set()
    while work:
        li, rn, why, passed, src = work.pop()
        edges.append((why, passed, li, src, rn))
        lab_low = ('exit', None) if li is None else obs_label(low, li, forloops)
        lab_ref = rn.label() if rn is not EXIT else ('exit', None)
        if lab_low[0] == 'return' and lab_ref[0] == 'return':
            want_expr = rn.extra
            if low.kinds[li][1] != bool(want_expr):
                raise Mismatch(why, f'return statement {"loses" if want_expr else "gains"} its expression')
            continue
        if lab_low != lab_ref:
            raise Mismatch(why, f'structured reading reaches {describe(lab_ref, low)}, the lowered code reaches {describe(lab_low, low)}')
        if (li, id(rn)) in seen or li is None:
            continue
        seen.add((li, id(rn)))
        succ = low_succ(low, li, forloops)
        rsucc = rn.succ
        if set(succ) != set(rsucc):
            raise Mismatch(why, f'{describe(lab_ref, low)}: lowered code has outgoing edges {sorted(succ)}, structured reading {sorted(rsucc)}')
        for lab in succ:
            nxt, p = next_observable(low, succ[lab], forloops)
            rnext, rwhy = resolve(rsucc[lab])
            work.append((nxt, rnext, rwhy, p, (li, lab)))
    return edges


def describe(lab, low):
    kind, key = lab
    if kind == 'exit':
        return 'the end of the statement list'
    if kind in ('test', 'body', 'forinit', 'hasnext', 'funcdef'):
        src = low.lines_src[key].strip() if key is not None and key < len(low.lines_src) else '?'
        return {'test': f'the test of condition `{src}`', 'body': f'statement `{src}`', 'forinit': f'the evaluation of the values of `{src}`',
                'hasnext': f'the next-element test of `{src}`', 'funcdef': f'function definition `{src}`'}[kind]
    return f'{kind} {key}'


# --------------------------------------------------------------------------- well-formedness (C07)

import re as _re


def label_family(name):
    if isinstance(name, str):
        return _re.sub(r'\d+$', 'N', name)
    return 'user label'


def scope_lists(model):
    out = [('global', model.get('statements', []))]
    for s in model.get('statements', []):
        if isinstance(s, dict) and isinstance(s.get('function'), dict):
            out.append(('function', s['function'].get('statements', [])))
    return out


def label_problems(stmts):
    """[(category, detail)] for one statement list"""
    problems = []
    defined = {}
    used = {}
    for i, s in enumerate(stmts):
        if isinstance(s, dict) and 'label' in s:
            defined.setdefault(s['label'], []).append(i)
        if isinstance(s, dict) and isinstance(s.get('jump'), dict):
            used.setdefault(s['jump'].get('label'), []).append(i)
    for name, ixs in defined.items():
        if len(ixs) > 1:
            problems.append((f'label {label_family(name)} defined more than once in one scope', f'label {name!r} is defined at statements {ixs}'))
        if name not in used:
            problems.append((f'label {label_family(name)} is never the target of a jump', f'label {name!r} (statement {ixs[0]}) is emitted but no jump of the same scope targets it'))
        if isinstance(name, str) and not name.startswith('__bareScript'):
            problems.append(('generated label without the reserved prefix', f'generated label {name!r} does not start with __bareScript and can collide with user labels'))
    for name, ixs in used.items():
        if name not in defined:
            problems.append((f'jump to {label_family(name)} has no label in its scope', f'jump at statement {ixs[0]} targets {name!r}, which is not defined in the same statement list'))
    return problems


def schema_problems(sch, value, typename, path='script'):
    """validate a reified abstract model against the schema text; Sym leaves stand for strings / parsed expressions"""
    problems = []

    def is_str(v):
        return isinstance(v, str) or (isinstance(v, Sym) and v.kind in ('group', 'unescaped', 'fstr', 'item', 'join', 'method'))

    def check(v, ty, member, path):
        if member is not None and member.array:
            if isinstance(v, Sym) and v.kind == 'arglist' and ty == 'string':
                return
            if isinstance(v, Sym) and v.kind == 'split':
                return
            if not isinstance(v, list):
                problems.append(('array member is not a list', f'{path} = {v!r}'[:160]))
                return
            if 'len > 0' in (member.attrs or '') and len(v) == 0:
                problems.append(('empty array where the schema requires len > 0', path))
            for i, x in enumerate(v):
                check(x, ty, None, f'{path}[{i}]')
            return
        if ty == 'string':
            if not is_str(v):
                problems.append(('string member is not a string', f'{path} = {v!r}'[:160]))
        elif ty in ('float', 'int', 'number'):
            if isinstance(v, bool) or not isinstance(v, (int, float)) and not (isinstance(v, Sym) and v.kind in ('float', 'int')):
                problems.append(('numeric member is not a number', f'{path} = {v!r}'[:160]))
        elif ty == 'bool':
            if not isinstance(v, bool):
                problems.append(('bool member is not a bool', f'{path} = {v!r}'[:160]))
        elif ty in sch.enums:
            if not (v in sch.enums[ty] or (isinstance(v, Sym) and v.kind == 'group')):
                problems.append((f'value is not a member of enum {ty}', f'{path} = {v!r}'[:160]))
        elif ty in sch.unions:
            if isinstance(v, Sym) and v.kind == 'parsed' and ty == 'Expression':
                return
            if not isinstance(v, dict) or len(v) != 1:
                problems.append((f'{ty} node does not have exactly one key', f'{path} = {repr(v)[:140]}'))
                return
            (k, x), = v.items()
            if k not in sch.unions[ty]:
                problems.append((f'unknown {ty} kind', f'{path}: key {k!r}'))
                return
            m = sch.unions[ty][k]
            check(x, m.type, m, f'{path}.{k}')
        elif ty in sch.structs:
            if not isinstance(v, dict):
                problems.append((f'{ty} is not an object', f'{path} = {repr(v)[:140]}'))
                return
            members = sch.structs[ty]
            for k in v:
                if k not in members:
                    problems.append((f'unknown member of {ty}', f'{path}: unexpected key {k!r} (emitted object: {sorted(map(str, v))})'))
            for k, m in members.items():
                if k not in v:
                    if not m.optional:
                        problems.append((f'missing required member of {ty}', f'{path}: {k}'))
                    continue
                check(v[k], m.type, m, f'{path}.{k}')
        elif ty in sch.typedefs:
            pass
        else:
            problems.append(('unknown schema type', f'{ty} at {path}'))
    check(value, typename, None, path)
    return problems
