"""Registry of library functions (SCRIPT_FUNCTIONS) with their declarative argument models."""
import ast

from .core import Unrecognised, Opaque, call_name, const_str, norm, walk_no_nested


class LibFunc:
    def __init__(self, name, pyname, mod, func):
        self.name = name            # script-visible name
        self.pyname = pyname
        self.mod = mod
        self.func = func
        self.validate = None        # the value_args_validate Call node (first one in the body)
        self.model_name = None
        self.model = None           # list of dict entries
        self.targets = None         # list of unpack target names (None entries for non-Name targets)
        self.failure = None         # AST node of the 3rd argument of value_args_validate (None => null)
        self.args_param = func.args.args[0].arg if func.args.args else None
        self.options_param = func.args.args[1].arg if len(func.args.args) > 1 else None
        self.doc = {}               # baredoc comment block: {'function':..., 'arg': [(name, text)], 'return': [..]}

    def entry_of(self, var):
        if self.targets and self.model and var in self.targets:
            ix = self.targets.index(var)
            if ix < len(self.model):
                return self.model[ix]
        return None


def registry(repo, rule='E1.registry'):
    lib = repo.module('library')
    node = lib.const_node('SCRIPT_FUNCTIONS', rule)
    if not isinstance(node, ast.Dict):
        raise Unrecognised(rule, 'SCRIPT_FUNCTIONS is not a dict display', lib.rel)
    out = {}
    for k, v in zip(node.keys, node.values):
        name = const_str(k)
        if name is None or not isinstance(v, ast.Name):
            raise Unrecognised(rule, f'SCRIPT_FUNCTIONS entry {norm(k)}: {norm(v)} is not "name": function', lib.rel)
        out[name] = v.id
    return out


def _doc_blocks(mod):
    """baredoc comment blocks: function name -> {'arg': [...], 'return': [...], 'doc': [...], 'group': ..}"""
    blocks = {}
    cur = None
    for line in mod.src.splitlines():
        s = line.strip()
        if s.startswith('# $function:'):
            cur = {'arg': [], 'return': [], 'doc': [], 'group': None}
            blocks[s.split(':', 1)[1].strip()] = cur
        elif cur is not None and s.startswith('# $arg '):
            name, _, text = s[len('# $arg '):].partition(':')
            cur['arg'].append((name.strip(), text.strip()))
        elif cur is not None and s.startswith('# $return:'):
            cur['return'].append(s.split(':', 1)[1].strip())
        elif cur is not None and s.startswith('# $doc:'):
            cur['doc'].append(s.split(':', 1)[1].strip())
        elif cur is not None and s.startswith('# $group:'):
            cur['group'] = s.split(':', 1)[1].strip()
        elif not s.startswith('#'):
            cur = None
    return blocks


def library_functions(repo, rule='E1.registry'):
    lib = repo.module('library')
    reg = registry(repo, rule)
    docs = _doc_blocks(lib)
    out = []
    for name, pyname in reg.items():
        if pyname not in lib.funcs:
            raise Unrecognised(rule, f'registry entry {name} -> {pyname} is not a module-level function', lib.rel)
        lf = LibFunc(name, pyname, lib, lib.funcs[pyname])
        lf.doc = docs.get(name, {})
        for node in walk_no_nested(lf.func):
            if isinstance(node, ast.Call) and call_name(node) == 'value_args_validate' and len(node.args) >= 2:
                lf.validate = node
                if isinstance(node.args[0], ast.Name):
                    lf.model_name = node.args[0].id
                    model = lib.const(lf.model_name, rule) if lf.model_name in lib.assigns else None
                    if isinstance(model, list) and all(isinstance(e, dict) for e in model):
                        lf.model = model
                    else:
                        raise Unrecognised(rule, f'argument model {lf.model_name} of {name} is not a literal list of dicts', lib.rel)
                if len(node.args) >= 3:
                    lf.failure = node.args[2]
                for kw in node.keywords:
                    if kw.arg == 'error_return_value':
                        lf.failure = kw.value
                parent = getattr(node, '_parent', None)
                if isinstance(parent, ast.Assign) and len(parent.targets) == 1:
                    tgt = parent.targets[0]
                    if isinstance(tgt, (ast.Tuple, ast.List)):
                        lf.targets = [t.id if isinstance(t, ast.Name) else None for t in tgt.elts]
                    elif isinstance(tgt, ast.Name):
                        lf.targets = None
                break
        if lf.model is not None and lf.targets is not None and len(lf.targets) != len(lf.model):
            raise Unrecognised(rule, f'{name}: {len(lf.targets)} unpack targets for {len(lf.model)} model entries', lib.rel)
        out.append(lf)
    return out
