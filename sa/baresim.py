"""E9x: a reference evaluator for the shipped structured BareScript sources (sa/barefront.py trees).

Used to decide the behavioural clause of C20 on the shipped text of diff.bare: the program is evaluated, under the documented
language semantics and reference models of the few builtins it calls, on every pair of small line lists; the reconstruction
property is then checked on the returned blocks.  Nothing of the repository's Python code is involved: the builtins here are
the reference list / dict / string models, and whether the library implements them is the subject of C15 / C11 (shared rules).
Statements with jumps / labels and builtins outside the table are reported as not evaluable.
"""
import re

from .core import Unrecognised
from . import barefront


class NotEvaluable(Exception):
    pass


class BareRuntimeError(Exception):
    pass


class _Return(Exception):
    def __init__(self, value):
        self.value = value


class _Break(Exception):
    pass


class _Continue(Exception):
    pass


class Regex:
    def __init__(self, pattern):
        self.rx = re.compile(pattern)


def truthy(v):
    if v is None or v is False:
        return False
    if v is True:
        return True
    if isinstance(v, (int, float)):
        return v != 0
    if isinstance(v, str):
        return v != ''
    if isinstance(v, list):
        return len(v) != 0
    return True


def type_name(v):
    if v is None:
        return 'null'
    if isinstance(v, bool):
        return 'boolean'
    if isinstance(v, (int, float)):
        return 'number'
    if isinstance(v, str):
        return 'string'
    if isinstance(v, list):
        return 'array'
    if isinstance(v, dict):
        return 'object'
    if isinstance(v, Regex):
        return 'regex'
    return 'function'


def compare(a, b):
    """the total value order restricted to what the evaluated programs compare"""
    if a is None or b is None:
        return 0 if (a is None and b is None) else (-1 if a is None else 1)
    ta, tb = type_name(a), type_name(b)
    if ta != tb:
        return (ta > tb) - (ta < tb)
    if ta in ('boolean', 'number', 'string'):
        return (a > b) - (a < b)
    if ta == 'array':
        for x, y in zip(a, b):
            c = compare(x, y)
            if c:
                return c
        return (len(a) > len(b)) - (len(a) < len(b))
    if ta == 'object':
        ia, ib = sorted(a.items()), sorted(b.items())
        for (ka, va), (kb, vb) in zip(ia, ib):
            if ka != kb:
                return (ka > kb) - (ka < kb)
            c = compare(va, vb)
            if c:
                return c
        return (len(ia) > len(ib)) - (len(ia) < len(ib))
    return 0


def _int_arg(v, lo, hi):
    if isinstance(v, bool) or not isinstance(v, (int, float)) or v != int(v) or not (lo <= v <= hi):
        return None
    return int(v)


def _array_slice(args):
    arr = args[0] if args else None
    if not isinstance(arr, list):
        return None
    n = len(arr)
    start = 0 if len(args) < 2 or args[1] is None else _int_arg(args[1], 0, n)
    end = n if len(args) < 3 or args[2] is None else _int_arg(args[2], 0, n)
    if start is None or end is None:
        return None
    return arr[start:end]


def _array_get(args):
    if len(args) < 2 or not isinstance(args[0], list):
        return None
    ix = _int_arg(args[1], 0, len(args[0]) - 1)
    return None if ix is None else args[0][ix]


def _array_push(args):
    if not args or not isinstance(args[0], list):
        return None
    args[0].extend(args[1:])
    return args[0]


def _array_extend(args):
    if len(args) < 2 or not isinstance(args[0], list) or not isinstance(args[1], list):
        return None
    args[0].extend(args[1])
    return args[0]


def _object_new(args):
    out = {}
    for i in range(0, len(args) - 1, 2):
        if not isinstance(args[i], str):
            return None
        out[args[i]] = args[i + 1]
    return out


def _string_from_char_code(args):
    if not all(isinstance(a, (int, float)) and not isinstance(a, bool) and a == int(a) and a >= 0 for a in args):
        return None
    return ''.join(chr(int(a)) for a in args)


def _regex_split(args):
    if len(args) < 2 or not isinstance(args[0], Regex) or not isinstance(args[1], str):
        return None
    return args[0].rx.split(args[1])


BUILTINS = {
    'arrayNew': lambda a: list(a),
    'arrayPush': _array_push,
    'arrayExtend': _array_extend,
    'arrayLength': lambda a: float(len(a[0])) if a and isinstance(a[0], list) else None,
    'arrayGet': _array_get,
    'arraySlice': _array_slice,
    'arrayCopy': lambda a: list(a[0]) if a and isinstance(a[0], list) else None,
    'objectNew': _object_new,
    'objectGet': lambda a: (a[0].get(a[1], a[2] if len(a) > 2 else None) if len(a) >= 2 and isinstance(a[0], dict) and isinstance(a[1], str) else (a[2] if len(a) > 2 else None)),
    'systemType': lambda a: type_name(a[0]) if a else None,
    'stringFromCharCode': _string_from_char_code,
    'regexNew': lambda a: Regex(a[0]) if a and isinstance(a[0], str) else None,
    'regexSplit': _regex_split,
    'stringLength': lambda a: float(len(a[0])) if a and isinstance(a[0], str) else None,
}


class Evaluator:
    def __init__(self, program, max_steps=200000, skip_global_calls=()):
        self.globals = {}
        self.functions = {}
        self.steps = 0
        self.max_steps = max_steps
        self.skip_global_calls = set(skip_global_calls)
        for s in barefront.walk_stmts(program):
            if s.kind in ('jump', 'label'):
                pass
        self.program = program

    def tick(self):
        self.steps += 1
        if self.steps > self.max_steps:
            raise BareRuntimeError('statement limit')

    def run_globals(self, only_assignments_to=None):
        """execute the top-level statements: function definitions and - if given - only the assignments of the named globals"""
        for s in self.program:
            if s.kind == 'function':
                self.functions[s.name] = s
            elif s.kind == 'assign' and (only_assignments_to is None or s.name in only_assignments_to):
                self.globals[s.name] = self.eval(s.expr, None)
            elif only_assignments_to is None and s.kind != 'include':
                self.exec_block([s], None)

    # ---- expressions
    def eval(self, e, local):
        k = e[0]
        if k == 'num':
            return float(e[1])
        if k == 'str':
            return e[1]
        if k == 'var':
            n = e[1]
            if n == 'null':
                return None
            if n == 'true':
                return True
            if n == 'false':
                return False
            if local is not None and n in local:
                return local[n]
            return self.globals.get(n)
        if k == 'group':
            return self.eval(e[1], local)
        if k == 'un':
            v = self.eval(e[2], local)
            if e[1] == '!':
                return not truthy(v)
            return -v if isinstance(v, (int, float)) and not isinstance(v, bool) else None
        if k == 'bin':
            op = e[1]
            if op == '&&':
                l = self.eval(e[2], local)
                return l if not truthy(l) else self.eval(e[3], local)
            if op == '||':
                l = self.eval(e[2], local)
                return l if truthy(l) else self.eval(e[3], local)
            l, r = self.eval(e[2], local), self.eval(e[3], local)
            num = lambda v: isinstance(v, (int, float)) and not isinstance(v, bool)
            if op in ('==', '!=', '<', '<=', '>', '>='):
                c = compare(l, r)
                return {'==': c == 0, '!=': c != 0, '<': c < 0, '<=': c <= 0, '>': c > 0, '>=': c >= 0}[op]
            if op == '+':
                if num(l) and num(r):
                    return l + r
                if isinstance(l, str) and isinstance(r, str):
                    return l + r
                if isinstance(l, str) or isinstance(r, str):
                    raise NotEvaluable('string concatenation with a non-string operand')
                return None
            if num(l) and num(r):
                try:
                    return {'-': lambda: l - r, '*': lambda: l * r, '/': lambda: l / r, '%': lambda: l % r, '**': lambda: l ** r}[op]()
                except (ZeroDivisionError, OverflowError):
                    return None
            return None
        if k == 'call':
            name = e[1]
            if name == 'if':
                args = e[2]
                c = self.eval(args[0], local) if args else None
                if truthy(c):
                    return self.eval(args[1], local) if len(args) > 1 else None
                return self.eval(args[2], local) if len(args) > 2 else None
            args = [self.eval(a, local) for a in e[2]]
            target = None
            if local is not None and name in local:
                target = local[name]
            elif name in self.globals:
                target = self.globals[name]
            if target is None and name in self.functions:
                return self.call(self.functions[name], args)
            if target is not None:
                raise NotEvaluable(f'call of the variable {name}')
            if name in BUILTINS:
                return BUILTINS[name](args)
            from . import libref
            if name in libref.REFERENCE:
                # the reference list / dict / str models of the library (shared with C15.R)
                if any(isinstance(a, Regex) or callable(a) for a in args):
                    raise NotEvaluable(f'builtin {name} applied to a regex / function value')
                kind, v = libref.reference_call(name, args)
                if isinstance(v, tuple) and v and v[0] == 'either':
                    v = v[1]
                if isinstance(v, tuple) and v and v[0] in ('regex-literal', 'percent'):
                    raise NotEvaluable(f'builtin {name} has no value-level reference model')
                if isinstance(v, int) and not isinstance(v, bool):
                    v = float(v)
                return v
            raise NotEvaluable(f'builtin {name} has no reference model here')
        raise NotEvaluable(f'expression kind {k}')

    def call(self, fn, args):
        params = fn.extra.get('args') or []
        local = {}
        for i, p in enumerate(params):
            if fn.extra.get('last') and i == len(params) - 1:
                local[p] = list(args[i:])
            else:
                local[p] = args[i] if i < len(args) else None
        try:
            self.exec_block(fn.body, local)
        except _Return as r:
            return r.value
        return None

    # ---- statements
    def exec_block(self, stmts, local):
        for s in stmts:
            self.tick()
            k = s.kind
            if k == 'assign':
                v = self.eval(s.expr, local)
                if local is not None:
                    local[s.name] = v
                else:
                    self.globals[s.name] = v
            elif k == 'expr':
                self.eval(s.expr, local)
            elif k == 'return':
                raise _Return(self.eval(s.expr, local) if s.expr is not None else None)
            elif k == 'if':
                for cond, body in s.branches:
                    if cond is None or truthy(self.eval(cond, local)):
                        self.exec_block(body, local)
                        break
            elif k == 'while':
                while truthy(self.eval(s.expr, local)):
                    self.tick()
                    try:
                        self.exec_block(s.body, local)
                    except _Break:
                        break
                    except _Continue:
                        continue
            elif k == 'for':
                seq = self.eval(s.expr, local)
                if seq is None:
                    continue
                if not isinstance(seq, list):
                    raise NotEvaluable('for over a non-array')
                ix = 0
                while ix < len(seq):
                    self.tick()
                    tgt = local if local is not None else self.globals
                    tgt[s.extra.get('value')] = seq[ix]
                    if s.extra.get('index'):
                        tgt[s.extra.get('index')] = float(ix)
                    ix += 1
                    try:
                        self.exec_block(s.body, local)
                    except _Break:
                        break
                    except _Continue:
                        continue
            elif k == 'break':
                raise _Break()
            elif k == 'continue':
                raise _Continue()
            elif k == 'function':
                self.functions[s.name] = s
            elif k == 'include':
                pass
            else:
                raise NotEvaluable(f'statement kind {k}')


# ------------------------------------------------------------------------------------------------ diffLines
def check_diff_result(left_lines, right_lines, result):
    """-> None | message"""
    if not isinstance(result, list):
        return f'returns {result!r}, not an array of blocks'
    l_out, r_out = [], []
    for b in result:
        if not isinstance(b, dict) or b.get('type') not in ('Identical', 'Add', 'Remove') or not isinstance(b.get('lines'), list):
            return f'returns the malformed block {b!r}'
        if not b['lines']:
            return f'returns a {b["type"]} block without lines'
        if b['type'] in ('Identical', 'Remove'):
            l_out += b['lines']
        if b['type'] in ('Identical', 'Add'):
            r_out += b['lines']
    if l_out != left_lines:
        return f'the Identical and Remove blocks give {l_out!r}, not the left lines'
    if r_out != right_lines:
        return f'the Identical and Add blocks give {r_out!r}, not the right lines'
    if left_lines == right_lines and any(b['type'] != 'Identical' for b in result):
        return 'identical inputs yield an Add / Remove block'
    return None


_IN_WORKER = False


def _pairs_worker(job):
    text, lefts, rights = job
    prog = barefront.parse_program(text)
    fns = {s.name: s for s in prog if s.kind == 'function'}
    used = set()
    for f in fns.values():
        for s in barefront.walk_stmts(f.body):
            for e in barefront.stmt_exprs(s):
                used |= barefront.expr_names(e)
    needed = {s.name for s in prog if s.kind == 'assign' and s.name in used}
    n, problems = 0, []
    for l in lefts:
        for r in rights:
            n += 1
            ev = Evaluator(prog)
            try:
                ev.run_globals(only_assignments_to=needed)
                res = ev.call(fns['diffLines'], [list(l), list(r)])
            except NotEvaluable as exc:
                return n, [f'NOT-EVALUABLE {exc}']
            except (BareRuntimeError, RecursionError) as exc:
                problems.append(f'diffLines({l!r}, {r!r}) does not terminate ({exc})')
                continue
            msg = check_diff_result(l, r, res)
            if msg and len(problems) < 20:
                problems.append(f'diffLines({l!r}, {r!r}) {msg} (blocks: {res!r})'[:500])
    return n, problems


def run_diff_lines(text, tier='quick'):
    """evaluate diffLines of the given diff.bare source on small inputs -> (n, problems [message])"""
    import itertools
    try:
        prog = barefront.parse_program(text)
    except barefront.BareSyntaxError as exc:
        raise Unrecognised('E9x', f'diff.bare does not parse: {exc}', None)
    fns = {s.name: s for s in prog if s.kind == 'function'}
    if 'diffLines' not in fns:
        raise Unrecognised('E9x', 'diff.bare defines no function diffLines', None)
    # the globals diffLines (and its helpers) read
    used = set()
    for f in fns.values():
        for s in barefront.walk_stmts(f.body):
            for e in barefront.stmt_exprs(s):
                used |= barefront.expr_names(e)
    needed = {s.name for s in prog if s.kind == 'assign' and s.name in used}
    maxlen = 4 if tier != 'thorough' else 5
    alphabet = ['a', 'b'] if tier != 'thorough' else ['a', 'b', '']
    lists = [list(p) for n in range(maxlen + 1) for p in itertools.product(alphabet, repeat=n)]
    problems, n = [], 0
    if tier == 'thorough' and not _IN_WORKER:
        # all pairs of line lists up to length 5 over a 3-letter alphabet (one letter is the empty line): split over the cores
        import concurrent.futures as cf
        import os
        chunks = [lists[i::32] for i in range(32)]
        try:
            with cf.ProcessPoolExecutor(max_workers=min(16, os.cpu_count() or 1)) as ex:
                for cn, cp in ex.map(_pairs_worker, [(text, ch, lists) for ch in chunks]):
                    n += cn
                    problems += cp
            lists = []
        except (OSError, cf.process.BrokenProcessPool):
            problems, n = [], 0

    def one(desc, left, right, left_lines, right_lines):
        nonlocal n
        n += 1
        ev = Evaluator(prog)
        try:
            ev.run_globals(only_assignments_to=needed)
            res = ev.call(fns['diffLines'], [left, right])
        except NotEvaluable as exc:
            raise Unrecognised('E9x', f'diffLines is not evaluable by the reference evaluator: {exc}', None)
        except BareRuntimeError as exc:
            problems.append(f'{desc} does not terminate within the statement limit ({exc})')
            return
        except RecursionError:
            problems.append(f'{desc} recurses without bound')
            return
        msg = check_diff_result(left_lines, right_lines, res)
        if msg:
            problems.append(f'{desc} {msg} (blocks: {res!r})'[:500])
    ne = [p for p in problems if p.startswith('NOT-EVALUABLE')]
    if ne:
        raise Unrecognised('E9x', f'diffLines is not evaluable by the reference evaluator: {ne[0][14:]}', None)
    for l in lists:
        for r in lists:
            one(f'diffLines({l!r}, {r!r})', list(l), list(r), l, r)
    texts = [('a\nb\nc', 'a\nc'), ('a\r\nb\r\n', 'a\nb\n'), ('a\n', 'a'), ('', ''), ('', 'a'), ('a\n\nb', 'a\nb'), ('x', 'x'), ('a\r\nb', 'b\r\na')]
    for lt, rt in texts:
        ll, rl = re.split(r'\r?\n', lt), re.split(r'\r?\n', rt)
        one(f'diffLines({lt!r}, {rt!r})', lt, rt, ll, rl)
        one(f'diffLines([{lt!r}], {rt!r})', [lt], rt, ll, rl)
    one("diffLines(['a\\nb', 'c'], ['a', 'b\\nc'])", ['a\nb', 'c'], ['a', 'b\nc'], ['a', 'b', 'c'], ['a', 'b', 'c'])
    # array elements are split one by one: a carriage return at the end of an element is part of the line, an embedded CRLF / LF splits it
    cr_l, cr_r = ['alpha\r', 'beta\r', 'gamma'], ['alpha', 'beta', 'gamma']
    one('diffLines(lines ending in CR, plain lines)', list(cr_l), list(cr_r), cr_l, cr_r)
    one('diffLines(lines ending in CR, the same)', list(cr_l), list(cr_l), cr_l, cr_l)
    one("diffLines(['x\\r', 'y'], 'x\\r\\ny')", ['x\r', 'y'], 'x\r\ny', ['x\r', 'y'], ['x', 'y'])
    one("diffLines(['p\\r\\nq\\r', 'r'], ['p', 'q\\r', 'r'])", ['p\r\nq\r', 'r'], ['p', 'q\r', 'r'], ['p', 'q\r', 'r'], ['p', 'q\r', 'r'])
    one("diffLines(['', ''], [''])", ['', ''], [''], ['', ''], [''])
    one("diffLines(['a', '', '', 'b'], ['a', '', 'b'])", ['a', '', '', 'b'], ['a', '', 'b'], ['a', '', '', 'b'], ['a', '', 'b'])
    return n, problems
