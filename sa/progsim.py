"""E9r: whole-program evaluation.

Subject: the repository's `parse_script` and `execute_script` (with `evaluate_expression`, `_script_function` and the library functions a program calls), all
evaluated by the abstract interpreter on CONCRETE programs and concrete initial globals - the repository is not imported or run.
Reference: a direct structured (big-step) reading of the same source text (sa/barefront.py trees, evaluator below), written from the language description: it never sees
the jump-level model.

Observables compared (C01): return value, sequence of logged lines, final global variables (generated `__bareScript...` temporaries and library functions excluded).
Under a statement limit (C09) the comparison is with the reference's own statement count (one per simple statement started, per loop header test and per lowered
bookkeeping step is NOT assumed: only "aborts or not", prefix and monotonicity are compared - see run_budget).
"""
import random

from .core import Unrecognised
from .absint import Interp, ADict, AList, Sym, RaiseSig, reify, ModuleFunc
from .hostdt import DatetimeMixin
from .libsim import JsonMixin
from . import barefront, baresim
from .baresim import truthy, BareRuntimeError, NotEvaluable, _Return, _Break, _Continue


# ------------------------------------------------------------------------------------------------ reference
class FnVal:
    def __init__(self, stmt):
        self.stmt = stmt

    def __repr__(self):
        return f'<function {self.stmt.name}>'


def vstr(v):
    """the string form of a value where the language definition leaves no choice"""
    if v is None:
        return 'null'
    if v is True:
        return 'true'
    if v is False:
        return 'false'
    if isinstance(v, str):
        return v
    if isinstance(v, (int, float)) and float(v).is_integer() and abs(v) < 1e15:
        return str(int(v))
    raise NotEvaluable(f'string form of {v!r}')


class ProgEvaluator(baresim.Evaluator):
    """structured big-step reading; `while_continue` = 'retest' (the documented meaning) or 'skip' (continue restarts the body without the test: known finding C01.W)"""

    def __init__(self, program, init_globals, while_continue='retest', max_steps=4000, library=()):
        super().__init__(program, max_steps=max_steps)
        self.globals = dict(init_globals)
        self.logs = []
        self.while_continue = while_continue
        self.library = set(library)

    def eval(self, e, local):
        k = e[0]
        if k == 'var':
            n = e[1]
            if n in ('null', 'true', 'false'):
                return {'null': None, 'true': True, 'false': False}[n]
            if local is not None and n in local:
                return local[n]
            if n in self.globals:
                return self.globals[n]
            if n in self.library:
                raise NotEvaluable(f'library function {n} read as a value')
            return None
        if k == 'bin' and e[1] == '+':
            l, r = self.eval(e[2], local), self.eval(e[3], local)
            num = lambda v: isinstance(v, (int, float)) and not isinstance(v, bool)
            if num(l) and num(r):
                return l + r
            if isinstance(l, str) or isinstance(r, str):
                return vstr(l) + vstr(r)
            return None
        if k == 'call' and e[1] != 'if':
            name = e[1]
            args = [self.eval(a, local) for a in e[2]]
            bound = True
            if local is not None and name in local:
                target = local[name]            # reads see locals before globals - in call position too
            elif name in self.globals:
                target = self.globals[name]
            else:
                target, bound = None, False
            if isinstance(target, FnVal):
                return self.call(target.stmt, args)
            if target is not None:
                return None                     # a value that is not a function: the call fails, a failed call gives null
            if bound:
                raise BareRuntimeError(f'Undefined function "{name}"')
            if name == 'systemLog':
                self.logs.append(vstr(args[0] if args else None))
                return None
            if name == 'systemPartial':
                raise NotEvaluable('systemPartial')
            if name in baresim.BUILTINS:
                return baresim.BUILTINS[name](args)
            from . import libref
            if name in libref.REFERENCE:
                if any(isinstance(a, FnVal) for a in args):
                    raise NotEvaluable(f'{name} applied to a function value')
                kind, v = libref.reference_call(name, args)
                if isinstance(v, tuple) and v and v[0] == 'either':
                    v = v[1]
                if isinstance(v, tuple):
                    raise NotEvaluable(f'builtin {name} has no value-level reference model')
                if isinstance(v, int) and not isinstance(v, bool):
                    v = float(v)
                return v
            if name in self.library:
                raise NotEvaluable(f'builtin {name} has no reference model')
            raise BareRuntimeError(f'Undefined function "{name}"')
        return super().eval(e, local)

    def exec_block(self, stmts, local):
        for s in stmts:
            self.tick()
            k = s.kind
            if k == 'function':
                self.globals[s.name] = FnVal(s)
            elif k == 'while':
                test = True
                while (not test) or truthy(self.eval(s.expr, local)):
                    test = True
                    self.tick()
                    try:
                        self.exec_block(s.body, local)
                    except _Break:
                        break
                    except _Continue:
                        if self.while_continue == 'skip':
                            test = False
                        continue
            elif k == 'for':
                seq = self.eval(s.expr, local)
                if not isinstance(seq, list):
                    continue          # nothing to walk
                n = len(seq)
                ix = 0
                tgt = local if local is not None else self.globals
                while ix < n:
                    self.tick()
                    if ix >= len(seq):
                        raise NotEvaluable('the walked array shrinks during the loop')
                    tgt[s.extra.get('value')] = seq[ix]
                    if s.extra.get('index'):
                        tgt[s.extra.get('index')] = float(ix)
                    ix += 1
                    try:
                        self.exec_block(s.body, local)
                    except _Break:
                        break
                    except _Continue:
                        continue
            else:
                self.steps -= 1         # the base class counts the statement again
                super().exec_block([s], local)

    def run(self):
        """-> ('value', v, logs, globals) | ('error', message, logs, globals) | ('limit', None, logs, globals)"""
        try:
            try:
                self.exec_block(self.program, None)
                r = None
            except _Return as ret:
                r = ret.value
        except BareRuntimeError as exc:
            if str(exc) == 'statement limit':
                return ('limit', None, self.logs, self.globals)
            return ('error', str(exc), self.logs, self.globals)
        return ('value', r, self.logs, self.globals)


# ------------------------------------------------------------------------------------------------ subject
class RunInterp(JsonMixin, DatetimeMixin, Interp):
    def __init__(self, repo, mod, rule='E9r'):
        super().__init__(mod, rule)
        self.repo = repo
        self.max_depth = 400
        self.max_while = 100000
        self.concrete_asserts = True
        self.concrete_parse = True        # included scripts are parsed for real (parse_expression evaluated on the concrete text)
        self.logs = []

    files = {}

    def call_value_hook(self, fn, args, e):
        if isinstance(fn, Sym) and fn.kind == 'hostfn' and fn.args[0] == 'log':
            self.logs.append(args[0] if args else None)
            return None
        if isinstance(fn, Sym) and fn.kind == 'hostfn' and fn.args[0] == 'fetch':
            req = args[0] if args else None
            url = req.d.get('url') if isinstance(req, ADict) else req
            return self.files.get(url)
        return super().call_value_hook(fn, args, e)


def is_fn(v):
    return isinstance(v, (FnVal, ModuleFunc)) or (isinstance(v, tuple) and v and v[0] in ('partial', 'extern', 'closure', 'bound')) or (isinstance(v, Sym) and v.kind == 'hostfn')


def to_abs(v):
    if isinstance(v, list):
        return AList([to_abs(x) for x in v])
    if isinstance(v, dict):
        return ADict({k: to_abs(x) for k, x in v.items()})
    return v


def plain(v):
    """subject value -> python data; function values -> the marker '<function>'"""
    if is_fn(v):
        return '<function>'
    if isinstance(v, AList):
        return [plain(x) for x in v.l]
    if isinstance(v, ADict):
        return {k: plain(x) for k, x in v.d.items()}
    if isinstance(v, list):
        return [plain(x) for x in v]
    if isinstance(v, dict):
        return {k: plain(x) for k, x in v.items()}
    if isinstance(v, FnVal):
        return '<function>'
    return v


def equal(a, b):
    if isinstance(a, bool) or isinstance(b, bool):
        return isinstance(a, bool) and isinstance(b, bool) and a == b
    if isinstance(a, (int, float)) and isinstance(b, (int, float)):
        return a == b or (a != a and b != b)
    if isinstance(a, list) and isinstance(b, list):
        return len(a) == len(b) and all(equal(x, y) for x, y in zip(a, b))
    if isinstance(a, dict) and isinstance(b, dict):
        return set(a) == set(b) and all(equal(a[k], b[k]) for k in a)
    return type(a) is type(b) and a == b


class Subject:
    def __init__(self, repo, rule='E9r'):
        from .lintsim import ModelParseInterp
        from .lib import library_functions
        self.repo, self.rule = repo, rule
        self.pmod = repo.module('parser')
        self.rmod = repo.module('runtime')
        self.f_parse = self.pmod.func('parse_script', rule)
        self.f_exec = self.rmod.func('execute_script', rule)
        self.pit = ModelParseInterp(repo, self.pmod, rule)
        self.library = {lf.name: ('extern', 'library', lf.pyname) for lf in library_functions(repo, rule)}
        self.models = {}

    def parse(self, text):
        if text not in self.models:
            self.pit.depth = 0
            try:
                self.models[text] = ('model', self.pit.call_function(self.f_parse, [text], self.f_parse))
            except RaiseSig as sig:
                self.models[text] = ('raise', sig.cls, tuple(sig.args_)[:1])
        return self.models[text]

    def run(self, text, init_globals, max_statements=4000, options=None, reuse=None):
        """-> (kind, value, logs, globals, options) with kind in value / error / limit / parse-error; `reuse`: the options object of an earlier run (its globals are replaced)"""
        m = self.parse(text)
        if m[0] == 'raise':
            return ('parse-error', f'{m[1]}{m[2]!r}', [], {}, None)
        it = RunInterp(self.repo, self.rmod, self.rule)
        it.files = INCLUDE_FILES
        it.globals['SCRIPT_FUNCTIONS'] = ADict(dict(self.library))
        it.sub_interp(self.repo.module('library')).globals['SCRIPT_FUNCTIONS'] = it.globals['SCRIPT_FUNCTIONS']
        G = ADict({k: to_abs(v) for k, v in init_globals.items()})
        if reuse is not None:
            opts = reuse
            opts.d['globals'] = G
            opts.d['maxStatements'] = max_statements
        else:
            opts = ADict({'globals': G, 'logFn': Sym('hostfn', 'log'), 'maxStatements': max_statements, 'fetchFn': Sym('hostfn', 'fetch')})
        if options:
            opts.d.update(options)
        try:
            r = it.call_function(self.f_exec, [m[1], opts], self.f_exec)
        except RaiseSig as sig:
            msg = sig.args_[0] if sig.args_ else ''
            g = {k: plain(v) for k, v in G.d.items()}
            if sig.cls == 'BareScriptRuntimeError' and isinstance(msg, str) and msg.startswith('Exceeded maximum script statements'):
                return ('limit', None, [plain(x) for x in it.logs], g, opts)
            if sig.cls == 'BareScriptRuntimeError':
                return ('error', msg, [plain(x) for x in it.logs], g, opts)
            return ('host-exception', f'{sig.cls}: {msg!r}'[:160], [plain(x) for x in it.logs], g, opts)
        return ('value', plain(r), [plain(x) for x in it.logs], {k: plain(v) for k, v in G.d.items()}, opts)


# ------------------------------------------------------------------------------------------------ programs
HAND = [
    ('empty branch bodies', '''
t = arrayNew()
if g:
elif 1:
    arrayPush(t, 1)
else:
    arrayPush(t, 2)
endif
if g:
    # nothing
else:
    arrayPush(t, 3)
endif
if !g:
elif g:
endif
arrayPush(t, 4)
return t
''', 'g'),
    ('empty loop bodies', '''
t = arrayNew()
k = 0
while k < 3:
    k = k + 1
endwhile
for v in arrayNew(1, 2):
endfor
for v, i in arrayNew(7, 8, 9):
    if i == 1:
    else:
        arrayPush(t, v)
    endif
endfor
return arrayNew(t, k, v)
''', None),
    ('for over any value', '''
t = arrayNew()
for v, i in g:
    arrayPush(t, i)
    arrayPush(t, v)
endfor
arrayPush(t, 'end')
return t
''', 'g'),
    ('for evaluates its array once', '''
t = arrayNew()
n = 0
function mk():
    systemLog('mk')
    return arrayNew(1, 2, 3)
endfunction
for v in mk():
    n = n + v
endfor
return n
''', None),
    ('function defined where control never reaches', '''
if g:
    function f1(a):
        return a + 1
    endfunction
endif
k = 0
while k < 0:
    function f2():
        return 2
    endfunction
endwhile
x = f1
y = f2
return arrayNew(x == null, y == null)
''', 'g'),
    ('function used before and after its definition statement', '''
a = f1
function f1():
    return 5
endfunction
b = f1()
return arrayNew(a == null, b)
''', None),
    ('function after a top-level return', '''
x = 1
if x:
    return f9
endif
function f9():
    return 1
endfunction
''', None),
    ('call of a function that is never defined', '''
t = arrayNew()
arrayPush(t, 1)
if g:
    function f1():
        return 1
    endfunction
endif
systemLog('before')
return f1()
''', 'g'),
    ('locals and globals', '''
x = 1
y = 2
function f0():
    x = 10
    z = x + y
    return z
endfunction
function f1(y):
    x = y
    return x
endfunction
function f2(a, b, c):
    w = 5
    return arrayNew(a, b, c)
endfunction
r0 = f0()
r1 = f1(7)
r2 = f2(1)
r3 = f2(1, 2, 3, 4, 5)
return arrayNew(x, y, z, w, r0, r1, r2, r3)
''', None),
    ('trailing array parameter', '''
function f1(a, rest...):
    return arrayNew(a, rest)
endfunction
function f2(rest...):
    return rest
endfunction
return arrayNew(f1(), f1(1), f1(1, 2), f1(1, 2, 3, 4), f2(), f2(9, 8))
''', None),
    ('functions as values, recursion', '''
function fact(n):
    if n <= 1:
        return 1
    endif
    return n * fact(n - 1)
endfunction
function apply(f, v):
    return f(v)
endfunction
h = fact
function fib(n):
    return if(n < 2, n, fib(n - 1) + fib(n - 2))
endfunction
return arrayNew(apply(h, 5), apply(fact, 3), fib(7))
''', None),
    ('script function replaces a library function', '''
function arrayCopy(a):
    return 99
endfunction
t = arrayNew()
for v in arrayNew(1, 2):
    arrayPush(t, v)
endfor
return arrayNew(arrayCopy(t), t)
''', None),
    ('a local hides a global function in call position', '''
function total(v):
    return 100
endfunction
function report(total, values):
    return total(values)
endfunction
function shadow():
    total = 5
    return total(1)
endfunction
function viaLocal(f):
    return f(2)
endfunction
return arrayNew(report(10, 1), shadow(), total(1), viaLocal(total), viaLocal(7))
''', None),
    ('a function name bound again with another body', '''
function f(n):
    if n:
        return 'first'
    endif
    return 'first-else'
endfunction
a = f(1)
b = f(0)
function f(n):
    x = 0
    while x < 2:
        x = x + 1
    endwhile
    if n:
        return 'second ' + x
    endif
    return 'second-else ' + x
endfunction
function h():
    for v in arrayNew(1, 2):
        if v == 2:
            return v
        endif
    endfor
endfunction
r = h()
function h():
    return 'plain'
endfunction
return arrayNew(a, b, f(1), f(0), r, h())
''', None),
    ('tabs and blanks in a parameter list', '''
function pick(a,\tb,\t rest...):
    return arrayNew(a, b, rest)
endfunction
function two( x ,y ):
    return x - y
endfunction
return arrayNew(pick(1, 2, 3, 4), two(5, 3))
''', None),
    ('functions without parameters assign locals', '''
x = 1
function f0():
    x = 10
    y = 20
    return x + y
endfunction
r = f0()
return arrayNew(x, y, r)
''', None),
    ('break and continue bind to the innermost loop', '''
t = arrayNew()
for a in arrayNew(1, 2, 3):
    for b in arrayNew(1, 2, 3):
        if b == 2:
            continue
        endif
        if a == 2:
            break
        endif
        arrayPush(t, a * 10 + b)
    endfor
    k = 0
    while true:
        k = k + 1
        if k > a:
            break
        endif
        arrayPush(t, 100 + k)
    endwhile
endfor
return t
''', None),
    ('continue in a for loop followed by break', '''
t = arrayNew()
for v, i in arrayNew(5, 6, 7, 8):
    if v == 6:
        continue
    endif
    if v == 8:
        break
    endif
    arrayPush(t, v)
endfor
return arrayNew(t, v, i)
''', None),
    ('loop inside a function called from a loop', '''
t = arrayNew()
function inner(n):
    s = 0
    for v in arrayNew(1, 2, 3, 4):
        if v > n:
            break
        endif
        s = s + v
    endfor
    return s
endfunction
k = 0
while k < 4:
    k = k + 1
    if k == 2:
        arrayPush(t, 'two')
    elif k == 3:
        arrayPush(t, inner(k))
    else:
        arrayPush(t, inner(1) + k)
    endif
endwhile
return t
''', None),
    ('while with continue', '''
t = arrayNew()
k = 0
while k < 4:
    k = k + 1
    if k == 2:
        continue
    endif
    arrayPush(t, k)
endwhile
return t
''', None),
    ('while: continue as the last iteration', '''
t = arrayNew()
k = 0
while k < 3:
    k = k + 1
    arrayPush(t, k)
    if k == 3:
        continue
    endif
endwhile
return arrayNew(t, k)
''', None),
    ('return inside nested loops of a function', '''
function find(a, x):
    for row, i in a:
        for v, j in row:
            if v == x:
                return arrayNew(i, j)
            endif
        endfor
    endfor
    return null
endfunction
m = arrayNew(arrayNew(1, 2), arrayNew(3, 4), arrayNew())
return arrayNew(find(m, 4), find(m, 9), find(m, 1))
''', None),
    ('logging order', '''
function say(x):
    systemLog('say ' + x)
    return x
endfunction
systemLog('start')
a = say(1) + say(2)
if say(0) || say(3):
    systemLog('then')
endif
b = say(0) && say(4)
systemLog('end ' + a)
return arrayNew(a, b)
''', None),
    ('initial globals are read and written at top level', '''
if g:
    g2 = g
else:
    g2 = 'empty'
endif
g = 'changed'
return g2
''', 'g'),
    ('elif chain runs exactly the first truthy branch', '''
t = arrayNew()
for v in arrayNew(0, 1, 2, 3, 4):
    if v == 1:
        arrayPush(t, 'a')
    elif v > 0:
        arrayPush(t, 'b')
    elif v >= 0:
        arrayPush(t, 'c')
    else:
        arrayPush(t, 'd')
    endif
endfor
return t
''', None),
]

G_VALUES = [('absent', None), ('null', [None]), ('0', [0.0]), ('2', [2.0]), ("''", ['']), ("'ab'", ['ab']), ('[]', [[]]), ('[4, 5]', [[4.0, 5.0]]), ("{}", [{}]), ("{a: 1}", [{'a': 1.0}]),
            ('true', [True]), ('false', [False])]


class Gen:
    """seeded grammar generator of well-formed structured programs (the trace array t is pushed at the start of every body)"""

    def __init__(self, seed, max_depth):
        self.r = random.Random(seed)
        self.max_depth = max_depth
        self.ids = 0
        self.vars = 0
        self.uses_g = False

    def nid(self):
        self.ids += 1
        return self.ids

    def cond(self, nums):
        r = self.r
        c = r.randrange(9)
        if c == 0:
            self.uses_g = True
            return r.choice(['g', '!g'])
        if c == 1:
            return r.choice(['true', 'false', '1', '0', "'x'", "''"])
        if c in (2, 3) and nums:
            v = r.choice(nums)
            return r.choice([f'{v} == {r.randrange(4)}', f'{v} > {r.randrange(3)}', f'{v} % 2', f'!{v}', f'{v} != {r.randrange(4)}'])
        m = r.randrange(2, 5)
        return f'arrayLength(t) % {m} == {r.randrange(m)}'

    def block(self, depth, loop, func, nums, funcs, ind):
        r = self.r
        out = [f'{ind}arrayPush(t, {self.nid()})']
        for _ in range(r.randrange(0, 4 if depth < 2 else 3)):
            out += self.stmt(depth, loop, func, nums, funcs, ind)
        return out

    def body(self, depth, loop, func, nums, funcs, ind):
        if self.r.randrange(8) == 0:
            return [] if self.r.randrange(2) else [f'{ind}# nothing here']
        return self.block(depth, loop, func, nums, funcs, ind)

    def stmt(self, depth, loop, func, nums, funcs, ind):
        r = self.r
        kinds = ['push', 'assign', 'log']
        if depth < self.max_depth:
            kinds += ['if', 'if', 'while', 'for', 'for']
        if loop:
            kinds += ['break', 'continue']
        if loop == 'for':
            kinds += ['continue']
        kinds += ['return'] if r.randrange(3) == 0 else []
        if funcs:
            kinds += ['call']
        k = r.choice(kinds)
        i2 = ind + '    '
        if k == 'push':
            return [f'{ind}arrayPush(t, {self.nid()})']
        if k == 'assign':
            self.vars += 1
            return [f'{ind}x{r.randrange(3)} = {self.nid()}']
        if k == 'log':
            return [f"{ind}systemLog('L{self.nid()} ' + arrayLength(t))"]
        if k == 'break':
            return [f'{ind}if {self.cond(nums)}:', f'{i2}break', f'{ind}endif'] if r.randrange(3) else [f'{ind}break']
        if k == 'continue':
            return [f'{ind}if {self.cond(nums)}:', f'{i2}continue', f'{ind}endif'] if r.randrange(3) else [f'{ind}continue']
        if k == 'return':
            return [f'{ind}if {self.cond(nums)}:', f'{i2}return {self.nid()}', f'{ind}endif'] if r.randrange(3) else [f'{ind}return {self.nid()}']
        if k == 'call':
            f, arity = r.choice(funcs)
            args = ', '.join(str(self.nid()) for _ in range(r.randrange(0, arity + 2)))
            return [f'{ind}arrayPush(t, {f}({args}))']
        if k == 'if':
            out = [f'{ind}if {self.cond(nums)}:'] + self.body(depth + 1, loop, func, nums, funcs, i2)
            for _ in range(r.randrange(0, 3)):
                out += [f'{ind}elif {self.cond(nums)}:'] + self.body(depth + 1, loop, func, nums, funcs, i2)
            if r.randrange(2):
                out += [f'{ind}else:'] + self.body(depth + 1, loop, func, nums, funcs, i2)
            return out + [f'{ind}endif']
        if k == 'while':
            self.vars += 1
            kv = f'k{self.vars}'
            lim = r.randrange(0, 4)
            out = [f'{ind}{kv} = 0', f'{ind}while {kv} < {lim}:', f'{i2}{kv} = {kv} + 1']
            out += self.block(depth + 1, 'while', func, nums + [kv], funcs, i2)
            return out + [f'{ind}endwhile']
        # for
        self.vars += 1
        v, i = f'v{self.vars}', f'i{self.vars}'
        c = r.randrange(6)
        if c == 0:
            self.uses_g = True
            src = 'g'
        elif c == 1:
            src = 'arrayNew()'
        else:
            src = 'arrayNew(' + ', '.join(str(r.randrange(4)) for _ in range(r.randrange(1, 4))) + ')'
        withix = r.randrange(2)
        out = [f'{ind}for {v}, {i} in {src}:' if withix else f'{ind}for {v} in {src}:']
        out += self.body(depth + 1, 'for', func, nums + ([v, i] if withix and src != 'g' else [v] if src != 'g' else []), funcs, i2)
        return out + [f'{ind}endfor']

    def program(self):
        r = self.r
        lines = ['t = arrayNew()']
        funcs = []
        for fi in range(r.randrange(0, 4)):
            arity = r.randrange(0, 3)
            params = [f'p{j}' for j in range(arity)]
            name = f'f{fi}'
            lines.append(f'function {name}({", ".join(params)}):')
            lines += self.block(1, None, name, list(params[:1]), list(funcs), '    ')
            if r.randrange(2):
                lines.append(f'    return {self.nid()}')
            lines.append('endfunction')
            funcs.append((name, arity))
        for _ in range(r.randrange(1, 4)):
            lines += self.stmt(0, None, None, [], funcs, '')
        lines.append('return arrayNew(t, x0, x1)')
        return '\n'.join(lines) + '\n'


def generated(tier):
    n = 400 if tier == 'thorough' else 90
    out = []
    for seed in range(n):
        g = Gen(1000 + seed, 3 + seed % 3)
        text = g.program()
        out.append((f'generated program #{seed}', text, 'g' if g.uses_g else None))
    return out


def all_stmts(stmts):
    for s in stmts:
        yield s
        if s.kind == 'if':
            for _c, body in s.branches:
                yield from all_stmts(body)
        elif s.kind in ('while', 'for', 'function'):
            yield from all_stmts(s.body)


def has_while_continue(prog):
    def walk(stmts, loop):
        for s in stmts:
            if s.kind == 'continue' and loop == 'while':
                return True
            if s.kind == 'if' and any(walk(b, loop) for _c, b in s.branches):
                return True
            if s.kind in ('while', 'for') and walk(s.body, s.kind):
                return True
            if s.kind == 'function' and walk(s.body, None):
                return True
        return False
    return walk(prog, None)


def observe(kind, value, logs, globals_, library):
    g = {k: plain(v) for k, v in globals_.items() if not k.startswith('__bareScript') and not (k in library and is_fn_marker(plain(v)) and k not in ())}
    return kind, value, logs, g


def is_fn_marker(v):
    return v == '<function>'


def compare_runs(ref, sub, library, script_functions, unspecified=()):
    """-> None | message; ref = (kind, value, logs, globals), sub = (kind, value, logs, globals, opts)"""
    if sub[0] == 'host-exception':
        return f'execute_script raises the host exception {sub[1]}'
    if sub[0] == 'parse-error':
        return f'parse_script rejects the program: {sub[1]}'
    if ref[0] != sub[0]:
        return f'the run ends with {sub[0]} {sub[1]!r}; the structured reading ends with {ref[0]} {plain(ref[1])!r}'[:300]
    if ref[0] == 'error':
        pass        # both end with a BareScript runtime error; the wording of the message is not part of the property
    elif ref[0] == 'value' and not equal(plain(ref[1]), sub[1]):
        return f'returns {sub[1]!r}; the structured reading returns {plain(ref[1])!r}'[:300]
    if ref[2] != sub[2] and ref[0] != 'limit':
        return f'logs {sub[2]!r}; the structured reading logs {ref[2]!r}'[:300]
    if ref[0] == 'limit':
        return None
    rg = {k: plain(v) for k, v in ref[3].items()}
    sg = {k: v for k, v in sub[3].items() if not k.startswith('__bareScript') and not (k in library and k not in script_functions)}
    for k in sorted(set(rg) | set(sg)):
        if k in unspecified:
            continue
        if k not in sg:
            if rg[k] is not None:
                return f'the final globals lack {k} (structured reading: {rg[k]!r})'[:300]
        elif k not in rg:
            if sg[k] is not None:
                return f'the final globals bind {k} = {sg[k]!r}; the structured reading never assigns it'[:300]
        elif not equal(rg[k], sg[k]):
            return f'final global {k} = {sg[k]!r}; the structured reading leaves {rg[k]!r}'[:300]
    return None


def run_programs(repo, tier='quick', rule='E9r', programs=None):
    """-> (n runs, problems [(desc, text, init description, message)], known [(desc, message)])"""
    subj = Subject(repo, rule)
    problems, known, n = [], [], 0
    progs = programs if programs is not None else [(d, t, g) for d, t, g in HAND] + generated(tier)
    for desc, text, gname in progs:
        try:
            prog = barefront.parse_program(text)
        except barefront.BareSyntaxError as exc:
            raise Unrecognised(rule, f'the reference front-end rejects the sample program "{desc}": {exc}', None)
        script_functions = {s.name for s in all_stmts(prog) if s.kind == 'function'}
        # the value of a for loop's index variable after the loop is not defined by the structured reading (last index or length): not compared
        unspecified = set()
        for s in all_stmts(prog):
            if s.kind == 'for' and s.extra.get('index'):
                unspecified.add(s.extra.get('index'))
        wc = has_while_continue(prog)
        variants = G_VALUES if gname else [('absent', None)]
        if gname and desc.startswith('generated') and tier != 'thorough':
            k = sum(map(ord, desc)) % len(G_VALUES)
            variants = [G_VALUES[k], G_VALUES[(k + 5) % len(G_VALUES)], G_VALUES[(k + 7) % len(G_VALUES)]]
        for gdesc, gv in variants:
            init = {} if gv is None else {'g': gv[0]}
            try:
                ref = ProgEvaluator(prog, _copy(init), 'retest', library=subj.library).run()
            except NotEvaluable:
                continue
            n += 1
            try:
                sub = subj.run(text, _copy(init))
            except Unrecognised as exc:
                raise Unrecognised(exc.rule or rule, f'program "{desc}" (g {gdesc}): {exc.what}', exc.where)
            msg = compare_runs(ref, sub, subj.library, script_functions, unspecified)
            if msg is None:
                continue
            if wc:
                try:
                    ref2 = ProgEvaluator(prog, _copy(init), 'skip', library=subj.library).run()
                except NotEvaluable:
                    ref2 = None
                if ref2 is not None and compare_runs(ref2, sub, subj.library, script_functions, unspecified) is None:
                    known.append((desc, f'program "{desc}" (g {gdesc}): {msg}; the run equals the reading in which `continue` in a while loop restarts the body without the test'))
                    continue
            problems.append((desc, text, gdesc, msg))
    return n, problems, known


def _copy(v):
    import copy
    return copy.deepcopy(v)


# ------------------------------------------------------------------------------------------------ statement budget (C09)
INCLUDE_FILES = {
    'inc.bare': "systemLog('inc 1')\nfunction incf(x):\n    systemLog('incf ' + x)\n    return x\nendfunction\nsystemLog('inc 2')\n",
    'nested.bare': "systemLog('nested 1')\ninclude 'inc.bare'\nsystemLog('nested 2')\n",
    # two directories with a same-named library file, each reached by a system include of its neighbour
    'x/a.bare': "include <lib.bare>\nsystemLog('a done')\n",
    'y/b.bare': "include <lib.bare>\nsystemLog('b done')\n",
    'x/lib.bare': "systemLog('lib of x')\n",
    'y/lib.bare': "systemLog('lib of y')\n",
    'sys/lib.bare': "systemLog('lib of sys')\n",
}

INCLUDE_WHOLE = [
    ('system includes of one name from two directories, no systemPrefix: each resolves against its own includer', "include 'x/a.bare'\ninclude 'y/b.bare'\n", {},
     ['lib of x', 'a done', 'lib of y', 'b done']),
    ('the same two files included twice (separate statements): every include statement runs its scripts again, each against its own includer',
     "include 'x/a.bare'\nsystemLog('mid')\ninclude 'y/b.bare'\ninclude 'x/a.bare'\n", {}, ['lib of x', 'a done', 'mid', 'lib of y', 'b done', 'lib of x', 'a done']),
    ('with a systemPrefix the system includes of both directories resolve against the prefix', "include 'x/a.bare'\ninclude 'y/b.bare'\n", {'systemPrefix': 'sys/'},
     ['lib of sys', 'a done', 'lib of sys', 'b done']),
]


def run_include_whole(repo, rule='E9r'):
    """execute_script evaluated whole (parse_script, the include branch, url_file_relative, nested runs) on programs whose includes reach same-named files in different
    directories: the log sequence says which file each include statement ran.  -> (n, problems [(desc, message)])"""
    subj = Subject(repo, rule)
    problems, n = [], 0
    for desc, text, options, want in INCLUDE_WHOLE:
        n += 1
        try:
            r = subj.run(text, {}, max_statements=0, options=dict(options))
        except Unrecognised as exc:
            raise Unrecognised(exc.rule or rule, f'include program "{desc}": {exc.what}', exc.where)
        if r[0] != 'value' or r[2] != want:
            problems.append((desc, f'{desc}: the run ends with {r[0]} {r[1]!r} and the log {r[2]!r}; resolution relative to each including file gives the log {want!r}'[:600]))
    return n, problems

BUDGET_EXTRA = [
    ('a single include statement', "include 'inc.bare'\n"),
    ('nested includes and a function defined by the include', "systemLog('a')\ninclude 'nested.bare'\nincf(1)\nsystemLog('z')\n"),
    ('script functions called in loop and branch conditions', '''
function f(n):
    systemLog('f ' + n)
    return n
endfunction
k = 0
while f(k) < 3:
    k = k + 1
    if f(1):
        systemLog('t')
    endif
    systemLog('k ' + k)
endwhile
if f(0) || f(2):
    systemLog('or')
endif
systemLog('end')
'''),
    ('callbacks from library functions', '''
function cmp(a, b):
    systemLog('cmp')
    n = 0
    while n < 2:
        n = n + 1
    endwhile
    return a - b
endfunction
function isTwo(v):
    return v == 2
endfunction
a = arrayNew(3, 1, 2)
systemLog('start')
arraySort(a, cmp)
systemLog('sorted')
i = arrayIndexOf(a, isTwo)
systemLog('index ' + i)
return a
'''),
    ('one include statement with two scripts (consecutive include lines), one of them nested', "systemLog('a')\ninclude 'inc.bare'\ninclude 'nested.bare'\nsystemLog('z')\n"),
    ('arrayIndexOf with a match function', '''
function isTwo(v):
    systemLog('isTwo ' + v)
    return v == 2
endfunction
a = arrayNew(1, 3, 2, 5)
i = arrayIndexOf(a, isTwo)
systemLog('index ' + i)
j = arrayIndexOf(a, isTwo, 3)
systemLog('index ' + j)
'''),
    ('arrayLastIndexOf with a match function', '''
function isOdd(v):
    r = v % 2
    return r == 1
endfunction
a = arrayNew(1, 4, 6, 8)
i = arrayLastIndexOf(a, isOdd)
systemLog('index ' + i)
return i
'''),
    ('arraySort with a compare function', '''
function desc(a, b):
    systemLog('cmp')
    return b - a
endfunction
a = arrayNew(1, 3, 2)
arraySort(a, desc)
systemLog('sorted ' + arrayJoin(a, ','))
'''),
    ('recursion', '''
function down(n):
    systemLog('down ' + n)
    if n > 0:
        return down(n - 1)
    endif
    return 0
endfunction
systemLog('a')
down(3)
systemLog('b')
down(2)
systemLog('c')
'''),
    ('function called in a loop', '''
function work(k):
    x = k * 2
    systemLog('work ' + x)
    return x
endfunction
k = 0
while k < 4:
    k = k + 1
    work(k)
endwhile
systemLog('done')
'''),
    ('function value called through a variable and through systemPartial', '''
function add(a, b):
    systemLog('add')
    return a + b
endfunction
f = add
g2 = systemPartial(add, 1)
systemLog('x ' + f(1, 2))
systemLog('y ' + g2(5))
for v in arrayNew(1, 2, 3):
    systemLog('v ' + g2(v))
endfor
'''),
]

_BX = dict(BUDGET_EXTRA)


def _include_floor(prog, library, depth=0):
    """lower bound of the statements a program with top-level include lines starts: its own statements by the structured reading (a run of consecutive include lines counted
    once - the parser may merge them) plus, per include line, the statements of the included sample file, recursively.  None when the program has no top-level include, has an
    include inside a block, or is not evaluable by the reference (then no verdict is drawn from it)."""
    tops = [s for s in prog if s.kind == 'include']
    if not tops or depth > 4 or len(tops) != len([s for s in all_stmts(prog) if s.kind == 'include']):
        return None
    if any(s.extra.get('system') or s.name not in INCLUDE_FILES for s in tops):
        return None
    try:
        ref = ProgEvaluator(prog, {}, 'retest', library=library)
        if ref.run()[0] != 'value':
            return None
    except NotEvaluable:
        return None
    groups = sum(1 for i, s in enumerate(prog) if s.kind == 'include' and (i == 0 or prog[i - 1].kind != 'include'))
    total = ref.steps - len(tops) + groups
    for s in tops:
        sub_prog = barefront.parse_program(INCLUDE_FILES[s.name])
        if any(x.kind == 'include' for x in sub_prog):
            sub = _include_floor(sub_prog, library, depth + 1)
        else:
            try:
                r2 = ProgEvaluator(sub_prog, {}, 'retest', library=library)
                sub = r2.steps if r2.run()[0] == 'value' else None
            except NotEvaluable:
                sub = None
        if sub is None:
            return None
        total += sub
    return total


def run_budget(repo, tier='quick', rule='E9r'):
    """metamorphic sweep of the statement limit on whole programs.  With N = the statement count of the unlimited run (options['statementCount']):
    limit 0 and every limit >= N give the same return value / logs / globals / count; every limit L < N aborts with the limit error after starting exactly L + 1
    statements, and its logs are a prefix of the unlimited logs; the count of the unlimited run is at least the number of statements the structured reading starts.
    -> (n runs, problems [(desc, message)])"""
    subj = Subject(repo, rule)
    problems, n = [], 0
    progs = [(d, t, None) for d, t in BUDGET_EXTRA] + [(d, t, g) for d, t, g in HAND if 'continue' not in d] + [p for p in generated(tier)[:(60 if tier == 'thorough' else 12)]]
    for desc, text, gname in progs:
        try:
            prog = barefront.parse_program(text)
        except barefront.BareSyntaxError as exc:
            raise Unrecognised(rule, f'the reference front-end rejects the sample program "{desc}": {exc}', None)
        if has_while_continue(prog):
            continue
        init = {'g': [4.0, 5.0]} if gname else {}

        def run(limit):
            try:
                return subj.run(text, _copy(init), max_statements=limit)
            except Unrecognised as exc:
                raise Unrecognised(exc.rule or rule, f'program "{desc}" under the limit {limit}: {exc.what}', exc.where)
        base = run(0)
        n += 1
        if base[0] not in ('value', 'error'):
            problems.append((desc, f'program "{desc}" without a limit ends with {base[0]} {base[1]!r}'))
            continue
        N = base[4].d.get('statementCount') if base[4] is not None else None
        if not isinstance(N, int) or isinstance(N, bool) or N < 0:
            problems.append((desc, f'program "{desc}": options[\'statementCount\'] after the unlimited run is {N!r}, not the number of statements started'))
            continue
        floor = _include_floor(prog, subj.library) if base[0] == 'value' else None
        if floor is not None and N < floor:
            problems.append((desc, f'program "{desc}": the unlimited run reports statementCount = {N}, but the top-level script and the scripts it includes (each evaluated by the '
                                   f'structured reading, consecutive include lines counted as one statement) start {floor} statements: statements of included scripts count'))
            continue
        try:
            ref = ProgEvaluator(prog, _copy(init), 'retest', library=subj.library)
            rr = ref.run()
            if rr[0] == base[0] and N < ref.steps:
                problems.append((desc, f'program "{desc}": the unlimited run reports statementCount = {N}, but the structured reading alone starts {ref.steps} statements '
                                       f'(statements of script functions, however invoked, count)'))
                continue
        except NotEvaluable:
            pass
        full = 120 if tier == 'thorough' else (60 if gname is None and any(text is t for _d, t in BUDGET_EXTRA) else 25)      # the hand-written budget programs: every limit
        limits = sorted(set([1, 2, 3, N // 3, N // 2, N - 2, N - 1, N, N + 1, N + 2] + (list(range(1, N + 3)) if N <= full else [])))
        for L in limits:
            if L < 1:
                continue
            r = run(L)
            n += 1
            cnt = r[4].d.get('statementCount') if r[4] is not None else None
            if L >= N:
                if r[0] != base[0] or not equal(r[1], base[1]) or r[2] != base[2] or not equal(r[3], base[3]) or cnt != N:
                    problems.append((desc, f'program "{desc}" completes after {N} statements without a limit, but under the limit {L} it ends with {r[0]} {r[1]!r}, logs {r[2]!r}, '
                                           f'count {cnt} (unlimited: {base[0]} {base[1]!r}, logs {base[2]!r})'[:500]))
                    break
            else:
                if r[0] != 'limit':
                    problems.append((desc, f'program "{desc}" starts {N} statements without a limit, but under the limit {L} it is not aborted: ends with {r[0]} {r[1]!r}, count {cnt}'[:400]))
                    break
                if r[2] != base[2][:len(r[2])]:
                    problems.append((desc, f'program "{desc}" under the limit {L}: logs {r[2]!r} are not a prefix of the unlimited logs {base[2]!r}'[:400]))
                    break
                if cnt not in (L, L + 1):
                    # whether the counter already includes the statement that was refused is not stated by the property: L and L + 1 are both "aborted when statement L + 1 would start"
                    problems.append((desc, f'program "{desc}" under the limit {L}: aborted with statementCount = {cnt}; the abort happens exactly when statement {L + 1} would start'))
                    break
    # one options object reused for several runs: each run starts its own count, whatever way the previous run ended (completed, runtime error, limit abort)
    first = [('a run that completes', _BX['function called in a loop'], 0), ('a run that ends with a runtime error', "x = 1\nsystemLog('a')\nfunction f(n):\n    return nope(n)\nendfunction\nf(1)\n", 0),
             ('a run that ends with a runtime error inside nested calls', "function a(n):\n    return b(n)\nendfunction\nfunction b(n):\n    return missing(n)\nendfunction\na(1)\n", 0),
             ('a run aborted by the limit', _BX['recursion'], 7)]
    for fdesc, ftext, flimit in first:
        for desc, text in (('function called in a loop', _BX['function called in a loop']), ('recursion', _BX['recursion'])):
            fresh = subj.run(text, {}, max_statements=0)
            r1 = subj.run(ftext, {}, max_statements=flimit)
            r2 = subj.run(text, {}, max_statements=0, reuse=r1[4])
            n += 3
            c_fresh = fresh[4].d.get('statementCount')
            c2 = r2[4].d.get('statementCount')
            if r2[0] != fresh[0] or not equal(r2[1], fresh[1]) or r2[2] != fresh[2] or c2 != c_fresh:
                problems.append((f'reuse after {fdesc}', f'options object reused after {fdesc}: the program "{desc}" ends with {r2[0]} {r2[1]!r}, logs {r2[2]!r}, statementCount {c2}; '
                                                         f'with fresh options it ends with {fresh[0]} {fresh[1]!r}, logs {fresh[2]!r}, statementCount {c_fresh}'[:600]))
                continue
            # and under a limit that the second program alone respects
            r3 = subj.run(ftext, {}, max_statements=flimit)
            r4 = subj.run(text, {}, max_statements=c_fresh, reuse=r3[4])
            n += 2
            if r4[0] != fresh[0] or r4[2] != fresh[2]:
                problems.append((f'reuse after {fdesc}', f'options object reused after {fdesc}: the program "{desc}" starts {c_fresh} statements, but under the limit {c_fresh} it ends with '
                                                         f'{r4[0]} {r4[1]!r} (count {r4[4].d.get("statementCount")})'[:600]))
    return n, problems


# ------------------------------------------------------------------------------------------------ hand-built jump-level models (C08)
class ModelRef:
    """the documented statement semantics on schema models: statements in order; a jump whose optional condition is truthy continues after the FIRST label of that name in the
    SAME statement list, else "Unknown jump label"; return ends the list's invocation; a function statement binds a global function (again, when executed again / under the same
    name); expressions: number, string, variable, binary + - * == < and calls of script functions, systemLog, arrayNew, arrayPush"""

    def __init__(self, model):
        self.model = model
        self.globals = {}
        self.logs = []
        self.count = 0

    def ev(self, e, local):
        (k, v), = e.items()
        if k == 'number':
            return float(v)
        if k == 'string':
            return v
        if k == 'variable':
            if v in ('null', 'true', 'false'):
                return {'null': None, 'true': True, 'false': False}[v]
            if local is not None and v in local:
                return local[v]
            return self.globals.get(v)
        if k == 'group':
            return self.ev(v, local)
        if k == 'unary':
            x = self.ev(v['expr'], local)
            return (not truthy(x)) if v['op'] == '!' else (-x if isinstance(x, float) else None)
        if k == 'binary':
            l, r = self.ev(v['left'], local), self.ev(v['right'], local)
            op = v['op']
            if op == '+' and (isinstance(l, str) or isinstance(r, str)):
                return vstr(l) + vstr(r)
            if isinstance(l, float) and isinstance(r, float):
                return {'+': l + r, '-': l - r, '*': l * r, '==': l == r, '<': l < r, '>': l > r}[op]
            raise NotEvaluable(f'operator {op}')
        if k == 'function':
            name = v['name']
            args = [self.ev(a, local) for a in v.get('args', [])]
            f = local.get(name) if local is not None and name in local else self.globals.get(name)
            if isinstance(f, dict):
                params = f.get('args') or []
                loc = {p: (args[i] if i < len(args) else None) for i, p in enumerate(params)}
                return self.run_list(f['statements'], loc)
            if name == 'systemLog':
                self.logs.append(vstr(args[0] if args else None))
                return None
            if name == 'arrayNew':
                return list(args)
            if name == 'arrayPush':
                args[0].extend(args[1:])
                return args[0]
            raise NotEvaluable(f'call {name}')
        raise NotEvaluable(k)

    def run_list(self, stmts, local):
        ix = 0
        while ix < len(stmts):
            self.count += 1
            if self.count > 2000:
                raise BareRuntimeError('statement limit')
            (k, v), = stmts[ix].items()
            if k == 'expr':
                val = self.ev(v['expr'], local)
                if 'name' in v:
                    (local if local is not None else self.globals)[v['name']] = val
            elif k == 'jump':
                if 'expr' not in v or truthy(self.ev(v['expr'], local)):
                    tgt = next((i for i, s in enumerate(stmts) if s.get('label') == v['label']), None)
                    if tgt is None:
                        raise BareRuntimeError(f'Unknown jump label "{v["label"]}"')
                    ix = tgt
            elif k == 'return':
                return self.ev(v['expr'], local) if 'expr' in v else None
            elif k == 'function':
                self.globals[v['name']] = v
            elif k != 'label':
                raise NotEvaluable(k)
            ix += 1
        return None

    def run(self):
        try:
            return ('value', self.run_list(self.model['statements'], None), self.logs, self.count)
        except BareRuntimeError as exc:
            return ('error', str(exc), self.logs, self.count)


def _L(text):
    return {'expr': {'expr': {'function': {'name': 'systemLog', 'args': [{'string': text}]}}}}


def _C(name, target=None, *args):
    d = {'expr': {'function': {'name': name, 'args': [{'number': a} if isinstance(a, (int, float)) else a for a in args]}}}
    if target:
        d['name'] = target
    return {'expr': d}


def _F(name, stmts, args=None):
    d = {'name': name, 'statements': stmts}
    if args:
        d['args'] = args
    return {'function': d}


V = lambda n: {'variable': n}
N = lambda x: {'number': x}
J = lambda label, expr=None: {'jump': dict({'label': label}, **({'expr': expr} if expr is not None else {}))}
LB = lambda name: {'label': name}
RET = lambda e=None: {'return': ({'expr': e} if e is not None else {})}

JUMP_MODELS = {
    'a function name bound again: the later body has its label one statement earlier': {'statements': [
        _F('f', [J('L'), _L('f1: skipped'), LB('L'), _L('f1: after L'), RET(N(1))]), _C('f', 'r1'),
        _F('f', [J('L'), LB('L'), _L('f2: after L'), RET(N(2))]), _C('f', 'r2'),
        RET({'binary': {'op': '+', 'left': {'binary': {'op': '*', 'left': V('r1'), 'right': N(10)}}, 'right': V('r2')}})]},
    'a function name bound again: the later body lacks the label': {'statements': [
        _F('f', [J('L'), LB('L'), _L('f1'), RET(N(1))]), _C('f', 'r1'),
        _F('f', [J('L'), _L('f2: not reached'), RET(N(2))]), _C('f', 'r2'), RET(V('r2'))]},
    'two functions with the same label names, called alternately, and the same labels at top level': {'statements': [
        _F('a', [J('skip', V('p')), _L('a: not skipped'), LB('skip'), LB('end'), RET(N(1))], ['p']),
        _F('b', [LB('end'), J('skip'), _L('b: not reached'), LB('skip'), RET(N(2))]),
        _C('a', None, 1), _C('b'), _C('a', None, 0), _C('b'), J('skip'), _L('top: not reached'), LB('skip'), _C('a', None, 1), LB('end'), RET(N(3))]},
    'a loop over a label inside a function called from a loop over the same label name': {'statements': [
        _F('inner', [{'expr': {'name': 'k', 'expr': N(0)}}, LB('loop'), {'expr': {'name': 'k', 'expr': {'binary': {'op': '+', 'left': V('k'), 'right': N(1)}}}},
                     J('loop', {'binary': {'op': '<', 'left': V('k'), 'right': V('n')}}), RET(V('k'))], ['n']),
        {'expr': {'name': 'i', 'expr': N(0)}}, {'expr': {'name': 't', 'expr': {'function': {'name': 'arrayNew'}}}}, LB('loop'),
        {'expr': {'name': 'i', 'expr': {'binary': {'op': '+', 'left': V('i'), 'right': N(1)}}}},
        {'expr': {'expr': {'function': {'name': 'arrayPush', 'args': [V('t'), {'function': {'name': 'inner', 'args': [V('i')]}}]}}}},
        J('loop', {'binary': {'op': '<', 'left': V('i'), 'right': N(3)}}), RET(V('t'))]},
    'duplicate labels: the first is skipped by a forward jump, the second passed by fall-through before any jump to the name': {'statements': [
        {'expr': {'name': 'i', 'expr': N(0)}}, J('b'), LB('a'), _L('after the first a'), LB('b'), LB('a'), {'expr': {'name': 'i', 'expr': {'binary': {'op': '+', 'left': V('i'), 'right': N(1)}}}},
        J('a', {'binary': {'op': '<', 'left': V('i'), 'right': N(3)}}), RET(V('i'))]},
    'duplicate labels inside a function, jumped to backwards and forwards': {'statements': [
        _F('f', [{'expr': {'name': 'k', 'expr': N(0)}}, J('x'), _L('skipped'), LB('x'), _L('first x'), {'expr': {'name': 'k', 'expr': {'binary': {'op': '+', 'left': V('k'), 'right': N(1)}}}},
                 J('y', {'binary': {'op': '>', 'left': V('k'), 'right': N(1)}}), LB('x'), _L('second x'), J('x'), LB('y'), RET(V('k'))]),
        _C('f', 'r'), RET(V('r'))]},
    'a jump out of a function body to a label of the caller': {'statements': [
        _F('f', [J('outer'), RET(N(1))]), LB('outer'), _L('top'), _C('f', 'r'), RET(V('r'))]},
}


def run_models(repo, rule='E9r'):
    """execute_script evaluated on hand-built jump-level models (twice each: the model must be unchanged and the second run identical) -> (n, problems [(desc, message)])"""
    subj = Subject(repo, rule)
    problems, n = [], 0
    for desc, model in JUMP_MODELS.items():
        ref = ModelRef(_copy(model)).run()
        prev = None
        am = to_abs(_copy(model))
        for attempt in (1, 2):
            n += 1
            subj.models['\0model'] = ('model', am)
            try:
                sub = subj.run('\0model', {}, max_statements=3000)
            except Unrecognised as exc:
                raise Unrecognised(exc.rule or rule, f'model "{desc}": {exc.what}', exc.where)
            cnt = sub[4].d.get('statementCount') if sub[4] is not None else None
            got = (sub[0], sub[1], sub[2], cnt)
            if sub[0] == 'host-exception':
                problems.append((desc, f'model "{desc}": execute_script raises the host exception {sub[1]}'))
                break
            ok = got[0] == ref[0] and got[2] == ref[2] and got[3] == ref[3] and (equal(plain(ref[1]), got[1]) if ref[0] == 'value' else (isinstance(got[1], str) and ref[1] in got[1]))
            if not ok:
                problems.append((desc, f'model "{desc}" (run {attempt}): ends with {got[0]} {got[1]!r}, logs {got[2]!r}, {got[3]} statements; the documented statement semantics give '
                                       f'{ref[0]} {plain(ref[1])!r}, logs {ref[2]!r}, {ref[3]} statements'[:700]))
                break
            if not equal(plain(am), model):
                problems.append((desc, f'model "{desc}": execution modified the model'))
                break
            prev = got
    return n, problems
