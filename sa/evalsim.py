"""E6e: abstract interpretation of runtime.evaluate_expression over expression models with opaque host functions.

Expression models are small concrete trees (variable / function / binary && || / unary ! / group) whose leaves are
variables bound - in abstract locals / globals / built-in tables - to opaque values or opaque host functions.  Calling an
opaque host function is an oracle: it records (function, argument list object, options object) and either returns an opaque
result carrying a fixed truth value or raises one of the exception classes of the scenario.  `value_boolean` of an opaque
value is its truth tag; its host truthiness is undefined (using it is reported).  Everything else - the dispatch on the
expression kind, the lookup chain, laziness of `if` / && / ||, the try/except wrapper around the call, logging under the
debug flag - is evaluated exactly by absint.Interp.
"""
import ast

from .core import Unrecognised, norm
from .absint import Interp, Sym, ADict, AList, RaiseSig, ReturnSig, reify
from .stepsim import HostTruth


class EvalInterp(Interp):
    def __init__(self, repo, mod, rule='E6e'):
        super().__init__(mod, rule)
        self.repo = repo
        self.max_depth = 40
        self.events = []
        self.behaviour = {}      # host function tag -> 'ok' | 'va' | 'err' | 'rt' | 'pe'
        self.truths = {}         # tag -> truth of its result
        self.oracles['value_boolean'] = self._boolean
        self.oracles['value_compare'] = self._compare
        self.builtin_table = ADict({})
        self.cmp_result = 0
        self.cmp_operands = None

    def _compare(self, args, node):
        self.events.append(('compare', tuple(args)))
        if getattr(self, 'concrete_rank', None) is not None:
            from .libsim import ref_value_compare
            return ref_value_compare(reify(args[0]), reify(args[1]), self.concrete_rank)
        if all(isinstance(a, (int, float)) and not isinstance(a, bool) for a in args[:2]):
            return (args[0] > args[1]) - (args[0] < args[1])
        if getattr(self, 'free_compare', False):
            return 0
        if self.cmp_operands is None:
            raise Unrecognised(self.rule, 'value_compare called in a scenario without operands', self.mod.rel)
        L, R = self.cmp_operands
        if list(args) == [L, R]:
            return self.cmp_result
        if list(args) == [R, L]:
            return -self.cmp_result
        raise Unrecognised(self.rule, f'value_compare called with {args!r}', self.mod.rel)

    def builtin_hook(self, name, args, e):
        if name == 'isinstance' and args and isinstance(args[0], Sym) and args[0].kind in ('val', 'result') and len(args[0].args) > 2:
            from .atoms import CLASS_NAMES, INSTANCE_OF
            atom = args[0].args[2]
            classes = self.class_names(e.args[1], args[1] if len(args) > 1 else None)
            for c in classes:
                if c == 'object':
                    return True
                if c not in CLASS_NAMES:
                    raise Unrecognised(self.rule, f'isinstance class {c}', self.mod.rel)
                if CLASS_NAMES[c] in INSTANCE_OF[atom]:
                    return True
            return False
        if name == 'type' and len(args) == 1 and isinstance(args[0], Sym) and args[0].kind in ('val', 'result') and len(args[0].args) > 2:
            return ('typeof', args[0].args[2])
        if name == 'isinstance' and args and isinstance(args[0], Sym) and args[0].kind == 'hostfn':
            # the scenario's host functions are plain host callables: instances of no value class and of no functools.partial
            classes = self.class_names(e.args[1], args[1] if len(args) > 1 else None)
            if all(c in ('functools.partial', 'partial', 'str', 'int', 'float', 'bool', 'list', 'dict', 'tuple', 'datetime.date', 'datetime.datetime', 'REGEX_TYPE', 're.Pattern') for c in classes):
                return False
        return super().builtin_hook(name, args, e)

    def _boolean(self, args, node):
        v = args[0]
        if isinstance(v, (int, float)) and not isinstance(v, bool):
            return v != 0
        if isinstance(v, Sym) and v.kind in ('result', 'val'):
            return bool(v.args[1]) if len(v.args) > 1 else True
        if v is None or v is False:
            return False
        if v is True:
            return True
        if isinstance(v, str):
            return v != ''
        if isinstance(v, AList):
            return len(v.l) != 0
        if isinstance(v, ADict):
            return True
        raise Unrecognised(self.rule, f'value_boolean of {v!r}', self.mod.rel)

    def truth(self, v, node=None):
        if isinstance(v, Sym) and v.kind in ('result', 'val', 'rv'):
            raise HostTruth(node)
        if isinstance(v, Sym) and v.kind == 'hostfn':
            return True
        return super().truth(v, node)

    def eval(self, e, env):
        if isinstance(e, ast.Name) and e.id == 'EXPRESSION_FUNCTIONS' and e.id not in env:
            return self.builtin_table
        return super().eval(e, env)

    def call_value_hook(self, fn, args, e):
        if isinstance(fn, Sym) and fn.kind == 'hostfn':
            tag = fn.args[0]
            if tag == 'log':
                self.events.append(('log', args[0] if args else None))
                return None
            arglist = args[0] if args else None
            self.events.append(('call', tag, tuple(arglist.l) if isinstance(arglist, AList) else repr(arglist), arglist,
                                'same-options' if (len(args) > 1 and args[1] is self.options) else 'other-options'))
            b = self.behaviour.get(tag, 'ok')
            if b == 'ok':
                return Sym('result', tag, self.truths.get(tag, True), 'float')
            cls = {'va': 'ValueArgsError', 'err': 'TypeError', 'rt': 'BareScriptRuntimeError', 'pe': 'BareScriptParserError'}[b]
            raise RaiseSig(cls, (Sym('message', tag),), e)
        return super().call_value_hook(fn, args, e)

    def method_hook(self, base, m, args, e):
        return super().method_hook(base, m, args, e)

    def evaluate(self, func, expr, locals_, globals_, builtins, debug='on'):
        """-> ('value', v) | ('raise', cls) ; self.events filled"""
        self.events = []
        self.depth = 0
        opts = {'statementCount': 0}
        if globals_ is not None:
            opts['globals'] = globals_
        if debug in ('on', 'off'):
            opts['logFn'] = Sym('hostfn', 'log')
            opts['debug'] = debug == 'on'
        elif debug == 'nolog':
            opts['debug'] = True
        self.options = ADict(opts)
        params = [a.arg for a in func.args.args]
        args = [expr, self.options, locals_, builtins][:len(params)]
        try:
            v = self.call_function(func, args, func)
        except RaiseSig as sig:
            return ('raise', sig.cls)
        return ('value', v)


def build(model):
    def conv(v):
        if isinstance(v, dict):
            return ADict({k: conv(x) for k, x in v.items()})
        if isinstance(v, (list, tuple)):
            return AList([conv(x) for x in v])
        return v
    return conv(model)


# ------------------------------------------------------------------------------------------------ reference semantics
class RefRaise(Exception):
    def __init__(self, cls):
        self.cls = cls


def reference(expr, locals_, globals_, builtin_names, builtins, behaviour, truths, debug):
    """documented semantics over the same abstraction -> (('value', v) | ('raise', cls), events)"""
    events = []

    def truth(v):
        if isinstance(v, Sym) and v.kind in ('result', 'val'):
            return bool(v.args[1]) if len(v.args) > 1 else True
        return bool(v)

    def ev(e):
        (k, v), = e.items()
        if k in ('number', 'string'):
            return v
        if k == 'variable':
            if v == 'null':
                return None
            if v == 'false':
                return False
            if v == 'true':
                return True
            if locals_ is not None and v in locals_:
                return locals_[v]
            if globals_ is not None and v in globals_:
                return globals_[v]
            return None
        if k == 'group':
            return ev(v)
        if k == 'unary':
            val = ev(v['expr'])
            if v['op'] == '!':
                return not truth(val)
            raise NotImplementedError
        if k == 'binary':
            left = ev(v['left'])
            if v['op'] == '&&':
                return left if not truth(left) else ev(v['right'])
            if v['op'] == '||':
                return left if truth(left) else ev(v['right'])
            raise NotImplementedError
        if k == 'function':
            name = v['name']
            args = v.get('args', [])
            if name == 'if':
                c = ev(args[0]) if len(args) >= 1 else False
                pick = (args[1] if len(args) >= 2 else None) if truth(c) else (args[2] if len(args) >= 3 else None)
                return ev(pick) if pick is not None else None
            vals = [ev(a) for a in args]
            if locals_ is not None and name in locals_:
                fv = locals_[name]
            elif globals_ is not None and name in globals_:
                fv = globals_[name]
            else:
                fv = builtin_names.get(name) if builtins else None
            if fv is None:
                raise RefRaise('BareScriptRuntimeError')
            tag = fv.args[0]
            events.append(('call', tag, tuple(vals)))
            b = behaviour.get(tag, 'ok')
            if b == 'ok':
                return Sym('result', tag, truths.get(tag, True), 'float')
            if b == 'rt':
                raise RefRaise('BareScriptRuntimeError')
            if debug == 'on':
                events.append(('log',))
            if b == 'va':
                return Sym('excattr', 'ValueArgsError', 'return_value')
            return None
        raise NotImplementedError(k)
    try:
        return ('value', ev(expr)), events
    except RefRaise as r:
        return ('raise', r.cls), events


def show(e):
    (k, v), = e.items()
    if k == 'variable':
        return v
    if k == 'number':
        return repr(v)
    if k == 'string':
        return repr(v)
    if k == 'group':
        return f'({show(v)})'
    if k == 'unary':
        return f'{v["op"]}{show(v["expr"])}'
    if k == 'binary':
        return f'{show(v["left"])} {v["op"]} {show(v["right"])}'
    if k == 'function':
        return f'{v["name"]}(' + ', '.join(show(a) for a in v.get('args', [])) + ')'
    return '?'


# ------------------------------------------------------------------------------------------------ scenarios
def V(name):
    return {'variable': name}


def F(name, *args, noargs=False):
    f = {'name': name}
    if not noargs:
        f['args'] = list(args)
    return {'function': f}


def scenarios():
    """(category, description, expr, locals, globals, builtin table, builtins flag, behaviour, truths, debug)"""
    Lx, Gx = Sym('val', 'local-x', True), Sym('val', 'global-x', True)
    out = []
    # A: variable lookup
    for name in ('x', 'null', 'true', 'false'):
        for ldesc, loc in (('no locals', None), ('empty locals', {}), ('x local', {'x': Lx}), ('x local = null', {'x': None}), ('keyword names bound locally', {'null': Lx, 'true': Lx, 'false': Lx})):
            for gdesc, glob in (('no globals object', None), ('empty globals', {}), ('x global', {'x': Gx, 'null': Gx})):
                out.append(('lookup', f'variable `{name}` with {ldesc}, {gdesc}', V(name), loc, glob, {}, True, {}, {}, 'on'))
    # B: function lookup
    fl, fg, fb = Sym('hostfn', 'local-f'), Sym('hostfn', 'global-f'), Sym('hostfn', 'builtin-f')
    for ldesc, loc in (('no locals', None), ('empty locals', {}), ('f local', {'f': fl}), ('f local = null', {'f': None})):
        for gdesc, glob in (('no globals object', None), ('empty globals', {}), ('f global', {'f': fg})):
            for bdesc, bt in (('f not built in', {}), ('f built in', {'f': fb})):
                for flag in (True, False):
                    out.append(('lookup', f'call f() with {ldesc}, {gdesc}, {bdesc}, builtins={flag}', F('f'), loc, glob, bt, flag, {}, {}, 'on'))
    # C: arguments
    g, h, f = Sym('hostfn', 'g'), Sym('hostfn', 'h'), Sym('hostfn', 'f')
    G = {'f': f, 'g': g, 'h': h, 'x': Gx}
    out.append(('args', 'f(g(), x, h()): arguments evaluated left to right, then the call', F('f', F('g'), V('x'), F('h')), None, G, {}, True, {}, {}, 'on'))
    out.append(('args', 'f() whose model has no args member', F('f', noargs=True), None, G, {}, True, {}, {}, 'on'))
    out.append(('args', 'u(g(), h()) where u is not defined: the arguments are evaluated (left to right) before the call fails', F('u', F('g'), F('h')), None, G, {}, True, {}, {}, 'on'))
    out.append(('args', 'u(g(), h()) where u is not defined and built-ins are disabled', F('u', F('g'), F('h')), {'g': g}, G, {}, False, {}, {}, 'on'))
    out.append(('args', 'f(f(), f())', F('f', F('f'), F('f')), None, G, {}, True, {}, {}, 'on'))
    out.append(('args', 'f((x), !g())', F('f', {'group': V('x')}, {'unary': {'op': '!', 'expr': F('g')}}), None, G, {}, True, {}, {'g': False}, 'on'))
    # D: laziness
    for tc in (True, False):
        tr = {'g': tc}
        out.append(('lazy-if', f'if(g(), f(), h()) with g() {"truthy" if tc else "falsy"}', F('if', F('g'), F('f'), F('h')), None, G, {}, True, {}, tr, 'on'))
        out.append(('lazy-if', f'if(g(), f()) with g() {"truthy" if tc else "falsy"}', F('if', F('g'), F('f')), None, G, {}, True, {}, tr, 'on'))
        out.append(('lazy-if', f'if(g()) with g() {"truthy" if tc else "falsy"}', F('if', F('g')), None, G, {}, True, {}, tr, 'on'))
        out.append(('lazy', f'g() && f() with g() {"truthy" if tc else "falsy"}', {'binary': {'op': '&&', 'left': F('g'), 'right': F('f')}}, None, G, {}, True, {}, tr, 'on'))
        out.append(('lazy', f'g() || f() with g() {"truthy" if tc else "falsy"}', {'binary': {'op': '||', 'left': F('g'), 'right': F('f')}}, None, G, {}, True, {}, tr, 'on'))
        out.append(('lazy', f'g() && f() || h() with g() {"truthy" if tc else "falsy"}, f() falsy',
                    {'binary': {'op': '||', 'left': {'binary': {'op': '&&', 'left': F('g'), 'right': F('f')}}, 'right': F('h')}}, None, G, {}, True, {}, {'g': tc, 'f': False}, 'on'))
    out.append(('lazy-if', 'if() without arguments', F('if', noargs=True), None, G, {}, True, {}, {}, 'on'))
    out.append(('lazy-if', 'a user function named `if` does not replace the lazy built-in', F('if', F('g'), F('f'), F('h')), None, dict(G, **{'if': Sym('hostfn', 'user-if')}), {}, True, {}, {'g': False}, 'on'))
    # R: relational operators are the sign tests of value_compare
    for op in ('==', '!=', '<', '<=', '>', '>='):
        for c in (-1, 0, 1):
            for a1, a2 in (('str', 'str'), ('int', 'float'), ('None', 'dict')):
                Lv, Rv = Sym('val', 'L', True, a1), Sym('val', 'R', True, a2)
                out.append(('relational', f'l {op} r with l: {a1}, r: {a2}, value_compare(l, r) = {c}', {'binary': {'op': op, 'left': V('l'), 'right': V('r')}},
                            None, {'l': Lv, 'r': Rv}, {}, True, {'__cmp__': c}, {}, 'on'))
    # O: both operands of every binary operator are evaluated exactly once, left before right - also when the left value already decides the result (null, wrong type)
    for op in ('+', '-', '*', '/', '%', '**', '==', '!=', '<', '<=', '>', '>='):
        for ldesc, lexpr in (('null', V('null')), ('a string', {'string': 's'}), ('the result of g()', F('g')), ('true', V('true'))):
            out.append(('once', f'{show(lexpr)} {op} f()  (left operand is {ldesc})', {'binary': {'op': op, 'left': lexpr, 'right': F('f')}}, None, G, {}, True, {'__cmp__': 0}, {}, 'on'))
    out.append(('once', 'f() + g() * h()', {'binary': {'op': '+', 'left': F('f'), 'right': {'binary': {'op': '*', 'left': F('g'), 'right': F('h')}}}}, None, G, {}, True, {'__cmp__': 0}, {}, 'on'))
    # E: the call wrapper
    for b, bdesc in (('ok', 'returns'), ('va', 'raises ValueArgsError'), ('err', 'raises TypeError'), ('rt', 'raises BareScriptRuntimeError'), ('pe', 'raises BareScriptParserError')):
        for debug in ('on', 'off', 'nolog', 'noopts-globals'):
            out.append(('wrapper-rt' if b == 'rt' else 'wrapper', f'f() where the host function {bdesc}; debug/logFn: {debug}', F('f'), {'f': f} if debug == 'noopts-globals' else None, G, {}, True, {'f': b}, {}, debug))
        out.append(('wrapper-rt' if b == 'rt' else 'wrapper', f'h(f()) where f {bdesc}', F('h', F('f')), None, G, {}, True, {'f': b}, {}, 'on'))
    return out


def run_all(repo, rule='E6e'):
    """-> (n_runs, {category: [(description, message, node)]})"""
    mod = repo.module('runtime')
    func = mod.funcs.get('evaluate_expression')
    if func is None:
        raise Unrecognised(rule, 'evaluate_expression not found', mod.rel)
    it = EvalInterp(repo, mod, rule)
    problems = {}
    n = 0
    seen_arglists = []
    for cat, desc, expr, loc, glob, bt, flag, behaviour, truths, debug in scenarios():
        n += 1
        it.behaviour, it.truths = behaviour, truths
        it.builtin_table = build(bt)
        it.cmp_operands = None
        if cat == 'relational':
            it.cmp_result = behaviour['__cmp__']
            it.cmp_operands = (glob['l'], glob['r'])
        it.free_compare = cat == 'once'
        a_expr = build(expr)
        a_loc = build(loc) if loc is not None else None
        a_glob = build(glob) if glob is not None else None
        if cat == 'once':
            def calls(e):
                (k, v), = e.items()
                if k == 'function':
                    return [c for a in v.get('args', []) for c in calls(a)] + [v['name']]
                if k == 'binary':
                    return calls(v['left']) + calls(v['right'])
                return []
            try:
                got = it.evaluate(func, a_expr, a_loc, a_glob, flag, debug)
            except HostTruth:
                got = None
            except Unrecognised as exc:
                problems.setdefault('once-undecided', []).append((desc, str(exc)[:120], None))
                continue
            seq = [e[1] for e in it.events if e[0] == 'call']
            if seq != calls(expr):
                problems.setdefault(cat, []).append((desc, f'calls {seq}; every operand is evaluated exactly once, left to right: {calls(expr)}', None))
            continue
        if cat == 'relational':
            c = behaviour['__cmp__']
            op = expr['binary']['op']
            want, wev = ('value', {'==': c == 0, '!=': c != 0, '<': c < 0, '<=': c <= 0, '>': c > 0, '>=': c >= 0}[op]), None
        else:
            want, wev = reference(expr, loc, glob, bt, flag, behaviour, truths, 'on' if debug == 'on' else 'off')
        try:
            got = it.evaluate(func, a_expr, a_loc, a_glob, flag, 'nolog' if debug == 'noopts-globals' else debug)
        except HostTruth as ht:
            problems.setdefault('truth', []).append((desc, 'the host truthiness of an evaluated value decides the result (instead of value_boolean): ' + (norm(ht.node)[:70] if ht.node is not None else ''), ht.node))
            continue
        if cat == 'relational':
            ncmp = sum(1 for e in it.events if e[0] == 'compare')
            if got != want:
                problems.setdefault(cat, []).append((desc, f'evaluates to {_fmt(got)}; the sign test of the value comparison gives {_fmt(want)}', None))
            elif ncmp != 1:
                problems.setdefault(cat, []).append((desc, f'calls value_compare {ncmp} times (the result must be the sign test of one comparison)', None))
            continue
        gev = [(e[0], e[1], e[2]) if e[0] == 'call' else ('log',) for e in it.events]
        gv = got
        if got[0] == 'value' and isinstance(got[1], (ADict, AList)):
            gv = ('value', reify(got[1]))
        if gv != want:
            problems.setdefault(cat, []).append((desc, f'evaluates to {_fmt(gv)}; the documented semantics give {_fmt(want)}', None))
            continue
        if gev != wev:
            problems.setdefault(cat if cat != 'lookup' else 'lookup', []).append((desc, f'performs {_fmt_ev(gev)}; the documented semantics give {_fmt_ev(wev)}', None))
            continue
        for e in it.events:
            if e[0] == 'call':
                if not isinstance(e[3], AList):
                    problems.setdefault('args', []).append((desc, f'the host function {e[1]} receives {e[2]} as its argument list (must be a list built for the call, never None)', None))
                elif any(e[3] is x for x in seen_arglists) or _in_model(e[3], a_expr):
                    problems.setdefault('args', []).append((desc, f'the argument list handed to {e[1]} is shared with the model or with an earlier call', None))
                else:
                    seen_arglists.append(e[3])
                if e[4] != 'same-options':
                    problems.setdefault('args', []).append((desc, f'the host function {e[1]} is called with another options object than the one the evaluation runs under', None))
    return n, problems


def _in_model(lst, node):
    if node is lst:
        return True
    if isinstance(node, ADict):
        return any(_in_model(lst, v) for v in node.d.values())
    if isinstance(node, AList):
        return any(_in_model(lst, v) for v in node.l)
    return False


def _fmt(o):
    if o[0] == 'raise':
        return f'raise {o[1]}'
    return repr(o[1])


def _fmt_ev(ev):
    return '[' + ', '.join(f'call {e[1]}{list(e[2])!r}' if e[0] == 'call' else 'log' for e in ev) + ']'


def operator_coverage(repo, ops, rule='E6e'):
    """{op: result of evaluating `6 op 3` on two number literals} - the operators the evaluator actually implements for numbers"""
    mod = repo.module('runtime')
    func = mod.funcs.get('evaluate_expression')
    it = EvalInterp(repo, mod, rule)
    out = {}
    for op in ops:
        it.behaviour, it.truths = {}, {}
        it.cmp_operands = None
        it.free_compare = False
        expr = {'binary': {'op': op, 'left': {'number': 6.0}, 'right': {'number': 3.0}}}
        try:
            got = it.evaluate(func, build(expr), None, ADict({}), True, 'off')
        except (Unrecognised, HostTruth) as exc:
            got = ('undecided', str(exc)[:80])
        out[op] = got
    return out


def arithmetic_spelling(repo, rule='E6e'):
    """every binary operator on pairs of small integral numbers, each operand spelled as host int and as float: the four results must be equal
    -> (n evaluations, problems)"""
    mod = repo.module('runtime')
    func = mod.funcs.get('evaluate_expression')
    it = EvalInterp(repo, mod, rule)
    problems, n = [], 0
    ops = ['+', '-', '*', '/', '%', '**', '==', '!=', '<', '<=', '>', '>=', '&&', '||']
    nums = [-7, -3, -1, 0, 1, 2, 3, 7]
    for op in ops:
        for a in nums:
            for b in nums:
                if op == '**' and (abs(b) > 3 or (a == 0 and b < 0)):
                    continue
                if op in ('/', '%') and b == 0:
                    continue
                outs = {}
                for sa_, sb_ in ((int, int), (int, float), (float, int), (float, float)):
                    n += 1
                    it.behaviour, it.truths, it.cmp_operands, it.free_compare = {}, {}, None, False
                    expr = {'binary': {'op': op, 'left': {'number': sa_(a)}, 'right': {'number': sb_(b)}}}
                    try:
                        got = it.evaluate(func, build(expr), None, ADict({}), True, 'off')
                    except (Unrecognised, HostTruth) as exc:
                        got = ('undecided', str(exc)[:60])
                    outs[(sa_.__name__, sb_.__name__)] = got
                vals = list(outs.values())
                if any(v[0] == 'undecided' for v in vals):
                    problems.append(('undecided', f'{a} {op} {b}: {[v for v in vals if v[0] == "undecided"][0][1]}'))
                    continue
                base = vals[0]
                for k, v in outs.items():
                    same = (v[0] == base[0]) and (v[1] == base[1] if v[0] == 'value' else True) and (isinstance(v[1], bool) == isinstance(base[1], bool) if v[0] == 'value' else True)
                    if not same:
                        problems.append(('spelling', f'{a} {op} {b} evaluates to {_fmt(base)} when both operands are host ints and to {_fmt(v)} when they are spelled {k[0]} {op} {k[1]}'))
                        break
    return n, problems


def relational_concrete(repo, rule='E6e'):
    """the six relational operators on every ordered pair of concrete sample values (null, booleans, numbers, strings, nested arrays and objects):
    each result must be the sign test of the reference value order (value_compare itself is an oracle answering by that reference: the
    function's own code is decided separately) -> (n evaluations, problems)"""
    from .libsim import compare_values, ref_value_compare, _abs
    mod = repo.module('runtime')
    func = mod.funcs.get('evaluate_expression')
    it = EvalInterp(repo, mod, rule)
    rank, vals = compare_values()

    def concrete(v):
        if isinstance(v, Sym):
            return False
        if isinstance(v, list):
            return all(concrete(x) for x in v)
        if isinstance(v, dict):
            return all(concrete(x) for x in v.values())
        return True
    vals = [(d, v) for d, v in vals if concrete(v)]
    tests = {'==': lambda c: c == 0, '!=': lambda c: c != 0, '<': lambda c: c < 0, '<=': lambda c: c <= 0, '>': lambda c: c > 0, '>=': lambda c: c >= 0}
    problems, n = [], 0
    it.concrete_rank = rank
    for op, test in tests.items():
        expr = build({'binary': {'op': op, 'left': {'variable': 'a'}, 'right': {'variable': 'b'}}})
        for da, a in vals:
            for db, b in vals:
                n += 1
                it.behaviour, it.truths, it.cmp_operands, it.free_compare = {}, {}, None, False
                try:
                    got = it.evaluate(func, expr, None, ADict({'a': _abs(a), 'b': _abs(b)}), True, 'off')
                except (Unrecognised, HostTruth) as exc:
                    problems.append(('undecided', f'{da} {op} {db}: {str(exc)[:80]}'))
                    continue
                want = test(ref_value_compare(a, b, rank))
                if got[0] == 'value' and isinstance(got[1], Sym):
                    problems.append(('undecided', f'{da} {op} {db} evaluates to the term {got[1]!r}'[:160]))
                    continue
                if got != ('value', want) or not isinstance(got[1], bool):
                    problems.append(('relational', f'{da} {op} {db} evaluates to {_fmt(got)}; the total value order gives {want}'))
    return n, problems


WANT_NUMBERS = {'+': 9.0, '-': 3.0, '*': 18.0, '/': 2.0, '%': 0.0, '**': 216.0, '==': False, '!=': True, '<': False, '<=': False, '>': True, '>=': True, '&&': 3.0, '||': 6.0}


def report(chk, rule_by_cat, what):
    """run the scenarios once per check and report the categories in rule_by_cat under the given rule ids"""
    cache = getattr(chk, '_evalsim', None)
    if cache is None:
        cache = chk._evalsim = run_all(chk.repo, next(iter(rule_by_cat.values())))
    n, problems = cache
    mod = chk.repo.module('runtime')
    counts = {}
    for cat, *_ in scenarios():
        counts[cat] = counts.get(cat, 0) + 1
    for cat, rule in rule_by_cat.items():
        items = problems.get(cat, [])
        und = problems.get(cat + '-undecided', [])
        if und:
            chk.note(f'{rule}: {len(und)} of {counts.get(cat, 0)} `{cat}` scenarios not decided (outside the interpreted subset), e.g. {und[0][0]}: {und[0][1]}')
            counts[cat] = counts.get(cat, 0) - len(und)
        if cat == 'truth':
            for desc, msg, node in items[:2]:
                chk.bad(rule, mod, 'evaluate_expression', f'scenario: {desc}', f'abstract evaluation of `{desc}`: {msg}', node=node)
            continue
        if not items:
            chk.ok(rule, f'{counts.get(cat, 0)} abstract evaluations ({what.get(cat, cat)}) agree with the documented semantics (E6e)', count=counts.get(cat, 1))
            continue
        seen = set()
        for desc, msg, node in items:
            key = msg.split(';')[0][:50]
            if key in seen or len(seen) >= 4:
                continue
            seen.add(key)
            chk.bad(rule, mod, 'evaluate_expression', f'scenario: {desc}', f'abstract evaluation of `{desc}` {msg} ({len(items)} of {counts.get(cat, 0)} scenarios of this kind deviate)', node=node)


# ------------------------------------------------------------------------------------------------ operator table by evaluation
class OpInterp(EvalInterp):
    """value_normalize_datetime, value_string and datetime.timedelta are oracles building terms; everything else of the binary / unary sections is evaluated"""

    def __init__(self, repo, mod, rule='E6e'):
        super().__init__(repo, mod, rule)
        self.oracles['value_normalize_datetime'] = lambda args, node: Sym('ndt', args[0])
        self.oracles['value_string'] = self._vstring
        self.oracles['value_round_number'] = lambda args, node: Sym('round', args[0], args[1]) if isinstance(args[0], Sym) else self.sub_round(args, node)

    def sub_round(self, args, node):
        other = self.repo.module('value')
        return self.sub_interp(other).call_function(other.funcs['value_round_number'], list(args), node)

    def _vstring(self, args, node):
        from .libref import ref_string, Fail
        v = reify(args[0])
        if isinstance(v, Sym):
            return Sym('vstr', v)
        return ref_string(v)

    def host_function(self, name, args, e):
        if name == 'datetime.timedelta':
            kw = tuple(sorted((getattr(self, '_kwargs', None) or {}).items(), key=lambda kv: kv[0]))
            self._kwargs = {}
            return Sym('timedelta', tuple(args), kw)
        return super().host_function(name, args, e)

    def compare(self, op, a, b, node):
        # the evaluator's own guards compare numbers; opaque values never reach a host comparison in a correct evaluator
        if isinstance(a, Sym) or isinstance(b, Sym):
            raise HostTruth(node)
        return super().compare(op, a, b, node)


def _op_samples():
    D, DD = Sym('val', 'd1', True, 'datetime'), Sym('val', 'd2', True, 'date')
    F, RX = Sym('val', 'f', True, 'function'), Sym('val', 'rx', True, 'regex')
    return [('null', None), ('true', True), ('int 2', 2), ('int 0', 0), ('int 10**400', 10 ** 400), ('float 2.5', 2.5), ('float -3.0', -3.0), ("'s'", 's'), ("''", ''), ('datetime', D), ('date', DD),
            ('array', [1.0]), ('object', {'a': 1.0}), ('function', F), ('regex', RX)]


def _is_num(v):
    return isinstance(v, (int, float)) and not isinstance(v, bool)


def _is_dt(v):
    return isinstance(v, Sym) and v.kind == 'val' and v.args[2] in ('datetime', 'date')


def expected_binary(op, l, r):
    """-> ('value', v) | ('term', predicate description, predicate) for datetime arithmetic"""
    from .libref import ref_string
    if op in ('-', '*', '/', '%', '**') and _is_num(l) and _is_num(r):
        try:
            v = {'-': lambda: l - r, '*': lambda: l * r, '/': lambda: l / r, '%': lambda: l % r, '**': lambda: l ** r}[op]()
        except (ZeroDivisionError, OverflowError, ValueError):
            return ('value', None)
        return ('value', None if isinstance(v, complex) else v)
    if op == '+':
        if _is_num(l) and _is_num(r):
            try:
                return ('value', l + r)
            except OverflowError:
                return ('value', None)
        if isinstance(l, str) or isinstance(r, str):
            def vs(x):
                return x if isinstance(x, str) else (Sym('vstr', x) if isinstance(x, Sym) else ref_string(x))
            a, b = vs(l), vs(r)
            if isinstance(a, str) and isinstance(b, str):
                return ('value', a + b)
            return ('value', Sym('binop', 'Add', a, b))
        for dt, n in ((l, r), (r, l)):
            if _is_dt(dt) and _is_num(n):
                want = {Sym('binop', 'Add', Sym('ndt', dt), Sym('timedelta', (), (('milliseconds', n),))), Sym('binop', 'Add', Sym('timedelta', (), (('milliseconds', n),)), Sym('ndt', dt))}
                return ('term', 'normalised datetime + timedelta(milliseconds=number)', lambda v, want=want: v in want)
    if op == '-' and _is_dt(l) and _is_dt(r):
        diff = Sym('binop', 'Sub', Sym('ndt', l), Sym('ndt', r))
        secs = Sym('method', diff, 'total_seconds')
        want = {Sym('binop', 'Mult', secs, 1000), Sym('binop', 'Mult', 1000, secs), Sym('binop', 'Mult', secs, 1000.0), Sym('binop', 'Div', diff, Sym('timedelta', (), (('milliseconds', 1),)))}
        want |= {Sym('round', w, 0) for w in list(want)} | {Sym('round', w, 0.0) for w in list(want)}
        return ('term', '(normalised left - normalised right) in milliseconds', lambda v, want=want: v in want)
    return ('value', None)


def operator_table(repo, rule='E6e'):
    """the six arithmetic operators and unary - / ! evaluated on every ordered pair of sample operands of every value type -> (n, problems [(kind, message)]); kinds:
    'value' (a definite deviation from the language definition), 'undecided'"""
    mod = repo.module('runtime')
    func = mod.funcs.get('evaluate_expression')
    it = OpInterp(repo, mod, rule)
    problems, n = [], 0
    samples = _op_samples()
    from .libsim import _abs
    for op in ('+', '-', '*', '/', '%', '**'):
        expr = build({'binary': {'op': op, 'left': {'variable': 'a'}, 'right': {'variable': 'b'}}})
        for da, a in samples:
            for db, b in samples:
                if op == '**' and isinstance(b, int) and not isinstance(b, bool) and abs(b) > 10 ** 6 and _is_num(a) and isinstance(a, int):
                    continue        # an integer power with a 400-digit exponent does not terminate on the host either
                n += 1
                it.behaviour, it.truths, it.cmp_operands, it.free_compare = {}, {}, None, False
                desc = f'{da} {op} {db}'
                try:
                    got = it.evaluate(func, expr, None, ADict({'a': _abs(a), 'b': _abs(b)}), True, 'off')
                except HostTruth as exc:
                    problems.append(('undecided', f'{desc}: a host truth test / comparison of an opaque value at {norm(exc.args[0])[:70] if exc.args and exc.args[0] is not None else "?"}'))
                    continue
                except Unrecognised as exc:
                    problems.append(('undecided', f'{desc}: {str(exc)[:90]}'))
                    continue
                want = expected_binary(op, a, b)
                if got[0] == 'raise':
                    problems.append(('value', f'{desc} raises {got[1]}; the language defines {"null" if want == ("value", None) else "a value"}'))
                    continue
                v = got[1]
                if want[0] == 'value':
                    w = want[1]
                    same = (v is None and w is None) or (w is not None and v is not None and type(v) is type(w) and v == w) or \
                        (isinstance(w, (int, float)) and isinstance(v, (int, float)) and not isinstance(v, bool) and not isinstance(w, bool) and v == w)
                    if not same:
                        if isinstance(v, Sym) and w is not None:
                            problems.append(('undecided', f'{desc} evaluates to the term {v!r}'[:200]))
                        else:
                            problems.append(('value', f'{desc} evaluates to {_fmt(got)}; the language defines {w!r}' + (' (operand types the operator does not support yield null)' if w is None else '')))
                else:
                    if v is None:
                        problems.append(('value', f'{desc} evaluates to null; the language defines {want[1]}'))
                    elif not want[2](v):
                        problems.append(('undecided', f'{desc} evaluates to the term {v!r}, not the known form of {want[1]}'[:240]))
    for op in ('-', '!'):
        expr = build({'unary': {'op': op, 'expr': {'variable': 'a'}}})
        for da, a in samples:
            n += 1
            it.behaviour, it.truths, it.cmp_operands, it.free_compare = {}, {}, None, False
            try:
                got = it.evaluate(func, expr, None, ADict({'a': _abs(a)}), True, 'off')
            except (Unrecognised, HostTruth) as exc:
                problems.append(('undecided', f'{op}{da}: {str(exc)[:90]}'))
                continue
            if op == '-':
                w = -a if _is_num(a) else None
                if got != ('value', w) or (w is not None and type(got[1]) is not type(w)):
                    problems.append(('value', f'-({da}) evaluates to {_fmt(got)}; the language defines {w!r}'))
            else:
                truth = it._boolean([_abs(a)], None) if not isinstance(a, (list, dict, str)) else (len(a) != 0 if not isinstance(a, dict) else True)
                if got != ('value', not truth):
                    problems.append(('value', f'!({da}) evaluates to {_fmt(got)}; the language defines {not truth}'))
    return n, problems
