"""E6l: abstract interpretation of selected library functions over opaque script values.

Script values are opaque symbols Sym('val', tag, truth, atom) carrying a host type atom (for isinstance) and a rank in a
scenario-defined total value order; `value_compare` is an oracle over that order (null first).  Host ordering operators
applied to opaque values are NOT defined (using them is reported).  Containers (argument lists, arrays) are exact heap
objects.  Used where the property is about how a library function combines comparisons / indices, not about values.
"""
import ast
import itertools

from .core import Unrecognised, norm
from .absint import Interp, Sym, ADict, AList, RaiseSig, ReturnSig, reify


class HostOrdering(Exception):
    def __init__(self, node):
        self.node = node


class LibInterp(Interp):
    def __init__(self, repo, mod, rule='E6l'):
        super().__init__(mod, rule)
        self.repo = repo
        self.max_depth = 8
        self.rank = {}
        self.n_compare = 0
        self.oracles['value_compare'] = self._compare

    def _rank(self, v):
        if v is None:
            return -1
        if isinstance(v, Sym) and v.kind == 'val':
            return self.rank[v.args[0]]
        raise Unrecognised(self.rule, f'value_compare of {v!r}', self.mod.rel)

    def _compare(self, args, node):
        self.n_compare += 1
        a, b = self._rank(args[0]), self._rank(args[1])
        return -1 if a < b else (1 if a > b else 0)

    def compare(self, op, a, b, node):
        if isinstance(op, (ast.Lt, ast.LtE, ast.Gt, ast.GtE)) and (isinstance(a, Sym) and a.kind == 'val' or isinstance(b, Sym) and b.kind == 'val' or a is None or b is None):
            raise HostOrdering(node)
        return super().compare(op, a, b, node)

    def builtin_hook(self, name, args, e):
        if name in ('min', 'max', 'sorted') and args:
            items = self.iterate(args[0], e) if len(args) == 1 else list(args)
            if any(isinstance(x, Sym) or x is None for x in items):
                raise HostOrdering(e)
        if name == 'isinstance' and args and isinstance(args[0], Sym) and args[0].kind == 'val' and len(args[0].args) > 3:
            from .atoms import CLASS_NAMES, INSTANCE_OF
            atom = args[0].args[3]
            classes = [norm(x) for x in (e.args[1].elts if isinstance(e.args[1], ast.Tuple) else [e.args[1]])]
            for c in classes:
                if c not in CLASS_NAMES:
                    raise Unrecognised(self.rule, f'isinstance class {c}', self.mod.rel)
                if CLASS_NAMES[c] in INSTANCE_OF[atom]:
                    return True
            return False
        return NotImplemented

    def run(self, func, args):
        self.depth = 0
        self.n_compare = 0
        try:
            return ('value', self.call_function(func, list(args), func))
        except RaiseSig as sig:
            return ('raise', sig.cls, sig.args_)


def val(tag, atom='float'):
    return Sym('val', tag, True, atom)


def minmax_scenarios():
    A, B, C = val('a'), val('b'), val('c')
    pool = [None, A, B, C]
    out = [[]]
    for n in (1, 2, 3):
        out += [list(c) for c in itertools.product(pool, repeat=n)]
    return {'a': 1, 'b': 2, 'c': 3}, out
