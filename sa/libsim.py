"""E6l: abstract interpretation of selected library functions over opaque script values.

Script values are opaque symbols Sym('val', tag, truth, atom) carrying a host type atom (for isinstance) and a rank in a
scenario-defined total value order; `value_compare` is an oracle over that order (null first).  Host ordering operators
applied to opaque values are NOT defined (using them is reported).  Containers (argument lists, arrays) are exact heap
objects.  Used where the property is about how a library function combines comparisons / indices, not about values.
"""
import ast
import itertools

from .core import Unrecognised, norm
from .absint import Interp, Sym, ADict, AList, RaiseSig, ReturnSig, reify, AIter


class HostOrdering(Exception):
    def __init__(self, node):
        self.node = node


class LibInterp(Interp):
    def __init__(self, repo, mod, rule='E6l'):
        super().__init__(mod, rule)
        self.repo = repo
        self.max_depth = 8
        self.rank = {}
        self.n_compare = 0
        self.oracles['value_compare'] = self._compare

    def _rank(self, v):
        if v is None:
            return -1
        if isinstance(v, Sym) and v.kind == 'val':
            return self.rank[v.args[0]]
        raise Unrecognised(self.rule, f'value_compare of {v!r}', self.mod.rel)

    def _compare(self, args, node):
        self.n_compare += 1
        a, b = self._rank(args[0]), self._rank(args[1])
        return -1 if a < b else (1 if a > b else 0)

    def compare(self, op, a, b, node):
        if isinstance(op, (ast.Lt, ast.LtE, ast.Gt, ast.GtE)) and (isinstance(a, Sym) and a.kind == 'val' or isinstance(b, Sym) and b.kind == 'val' or a is None or b is None):
            raise HostOrdering(node)
        return super().compare(op, a, b, node)

    def _eq(self, a, b):
        va = isinstance(a, Sym) and a.kind == 'val'
        vb = isinstance(b, Sym) and b.kind == 'val'
        if (va or vb) and a is not b and not (va and vb and a == b and False):
            # host == between script values: True == 1, 1 == 1.0, [True] == [1] ... differs from the value comparison
            raise HostOrdering(None)
        return Interp._eq(a, b)

    def builtin_hook(self, name, args, e):
        if name in ('min', 'max', 'sorted') and args:
            items = self.iterate(args[0], e) if len(args) == 1 else list(args)
            if any(isinstance(x, Sym) or x is None for x in items):
                raise HostOrdering(e)
        if name == 'callable' and args and isinstance(args[0], Sym) and args[0].kind == 'val' and len(args[0].args) > 2:
            return args[0].args[2] == 'function'
        if name == 'type' and len(args) == 1 and isinstance(args[0], Sym) and args[0].kind == 'val' and len(args[0].args) > 2:
            return ('typeof', args[0].args[2])
        if name == 'isinstance' and args and isinstance(args[0], Sym) and args[0].kind == 'val' and len(args[0].args) > 2:
            from .atoms import CLASS_NAMES, INSTANCE_OF
            atom = args[0].args[2]
            classes = self.class_names(e.args[1], args[1] if len(args) > 1 else None)
            for c in classes:
                if c == 'object':
                    return True
                if c not in CLASS_NAMES:
                    raise Unrecognised(self.rule, f'isinstance class {c}', self.mod.rel)
                if CLASS_NAMES[c] in INSTANCE_OF[atom]:
                    return True
            return False
        return NotImplemented

    def run(self, func, args):
        self.depth = 0
        self.n_compare = 0
        try:
            return ('value', self.call_function(func, list(args), func))
        except RaiseSig as sig:
            return ('raise', sig.cls, sig.args_)


def val(tag, atom='float'):
    return Sym('val', tag, True, atom)


def sort_fn_scenarios():
    """(sorts, row1, row2, expected sign) over opaque values with rank a < b < c and null lowest"""
    A, B, C = val('a'), val('b'), val('c')
    rk = {'a': 1, 'b': 2, 'c': 3}
    rows = [{'x': A, 'y': B}, {'x': A, 'y': C}, {'x': B, 'y': A}, {'x': A, 'y': B}, {'x': None, 'y': A}, {'y': B}]
    sort_specs = [[['x']], [['x', False]], [['x', True]], [['x'], ['y']], [['x', True], ['y']], [['x'], ['y', True]], [['y', True], ['x', True]], []]

    def rank(v):
        return -1 if v is None else rk[v.args[0]]

    def sign(x):
        return (x > 0) - (x < 0)
    out = []
    for spec in sort_specs:
        for r1 in rows:
            for r2 in rows:
                want = 0
                for s_ in spec:
                    c = sign(rank(r1.get(s_[0])) - rank(r2.get(s_[0])))
                    if len(s_) > 1 and s_[1]:
                        c = -c
                    if c:
                        want = c
                        break
                out.append((spec, r1, r2, want))
    return rk, out


def minmax_scenarios():
    A, B, C = val('a'), val('b'), val('c')
    pool = [None, A, B, C]
    out = [[]]
    for n in (1, 2, 3):
        out += [list(c) for c in itertools.product(pool, repeat=n)]
    return {'a': 1, 'b': 2, 'c': 3}, out


# ------------------------------------------------------------------------------------------------ index-taking functions
MISSING = object()


class Fail:
    """documented failure: the call evaluates to `value`"""
    def __init__(self, value):
        self.value = value

    def __eq__(self, other):
        return isinstance(other, Fail) and other.value == self.value

    def __repr__(self):
        return f'failure({self.value!r})'


def _integral(i):
    return isinstance(i, (int, float)) and not isinstance(i, bool) and int(i) == i


def ref_array_get(a, i):
    return a[int(i)] if _integral(i) and 0 <= i < len(a) else Fail(None)


def ref_array_set(a, i, v):
    if _integral(i) and 0 <= i < len(a):
        a[int(i)] = v
        return v
    return Fail(None)


def ref_array_delete(a, i):
    if _integral(i) and 0 <= i < len(a):
        del a[int(i)]
        return None
    return Fail(None)


def ref_array_slice(a, s=0, e=None):
    if s is None:
        return Fail(None)
    e = len(a) if e is None else e
    if _integral(s) and _integral(e) and 0 <= s <= len(a) and 0 <= e <= len(a):
        return list(a[int(s):int(e)])
    return Fail(None)


def ref_index_of(eq):
    def f(a, v, i=0):
        if i is None or not (_integral(i) and 0 <= i < len(a)):
            return Fail(-1)
        for k in range(int(i), len(a)):
            if eq(a[k], v):
                return k
        return -1
    return f


def ref_last_index_of(eq):
    def f(a, v, i=None):
        if i is None:
            i = len(a) - 1
            if i < 0:
                return -1
        if not (_integral(i) and 0 <= i < len(a)):
            return Fail(-1)
        for k in range(int(i), -1, -1):
            if eq(a[k], v):
                return k
        return -1
    return f


def ref_char_code_at(s, i):
    return ord(s[int(i)]) if _integral(i) and 0 <= i < len(s) else Fail(None)


def ref_string_index_of(s, sub, i=0):
    if i is None or not (_integral(i) and 0 <= i < len(s)):
        return Fail(-1)
    return s.find(sub, int(i))


def ref_string_last_index_of(s, sub, i=None):
    if i is None:
        i = len(s) - 1
        if i < 0:
            return -1
    if not (_integral(i) and 0 <= i < len(s)):
        return Fail(-1)
    return s.rfind(sub, 0, int(i) + len(sub))


def ref_string_slice(s, start=MISSING, end=None):
    if start is MISSING or start is None:
        return Fail(None)
    end = len(s) if end is None else end
    if _integral(start) and _integral(end) and 0 <= start <= len(s) and 0 <= end <= len(s):
        return s[int(start):int(end)]
    return Fail(None)


INDEXES = [-2, -1, 0, 1, 2, 3, 4, 5]
ODD = [1.5, None, 'x', True, MISSING]


def index_scenarios():
    """(script function, description, argument builder, reference) ; arrays hold distinct opaque values a < b < c plus a duplicate"""
    A, B, C = val('a'), val('b'), val('c')
    eq = lambda x, y: x == y
    arrays = [[], [A], [A, B], [A, B, A], [A, B, C]]
    strings = ['a', 'ab', 'abab', 'abcab']
    out = []
    for arr in arrays:
        for i in INDEXES + ODD:
            tail = [] if i is MISSING else [i]
            out.append(('arrayGet', arr, [('seq',)] + tail, lambda a, *r: ref_array_get(a, *r) if r else Fail(None)))
            out.append(('arrayDelete', arr, [('seq',)] + tail, lambda a, *r: ref_array_delete(a, *r) if r else Fail(None)))
            out.append(('arraySet', arr, [('seq',)] + tail + ([val('new')] if tail else []), lambda a, *r: ref_array_set(a, *r) if len(r) == 2 else Fail(None)))
            out.append(('arrayIndexOf', arr, [('seq',), A] + tail, ref_index_of(eq)))
            out.append(('arrayIndexOf', arr, [('seq',), val('zz')] + tail, ref_index_of(eq)))
            out.append(('arrayLastIndexOf', arr, [('seq',), A] + tail, ref_last_index_of(eq)))
            out.append(('arraySlice', arr, [('seq',)] + tail, ref_array_slice))
            for j in (0, 1, 3, 4, None, 1.5):
                if i is not MISSING:
                    out.append(('arraySlice', arr, [('seq',), i, j], ref_array_slice))
    for st in strings:
        for i in INDEXES + ODD:
            tail = [] if i is MISSING else [i]
            out.append(('stringCharCodeAt', st, [('seq',)] + tail, lambda s, *r: ref_char_code_at(s, *r) if r else Fail(None)))
            out.append(('stringIndexOf', st, [('seq',), 'ab'] + tail, ref_string_index_of))
            out.append(('stringIndexOf', st, [('seq',), 'b'] + tail, ref_string_index_of))
            out.append(('stringLastIndexOf', st, [('seq',), 'ab'] + tail, ref_string_last_index_of))
            out.append(('stringLastIndexOf', st, [('seq',), 'a'] + tail, ref_string_last_index_of))
            out.append(('stringSlice', st, [('seq',)] + tail, ref_string_slice))
            for j in (0, 1, 2, 5, 6, None, 1.5):
                if i is not MISSING:
                    out.append(('stringSlice', st, [('seq',), i, j], ref_string_slice))
    return out


def spell(v, as_float):
    if isinstance(v, int) and not isinstance(v, bool):
        return float(v) if as_float else v
    return v


def show_arg(v):
    if isinstance(v, Sym) and v.kind == 'val':
        return v.args[0]
    if isinstance(v, AList):
        return '[' + ', '.join(show_arg(x) for x in v.l) + ']'
    if isinstance(v, list):
        return '[' + ', '.join(show_arg(x) for x in v) + ']'
    if v is None:
        return 'null'
    return repr(v)


def run_index_functions(repo, libfuncs, rule='E6l'):
    """-> (n_runs, problems) ; problems: list of (script function, kind, message) ; kind in result / unchanged / spelling / host"""
    lib = repo.module('library')
    it = LibInterp(repo, lib, rule)
    it.rank = {'a': 1, 'b': 2, 'c': 3, 'new': 4, 'zz': 5}
    it.oracles['value_args_model'] = lambda args, node: args[0]
    problems = []
    n = 0
    per_fn = {}
    for name, seq, args, ref in index_scenarios():
        lf = libfuncs.get(name)
        if lf is None:
            raise Unrecognised(rule, f'{name} is not registered', lib.rel)
        outcomes = []
        for as_float in (False, True):
            n += 1
            per_fn[name] = per_fn.get(name, 0) + 1
            model = list(seq) if isinstance(seq, list) else seq
            a_seq = AList(list(seq)) if isinstance(seq, list) else seq
            call_args = AList([a_seq if a == ('seq',) else spell(a, as_float) for a in args])
            ref_args = [model if a == ('seq',) else spell(a, as_float) for a in args]
            desc = f'{name}(' + ', '.join(show_arg(x) for x in call_args.l) + ')'
            try:
                got = it.run(lf.func, [call_args, ADict({})])
            except HostOrdering as ho:
                problems.append((name, 'host', f'{desc}: host ordering of script values at {norm(ho.node)[:60] if ho.node is not None else "?"}'))
                break
            want = ref(*ref_args)
            if got[0] == 'raise':
                if got[1] == 'ValueArgsError':
                    rv = got[2][2] if len(got[2]) > 2 else None
                    res = Fail(rv)
                else:
                    problems.append((name, 'host', f'{desc} raises the host exception {got[1]}{got[2]!r}: the call wrapper turns it into null'
                                     + ('' if isinstance(want, Fail) and want.value is None else f' instead of {want!r}')
                                     + (' (and the argument is not reported through the documented failure path)' if isinstance(want, Fail) else '')))
                    outcomes.append(('host', got[1]))
                    continue
            else:
                res = got[1]
                if isinstance(res, AList):
                    if res is a_seq and name in ('arraySlice',):
                        problems.append((name, 'result', f'{desc} returns the argument array itself; a slice must be a fresh array'))
                    res = list(res.l)
            outcomes.append(res)
            if res != want and not (isinstance(want, Fail) and res == want):
                problems.append((name, 'result', f'{desc} gives {_show_res(res)}; the reference sequence model gives {_show_res(want)}'))
                continue
            after = list(a_seq.l) if isinstance(a_seq, AList) else a_seq
            if isinstance(want, Fail) and after != (list(seq) if isinstance(seq, list) else seq):
                problems.append((name, 'unchanged', f'{desc} fails but leaves the array as {show_arg(after)} (arguments must be unchanged on failure)'))
            elif not isinstance(want, Fail) and isinstance(seq, list) and after != model:
                problems.append((name, 'result', f'{desc} leaves the array as {show_arg(after)}; the reference gives {show_arg(model)}'))
        if len(outcomes) == 2 and outcomes[0] != outcomes[1]:
            problems.append((name, 'spelling', f'{name}(' + ', '.join(show_arg(x) for x in [seq if a == ("seq",) else a for a in args]) + f') gives {_show_res(outcomes[0])} when the numbers are host ints '
                             f'and {_show_res(outcomes[1])} when they are floats (script literals are floats)'))
    return n, per_fn, problems


def _show_res(r):
    if isinstance(r, Fail):
        return repr(r)
    if isinstance(r, tuple) and r and r[0] == 'host':
        return f'host exception {r[1]}'
    return show_arg(r)


# ------------------------------------------------------------------------------------------------ data functions (data.py)
class DataInterp(LibInterp):
    def __init__(self, repo, mod, rule='E6l'):
        super().__init__(repo, mod, rule)
        self.oracles['value_json'] = self._json
        self.oracles['validate_type'] = lambda args, node: args[2]
        self.oracles['parse_expression'] = lambda args, node: Sym('expr', args[0])
        self.oracles['_import_evaluate_expression'] = lambda args, node: ('extern', 'runtime', 'evaluate_expression')
        self.oracles['evaluate_expression'] = self._evaluate
        self.n_eval = 0

    def _evaluate(self, args, node):
        e = args[0]
        self.n_eval += 1
        if isinstance(e, Sym) and e.kind == 'expr' and len(args) > 2 and isinstance(args[2], ADict):
            return args[2].d.get(e.args[0])
        raise Unrecognised(self.rule, f'evaluate_expression({args[:1]!r}) in a data scenario', self.mod.rel)

    @staticmethod
    def canon(v):
        if isinstance(v, AList):
            return '[' + ','.join(DataInterp.canon(x) for x in v.l) + ']'
        if isinstance(v, (list, tuple)):
            return '[' + ','.join(DataInterp.canon(x) for x in v) + ']'
        if isinstance(v, ADict):
            return '{' + ','.join(f'{k!r}:{DataInterp.canon(x)}' for k, x in sorted(v.d.items())) + '}'
        if v is None:
            return 'null'
        if isinstance(v, bool):
            return 'true' if v else 'false'
        if isinstance(v, (int, float)):
            # the JSON text of the number (integral numbers without a fraction): a key function that passes strings through unserialised then meets '1' for 1 and "1"
            return str(int(v)) if float(v).is_integer() and abs(v) < 1e15 else repr(float(v))
        if isinstance(v, str):
            return '"' + v + '"'
        if isinstance(v, Sym) and v.kind == 'val':
            return f'<{v.args[0]}>'
        raise Unrecognised('E6l', f'value_json of {v!r}')

    def _json(self, args, node):
        return self.canon(args[0])

    def host_function(self, name, args, e):
        if name.startswith('statistics.') and len(args) == 1:
            return self.method_hook(('module', 'statistics'), name.split('.', 1)[1], args, e)
        return super().host_function(name, args, e)

    def method_hook(self, base, m, args, e):
        if isinstance(base, tuple) and base and base[0] == 'module' and base[1] in ('statistics', 'math'):
            import statistics
            import math
            vals = self.iterate(args[0], e) if args and isinstance(args[0], (AList, list, tuple)) else list(args)
            if not all(isinstance(x, (int, float)) and not isinstance(x, bool) for x in vals):
                if any(x is None or isinstance(x, Sym) for x in vals):
                    raise HostOrdering(e)
                raise Unrecognised(self.rule, f'{base[1]}.{m} of non-numbers', self.mod.rel)
            fn = getattr(statistics if base[1] == 'statistics' else math, m, None)
            if fn is None:
                raise Unrecognised(self.rule, f'{base[1]}.{m}', self.mod.rel)
            try:
                return fn(vals) if base[1] == 'statistics' else fn(*vals)
            except Exception as exc:
                raise RaiseSig(type(exc).__name__, (str(exc),), e)
        return NotImplemented


def ref_top(rows, count, fields):
    order, buckets = [], {}
    for r in rows:
        key = '' if fields is None else DataInterp.canon([r.get(f) for f in fields])
        if key not in buckets:
            buckets[key] = []
            order.append(key)
        buckets[key].append(r)
    out = []
    for k in order:
        out += buckets[k][:max(0, int(count))]
    return out


def ref_aggregate(rows, agg):
    import statistics
    cats = agg.get('categories')
    order, buckets = [], {}
    for r in rows:
        cv = [r.get(c) for c in cats] if cats is not None else None
        key = DataInterp.canon(cv) if cv is not None else ''
        if key not in buckets:
            buckets[key] = (dict(zip(cats, cv)) if cats is not None else {}, [])
            order.append(key)
        buckets[key][1].append(r)
    out = []
    for k in order:
        row, members = buckets[k]
        row = dict(row)
        for m in agg['measures']:
            name = m.get('name', m['field'])
            vals = [r.get(m['field']) for r in members if r.get(m['field']) is not None]
            if not vals:
                row[name] = None
            else:
                f = m['function']
                row[name] = {'count': len, 'max': max, 'min': min, 'sum': sum, 'stddev': statistics.pstdev, 'average': statistics.mean}[f](vals)
        out.append(row)
    return out


def ref_join(left, right, lkey, rkey=None, drop_unmatched=False):
    rkey = rkey or lkey
    left_names, raw, names = [], [], {}
    for r in left:
        for f in r:
            if f not in left_names:
                left_names.append(f)
    for r in right:
        for f in r:
            if f not in raw:
                raw.append(f)
    for f in raw:
        if f not in left_names:
            names[f] = f
        else:
            k = 2
            while f'{f}{k}' in left_names or f'{f}{k}' in names.values() or f'{f}{k}' in raw:
                k += 1
            names[f] = f'{f}{k}'
    buckets = {}
    for r in right:
        buckets.setdefault(DataInterp.canon(r.get(rkey)), []).append(r)
    out = []
    for l in left:
        m = buckets.get(DataInterp.canon(l.get(lkey)))
        if m:
            for r in m:
                row = dict(l)
                for f, v in r.items():
                    row[names[f]] = v
                out.append(row)
        elif not drop_unmatched:
            out.append(dict(l))
    return out


def _close(a, b):
    if isinstance(a, dict) and isinstance(b, dict):
        return set(a) == set(b) and all(_close(a[k], b[k]) for k in a)
    if isinstance(a, list) and isinstance(b, list):
        return len(a) == len(b) and all(_close(x, y) for x, y in zip(a, b))
    if isinstance(a, bool) or isinstance(b, bool) or a is None or b is None:
        return a is b
    if isinstance(a, (int, float)) and isinstance(b, (int, float)):
        return abs(a - b) <= 1e-9 * max(1.0, abs(a), abs(b))
    return a == b


def data_tables():
    T1 = [{'c': 'x', 'v': 1}, {'c': 'y', 'v': 2.5}, {'c': 'x', 'v': None}, {'c': 'x', 'v': 0}, {'c': 'y', 'v': -1}, {'c': 'x', 'v': 4}]
    T2 = [{'c': True, 'd': 'p', 'v': 3}, {'c': 1, 'd': 'p', 'v': 5}, {'c': 1.0, 'd': 'q', 'v': 7}, {'c': None, 'd': 'p'}, {'c': False, 'd': 'p', 'v': 0}, {'c': 0, 'd': 'p', 'v': 2}]
    T3 = [{'c': '1', 'v': 2}, {'c': 1, 'v': 3}, {'c': [1], 'v': 5}, {'c': '[1]', 'v': 7}, {'v': 11}]
    T4 = [{'c': 'x', 'v': 0.1}, {'c': 'x', 'v': 0.1}, {'c': 'x', 'v': 0.1}, {'c': 'y', 'v': 1e9 + 0.25}, {'c': 'y', 'v': 1e9 + 0.5}, {'c': 'y', 'v': 1e9 + 0.75}]
    return {'plain': T1, 'float measures: equal non-dyadic values, large mean with small spread': T4, 'mixed key types (true / 1 / 1.0 / null / false / 0)': T2, 'keys that look alike ("1" / 1 / [1] / "[1]" / missing)': T3, 'empty': [], 'one row': [{'c': 'x', 'v': 2}]}


def _abs(v):
    if isinstance(v, dict):
        return ADict({k: _abs(x) for k, x in v.items()})
    if isinstance(v, list):
        return AList([_abs(x) for x in v])
    return v


def run_data_functions(repo, rule='E6l'):
    """-> (per-function run counts, problems [(function, kind, message)])"""
    mod = repo.module('data')
    it = DataInterp(repo, mod, rule)
    problems, counts = [], {}

    def one(fname, args, want, desc):
        func = mod.funcs.get(fname)
        if func is None:
            raise Unrecognised(rule, f'data.{fname} not found', mod.rel)
        counts[fname] = counts.get(fname, 0) + 1
        a_args = [_abs(a) for a in args]
        before = reify(a_args[0])
        try:
            got = it.run(func, a_args)
        except HostOrdering as ho:
            problems.append((fname, 'host', f'{desc}: script values (null / mixed types) reach a host ordering or reducer at {norm(ho.node)[:60] if ho.node is not None else "?"}'))
            return
        if got[0] == 'raise':
            problems.append((fname, 'host', f'{desc} raises {got[1]}{got[2]!r}'))
            return
        res = reify(got[1])
        if not _close(res, want):
            problems.append((fname, 'result', f'{desc} gives {res!r}; the relational meaning gives {want!r}'))
        elif reify(a_args[0]) != before:
            problems.append((fname, 'input', f'{desc} modifies its input table'))
    for tname, table in data_tables().items():
        for count in (0, 1, 2, 2.0, 1.0, 10):
            for fields in (None, ['c'], ['c', 'd']):
                one('top_data', [table, count, fields], ref_top(table, count, fields), f'top_data(<{tname}>, {count!r}, {fields!r})')
        for cats in (None, ['c'], ['c', 'd']):
            for fn in ('count', 'sum', 'min', 'max', 'average', 'stddev'):
                for named in (False, True):
                    m = {'field': 'v', 'function': fn}
                    if named:
                        m['name'] = 'out'
                    agg = {'measures': [m, {'field': 'w', 'function': 'count', 'name': 'nw'}]}
                    if cats is not None:
                        agg['categories'] = cats
                    one('aggregate_data', [table, agg], ref_aggregate(table, agg), f'aggregate_data(<{tname}>, categories={cats!r}, {fn}(v){" as out" if named else ""})')
    L1 = [{'a': 1, 'b': 5}, {'a': 1, 'b': 6}, {'a': 2, 'b': 7}, {'a': 3, 'b': 8}]
    R1 = [{'a': 1, 'c': 10}, {'a': 2, 'c': 11}, {'a': 2, 'c': 12}]
    L2 = [{'a': 1, 'b': 5}, {'a': 2, 'a2': 7, 'b': 0}, {'a': None}, {'b': 1}]
    R2 = [{'a': 2, 'a3': 'x', 'b': 1}, {'a': 1, 'c': 10, 'a2': 'r'}, {'a': None, 'c': 0}]
    L3 = [{'a': True, 'k': 'l0'}, {'a': 1, 'k': 'l1'}, {'a': 1.0, 'k': 'l2'}, {'a': '1', 'k': 'l3'}, {'a': [1], 'k': 'l4'}, {'a': None, 'k': 'l5'}, {'a': 'true', 'k': 'l6'}]
    R3 = [{'a': 1, 'k': 'r-one'}, {'a': True, 'k': 'r-true'}, {'a': '[1]', 'k': 'r-text'}, {'a': [1.0], 'k': 'r-list'}, {'a': 'null', 'k': 'r-null-text'}]
    for lname, left in (('L1', L1), ('L2: fields differ between rows, a2 only in a later row', L2), ('L3: mixed key types', L3), ('empty', [])):
        for rname, right in (('R1', R1), ('R2: fields a2 / a3 collide with generated names', R2), ('R3: mixed key types', R3), ('empty', [])):
            for flag in (False, True):
                before = [dict(r) for r in left]
                one('join_data', [left, right, 'a', None, flag], ref_join(left, right, 'a', None, flag), f'join_data(<{lname}>, <{rname}>, "a", isLeftJoin={flag})')
            one('join_data', [left, right, 'a', 'a'], ref_join(left, right, 'a', 'a'), f'join_data(<{lname}>, <{rname}>, "a", "a")')
            one('join_data', [left, right, 'b', 'c'], ref_join(left, right, 'b', 'c'), f'join_data(<{lname}>, <{rname}>, "b", "c")')
    return counts, problems


# ------------------------------------------------------------------------------------------------ value_compare
class CompareInterp(LibInterp):
    """host comparisons are defined exactly where CPython defines them: concrete numbers / strings / booleans, and opaque datetimes
    among themselves (by scenario rank); mixing raw date and datetime, or any other opaque value, raises TypeError like the host"""

    def __init__(self, repo, mod, rule='E6l'):
        super().__init__(repo, mod, rule)
        self.oracles.pop('value_compare', None)
        self.oracles['value_normalize_datetime'] = self._normalize

    def _normalize(self, args, node):
        v = args[0]
        if isinstance(v, Sym) and v.kind == 'val' and v.args[2] in ('date', 'datetime'):
            return Sym('val', v.args[0], True, 'ndt')
        raise RaiseSig('AttributeError', ('not a datetime',), node)

    def _dt_class(self, v):
        return v.args[2] if isinstance(v, Sym) and v.kind == 'val' and v.args[2] in ('date', 'datetime', 'ndt') else None

    def compare(self, op, a, b, node):
        ordering = isinstance(op, (ast.Lt, ast.LtE, ast.Gt, ast.GtE))
        ca, cb = self._dt_class(a), self._dt_class(b)
        if ordering and (ca or cb):
            if ca and cb and ca == cb:
                ra, rb = self.rank[a.args[0]], self.rank[b.args[0]]
                return {ast.Lt: ra < rb, ast.LtE: ra <= rb, ast.Gt: ra > rb, ast.GtE: ra >= rb}[type(op)]
            raise RaiseSig('TypeError', (f"'<' not supported between {ca or type(a).__name__} and {cb or type(b).__name__}",), node)
        if ordering and any(isinstance(x, Sym) or x is None or isinstance(x, (ADict,)) for x in (a, b)):
            raise RaiseSig('TypeError', ('ordering not supported between these values',), node)
        if ordering and isinstance(a, (str, bool, int, float)) and isinstance(b, (str, bool, int, float)):
            if isinstance(a, str) != isinstance(b, str):
                raise RaiseSig('TypeError', ("'<' not supported between str and number",), node)
            return {ast.Lt: a < b, ast.LtE: a <= b, ast.Gt: a > b, ast.GtE: a >= b}[type(op)]
        if ordering and isinstance(a, tuple) and isinstance(b, tuple):
            # tuples (e.g. sorted(dict.items()) pairs): lexicographic with the same rules
            for x, y in zip(a, b):
                if not self._eq(x, y):
                    return self.compare(op, x, y, node) if isinstance(op, (ast.Lt, ast.Gt)) else self.compare(ast.Lt() if isinstance(op, ast.LtE) else ast.Gt(), x, y, node)
            return {ast.Lt: len(a) < len(b), ast.LtE: len(a) <= len(b), ast.Gt: len(a) > len(b), ast.GtE: len(a) >= len(b)}[type(op)]
        return Interp.compare(self, op, a, b, node)

    def _eq(self, a, b):
        ca, cb = self._dt_class(a), self._dt_class(b)
        if ca or cb:
            return bool(ca and cb and ca == cb and self.rank[a.args[0]] == self.rank[b.args[0]])
        if isinstance(a, Sym) or isinstance(b, Sym):
            return a is b
        if isinstance(a, AList) and isinstance(b, AList):
            return a is b or (len(a.l) == len(b.l) and all(self._eq(x, y) for x, y in zip(a.l, b.l)))
        if isinstance(a, ADict) and isinstance(b, ADict):
            return a is b or (set(a.d) == set(b.d) and all(self._eq(a.d[k], b.d[k]) for k in a.d))
        if isinstance(a, (list, tuple)) and isinstance(b, (list, tuple)) and type(a) is type(b):
            return len(a) == len(b) and all(self._eq(x, y) for x, y in zip(a, b))
        if isinstance(a, (AList, ADict)) or isinstance(b, (AList, ADict)):
            return False
        return a == b

    def method_hook(self, base, m, args, e):
        if isinstance(base, AList) and m == 'sort' and not args and not e.keywords:
            import functools

            def cmp(x, y):
                return -1 if self.compare(ast.Lt(), x, y, e) else (1 if self.compare(ast.Gt(), x, y, e) else 0)
            base.l.sort(key=functools.cmp_to_key(cmp))
            return None
        return super().method_hook(base, m, args, e)

    def builtin_hook(self, name, args, e):
        if name == 'sorted' and args:
            items = self.iterate(args[0], e)
            import functools

            def cmp(x, y):
                return -1 if self.compare(ast.Lt(), x, y, e) else (1 if self.compare(ast.Gt(), x, y, e) else 0)
            return AList(sorted(items, key=functools.cmp_to_key(cmp)))
        if name in ('min', 'max') and len(args) == 2 and all(isinstance(a, (int, float)) and not isinstance(a, bool) for a in args):
            return (min if name == 'min' else max)(*args)
        return super().builtin_hook(name, args, e)


TYPE_ORDER = ['array', 'boolean', 'datetime', 'function', 'number', 'object', 'regex', 'string']


def compare_values():
    """named sample values: (description, abstract value, reference key)"""
    D1, D2, D2b = Sym('val', 'd1', True, 'datetime'), Sym('val', 'd2', True, 'datetime'), Sym('val', 'd2b', True, 'date')
    F, G, RX = Sym('val', 'f', True, 'function'), Sym('val', 'g', True, 'function'), Sym('val', 'rx', True, 'regex')
    rank = {'d1': 1, 'd2': 2, 'd2b': 2, 'f': 0, 'g': 0, 'rx': 0}
    vals = [('null', None), ('false', False), ('true', True), ('-1', -1), ('1', 1), ('1.0', 1.0), ('2.5', 2.5), ('2**53 (int)', 2 ** 53), ('2**53 + 1 (int)', 2 ** 53 + 1), ('2.0**53 (float)', 2.0 ** 53), ("''", ''), ("'a'", 'a'), ("'b'", 'b'),
            ('datetime d1', D1), ('datetime d2', D2), ('date equal to d2', D2b), ('function f', F), ('function g', G), ('regex', RX),
            ('[]', []), ('[1]', [1]), ('[1, 2]', [1, 2]), ('[2]', [2]), ("[1, 'a']", [1, 'a']), ('[null]', [None]), ('[[1]]', [[1]]), ('[true]', [True]),
            ('{}', {}), ("{a:1}", {'a': 1}), ("{a:2}", {'a': 2}), ("{b:1,a:2} (insertion order b,a)", {'b': 1, 'a': 2}), ("{a:2,b:0}", {'a': 2, 'b': 0}), ("{a:1,c:0}", {'a': 1, 'c': 0}),
            ("{a:[1]}", {'a': [1]}), ("{a:null}", {'a': None}), ("{b:2,a:1} (insertion order b,a)", {'b': 2, 'a': 1}), ("{c:1,b:2,a:3}", {'c': 1, 'b': 2, 'a': 3}),
            ("{c:3,b:2,a:1}", {'c': 3, 'b': 2, 'a': 1}), ('[1, 2, 3]', [1, 2, 3]), ('[1, 3]', [1, 3]), ("['a', 1]", ['a', 1]), ('[d1]', [D1]), ('[date equal to d2]', [D2b]), ('[d2]', [D2])]
    return rank, vals


def ref_value_compare(a, b, rank):
    def tname(v):
        if v is None:
            return 'null'
        if isinstance(v, bool):
            return 'boolean'
        if isinstance(v, (int, float)):
            return 'number'
        if isinstance(v, str):
            return 'string'
        if isinstance(v, list):
            return 'array'
        if isinstance(v, dict):
            return 'object'
        return {'datetime': 'datetime', 'date': 'datetime', 'function': 'function', 'regex': 'regex'}[v.args[2]]

    def sgn(x, y):
        return (x > y) - (x < y)
    if a is None or b is None:
        return 0 if (a is None and b is None) else (-1 if a is None else 1)
    ta, tb = tname(a), tname(b)
    if ta != tb:
        return sgn(ta, tb)
    if ta in ('boolean', 'number', 'string'):
        return sgn(a, b)
    if ta == 'datetime':
        return sgn(rank[a.args[0]], rank[b.args[0]])
    if ta == 'array':
        for x, y in zip(a, b):
            c = ref_value_compare(x, y, rank)
            if c:
                return c
        return sgn(len(a), len(b))
    if ta == 'object':
        ia, ib = sorted(a.items()), sorted(b.items())
        for (ka, va), (kb, vb) in zip(ia, ib):
            if ka != kb:
                return sgn(ka, kb)
            c = ref_value_compare(va, vb, rank)
            if c:
                return c
        return sgn(len(ia), len(ib))
    return 0


def run_value_compare(repo, rule='E6l'):
    """-> (n pairs, problems [(kind, message)])"""
    mod = repo.module('value')
    func = mod.funcs.get('value_compare')
    if func is None:
        raise Unrecognised(rule, 'value_compare not found', mod.rel)
    it = CompareInterp(repo, mod, rule)
    rank, vals = compare_values()
    it.rank = rank
    problems = []
    n = 0
    results = {}
    for da, a in vals:
        for db, b in vals:
            n += 1
            got = it.run(func, [_abs(a), _abs(b)])
            want = ref_value_compare(a, b, rank)
            if got[0] == 'raise':
                problems.append(('host', f'value_compare({da}, {db}) raises the host exception {got[1]}{got[2]!r}'))
                continue
            r = got[1]
            sg = (r > 0) - (r < 0) if isinstance(r, (int, float)) and not isinstance(r, bool) else None
            results[(da, db)] = sg
            if sg != want:
                problems.append(('order', f'value_compare({da}, {db}) = {r!r}; the total value order (null first, then by type name, natural order within a type, containers element-wise) gives {want}'))
    # antisymmetry on what was computed (independent of the reference)
    for (da, db), s in results.items():
        t = results.get((db, da))
        if s is not None and t is not None and s != -t:
            problems.append(('antisymmetry', f'value_compare({da}, {db}) = {s} but value_compare({db}, {da}) = {t}'))
    return n, problems


# ------------------------------------------------------------------------------------------------ sorting
class SortInterp(LibInterp):
    def call_value_hook(self, fn, args, e):
        if isinstance(fn, Sym) and fn.kind == 'hostfn':
            pair = args[0]
            if not (isinstance(pair, AList) and len(pair.l) == 2):
                raise Unrecognised(self.rule, f'comparison function called with {args[:1]!r}', self.mod.rel)
            a, b = self._rank(pair.l[0]), self._rank(pair.l[1])
            c = (a < b) - (a > b)        # descending
            self.n_host += 1
            return c * 0.5 if fn.args[0].endswith('frac') else float(c) if fn.args[0].endswith('float') else c
        return super().call_value_hook(fn, args, e)


def run_sort_functions(repo, libfuncs, rule='E6l'):
    """arraySort (default and custom comparison, int- and float-valued) and sort_data on small inputs -> (counts, problems)"""
    lib, dmod = repo.module('library'), repo.module('data')
    A, A2, B, C = val('a'), val('a2'), val('b'), val('c')
    rank = {'a': 1, 'a2': 1, 'b': 2, 'c': 3}
    pool = [A, B, None, C, A2]
    problems, counts = [], {}

    def rk(v):
        return -1 if v is None else rank[v.args[0]]
    lf = libfuncs.get('arraySort')
    if lf is None:
        raise Unrecognised(rule, 'arraySort is not registered', lib.rel)
    it = SortInterp(repo, lib, rule)
    it.rank = rank
    it.oracles['value_args_model'] = lambda args, node: args[0]
    seqs = [[]] + [list(p) for n in (1, 2, 3, 4) for p in itertools.permutations(pool, n)][:200]
    for seq in seqs:
        for mode in ('default', 'desc-int', 'desc-float', 'desc-frac'):
            counts['arraySort'] = counts.get('arraySort', 0) + 1
            it.n_host = 0
            arr = AList(list(seq))
            args = AList([arr] + ([] if mode == 'default' else [Sym('hostfn', mode)]))
            desc = f'arraySort({show_arg(seq)}' + ('' if mode == 'default' else f', <comparison function returning the reversed order as {mode.split("-")[1]}>') + ')'
            try:
                got = it.run(lf.func, [args, ADict({})])
            except HostOrdering as ho:
                problems.append(('arraySort', 'host', f'{desc}: script values are ordered / compared by a host operator or the native sort ({norm(ho.node)[:60] if ho.node is not None else "list.sort without the value comparison"})'))
                break
            if got[0] == 'raise':
                problems.append(('arraySort', 'host', f'{desc} raises {got[1]}{got[2]!r}'))
                continue
            want = sorted(seq, key=rk, reverse=(mode != 'default'))
            if mode != 'default':
                # stable descending: equal elements keep their original order
                want = sorted(seq, key=lambda v: -rk(v))
            res = got[1]
            if res is not arr:
                problems.append(('arraySort', 'result', f'{desc} does not return the array it sorted in place'))
            elif [id(x) for x in arr.l] != [id(x) for x in want]:
                problems.append(('arraySort', 'result', f'{desc} leaves {show_arg(arr.l)}; the stable sort under the comparison gives {show_arg(want)}'))
    if any(p[1] == 'host' for p in problems):
        pass
    # sort_data
    sd = dmod.funcs.get('sort_data')
    if sd is None:
        raise Unrecognised(rule, 'data.sort_data not found', dmod.rel)
    it2 = LibInterp(repo, dmod, rule)
    it2.rank = rank
    rows = [{'x': A, 'y': B, 'id': 0}, {'x': B, 'y': A, 'id': 1}, {'x': A2, 'y': C, 'id': 2}, {'x': None, 'y': A, 'id': 3}, {'y': B, 'id': 4}, {'x': B, 'y': A2, 'id': 5}]
    specs = [[['x']], [['x', True]], [['y'], ['x']], [['x', True], ['y']], [['x'], ['y', True]], []]
    import functools as _ft
    for spec in specs:
        for table in (rows, rows[::-1], rows[2:] + rows[:2], []):
            counts['sort_data'] = counts.get('sort_data', 0) + 1
            data = _abs(table)

            def cmp(r1, r2):
                for s_ in spec:
                    c = (rk(r1.get(s_[0])) > rk(r2.get(s_[0]))) - (rk(r1.get(s_[0])) < rk(r2.get(s_[0])))
                    if len(s_) > 1 and s_[1]:
                        c = -c
                    if c:
                        return c
                return 0
            want = [r['id'] for r in sorted(table, key=_ft.cmp_to_key(cmp))]
            desc = f'sort_data(<{len(table)} rows in order {[r["id"] for r in table]}>, {spec!r})'
            try:
                got = it2.run(sd, [data, _abs(spec)])
            except HostOrdering as ho:
                problems.append(('sort_data', 'host', f'{desc}: rows are ordered by a host comparison / the native sort instead of the value comparison'))
                break
            if got[0] == 'raise':
                problems.append(('sort_data', 'host', f'{desc} raises {got[1]}{got[2]!r}'))
                continue
            res = got[1]
            ids = [r.d.get('id') for r in (res.l if isinstance(res, AList) else [])]
            if ids != want:
                problems.append(('sort_data', 'result', f'{desc} gives rows {ids}; the stable sort by the keys (value comparison, reversed for descending keys) gives {want}'))
    return counts, problems


# ------------------------------------------------------------------------------------------------ datetimeNew
class DatetimeInterp(LibInterp):
    """calendar.monthrange / isleap and the datetime constructor are exact host models (integers only: a float raises TypeError like the host);
    a constructed datetime is the record ('datetime', y, m, d, h, mi, s, us)"""

    def host_function(self, name, args, e):
        import calendar as _cal
        import datetime as _dt
        if name in ('calendar.monthrange', 'calendar.isleap', 'calendar.leapdays') and all(isinstance(a, (int, float)) for a in args):
            if any(isinstance(a, float) or isinstance(a, bool) for a in args):
                raise RaiseSig('TypeError', ('integer argument expected, got float',), e)
            try:
                r = getattr(_cal, name.split('.')[1])(*args)
            except Exception as exc:
                raise RaiseSig(type(exc).__name__, (str(exc),), e)
            return tuple(r) if isinstance(r, tuple) else r
        if name in ('datetime.datetime', 'datetime.date') and all(isinstance(a, (int, float)) for a in args):
            if any(isinstance(a, float) for a in args):
                raise RaiseSig('TypeError', ("'float' object cannot be interpreted as an integer",), e)
            try:
                d = (_dt.datetime if name.endswith('datetime') else _dt.date)(*args)
            except Exception as exc:
                raise RaiseSig(type(exc).__name__, (str(exc),), e)
            if isinstance(d, _dt.datetime):
                return Sym('val', ('datetime', d.year, d.month, d.day, d.hour, d.minute, d.second, d.microsecond), True, 'datetime')
            return Sym('val', ('date', d.year, d.month, d.day), True, 'date')
        return super().host_function(name, args, e)


def ref_datetime_new(y, mo, d, h=0, mi=0, s=0, ms=0):
    """proleptic-Gregorian calendar arithmetic on the components (month overflow carries into the year, everything else is a duration from the 1st of the month)"""
    import datetime as _dt
    y2, mo2 = y + (mo - 1) // 12, (mo - 1) % 12 + 1
    total_ms = ((h * 60 + mi) * 60 + s) * 1000 + ms
    days, rem = divmod(total_ms, 86400000)
    ordinal = _dt.date(y2, mo2, 1).toordinal() + (d - 1) + days
    dd = _dt.date.fromordinal(ordinal)
    hh, rem = divmod(rem, 3600000)
    mm, rem = divmod(rem, 60000)
    ss, msec = divmod(rem, 1000)
    return ('datetime', dd.year, dd.month, dd.day, hh, mm, ss, msec * 1000)


def datetime_new_samples(tier='quick'):
    out = []
    months = [-13, -12, -1, 0, 1, 2, 3, 7, 12, 13, 14, 25]
    days = [-800, -366, -365, -31, -1, 0, 1, 28, 29, 30, 31, 32, 59, 60, 61, 365, 366, 367, 500, 731, 800, 1100]
    for y in (2023, 2024, 1900, 2000):
        for mo in months:
            for d in days:
                out.append((y, mo, d))
    for d in (-10000, 10000, -9999, 5000):
        for mo in (1, 3, 7, 12):
            out.append((2023, mo, d))
    must = []
    for y, mo, d in ((2097, 1, 1500), (1896, 3, 4000), (1899, 12, 1462), (2099, 1, -1500), (1896, 1, 1462), (2096, 2, 2000), (2101, 6, -3000), (1903, 3, -1462), (1999, 1, 1461), (1999, 1, 1462),
                     (2100, 3, -60), (2100, 1, 60), (1900, 2, 29), (2000, 2, 29 + 366), (1700, 1, 9000), (2200, 12, -9000)):
        must.append((y, mo, d))
    for date in ((2024, 2, 28), (2023, 12, 31), (2023, 1, 1)):
        for h in (-25, -24, -1, 0, 23, 24, 49):
            for mi in (-61, -1, 0, 59, 60):
                for s in (-1, 0, 59, 60, 3600):
                    for ms in (-1, 0, 999, 1000, 86400000, -1500):
                        out.append(date + (h, mi, s, ms))
    out += [(2024, 2, 28, 49), (2024, 12, 31, 23, 59, 60), (2024, 12, 31, 23, 59, 59, 1000), (2023, 3, 1, -1), (2023, 1, 1, 0, 0, -1), (2023, 1, 1, 0, 0, 0, -1)]
    if tier != 'thorough':
        out = out[::5] + out[-6:]
    return out + must


def run_datetime_new(repo, libfuncs, tier='quick', rule='E6l'):
    """datetimeNew on concrete component lists, each spelled with host ints and with floats -> (n runs, problems [(kind, message)])"""
    lf = libfuncs.get('datetimeNew')
    if lf is None:
        raise Unrecognised(rule, 'datetimeNew is not registered', None)
    it = DatetimeInterp(repo, lf.mod, rule)
    problems, n = [], 0
    for comp in datetime_new_samples(tier):
        try:
            want = ref_datetime_new(*comp)
        except (ValueError, OverflowError):
            continue
        for spell in (int, float):
            n += 1
            args = AList([spell(c) for c in comp])
            got = it.run(lf.func, [args, ADict({})])
            desc = f'datetimeNew({", ".join(repr(spell(c)) for c in comp)})'
            if got[0] == 'raise':
                problems.append(('raise' if spell is int else 'spelling', f'{desc} raises {got[1]}{tuple(got[2])!r}; calendar arithmetic gives {_fmt_dt(want)}'))
                continue
            r = got[1]
            if not (isinstance(r, Sym) and r.kind == 'val' and isinstance(r.args[0], tuple)):
                raise Unrecognised(rule, f'{desc} evaluates to {r!r}, not to a constructed datetime', lf.mod.rel)
            if r.args[0] != want:
                problems.append(('calendar' if spell is int else 'spelling', f'{desc} gives {_fmt_dt(r.args[0])}; proleptic-Gregorian calendar arithmetic on the components gives {_fmt_dt(want)}'))
    return n, problems


def _fmt_dt(t):
    if t[0] == 'date':
        return f'{t[1]:04d}-{t[2]:02d}-{t[3]:02d}'
    return f'{t[1]:04d}-{t[2]:02d}-{t[3]:02d}T{t[4]:02d}:{t[5]:02d}:{t[6]:02d}.{t[7] // 1000:03d}' + (f'(+{t[7] % 1000}us)' if t[7] % 1000 else '')


# ------------------------------------------------------------------------------------------------ dataParseCSV
class CsvInterp(LibInterp):
    """csv.reader / csv.DictReader are exact host models on concrete lines; validate_data (typing of the cells) is an oracle that leaves the rows as they are"""

    def __init__(self, repo, mod, rule='E6l'):
        super().__init__(repo, mod, rule)
        self.oracles['validate_data'] = lambda args, node: args[0]

    def host_function(self, name, args, e):
        import csv as _csv
        kwargs = dict(getattr(self, '_kwargs', None) or {})
        if name in ('csv.reader', 'csv.DictReader') and args:
            lines = self.iterate(args[0], e)
            if not all(isinstance(x, str) for x in lines):
                raise Unrecognised(self.rule, f'{name} applied to non-text lines', self.mod.rel)
            kw = {k: v for k, v in (kwargs or {}).items() if isinstance(v, (str, bool, int)) or v is None}
            extra = []
            if name == 'csv.DictReader' and len(args) > 1:
                extra = [self.iterate(args[1], e) if args[1] is not None else None]
            try:
                rows = list(getattr(_csv, name.split('.')[1])(lines, *extra, **kw))
            except Exception as exc:
                raise RaiseSig(type(exc).__name__, (str(exc),), e)
            return AIter([ADict({k: (AList(v) if isinstance(v, list) else v) for k, v in r.items()}) if isinstance(r, dict) else AList(r) for r in rows])
        return super().host_function(name, args, e)


def run_parse_csv(repo, libfuncs, rule='E6l'):
    """dataParseCSV on concrete texts with ragged rows -> (n, problems)"""
    lf = libfuncs.get('dataParseCSV')
    if lf is None:
        raise Unrecognised(rule, 'dataParseCSV is not registered', None)
    it = CsvInterp(repo, lf.mod, rule)
    cases = [
        (['a,b\n1,2\n3,4'], ['a', 'b'], [['1', '2'], ['3', '4']]),
        (['a,b\n1,2\n3,4,5'], ['a', 'b'], [['1', '2'], ['3', '4']]),
        (['a,b', '3,4,5,6\n7'], ['a', 'b'], [['3', '4'], ['7', None]]),
        (['a,b\r\n1\r\n'], ['a', 'b'], [['1', None]]),
        (['a, b', None, '"x,y", 2'], ['a', 'b'], [['x,y', '2']]),
        (['a\n'], ['a'], []),
    ]
    problems, n = [], 0
    for parts, header, rows in cases:
        n += 1
        desc = f'dataParseCSV({", ".join(repr(p) for p in parts)})'
        got = it.run(lf.func, [AList(list(parts)), ADict({})])
        if got[0] == 'raise':
            problems.append(('raise', f'{desc} raises {got[1]}{tuple(got[2])!r}'))
            continue
        res = got[1]
        if not isinstance(res, AList) or not all(isinstance(r, ADict) for r in res.l):
            raise Unrecognised(rule, f'{desc} evaluates to {res!r}', lf.mod.rel)
        for ix, r in enumerate(res.l):
            nonstr = [k for k in r.d if not isinstance(k, str)]
            if nonstr:
                problems.append(('key', f'{desc}: row {ix + 1} is an object with the non-string key {nonstr[0]!r} (the cells beyond the header): serialising or comparing it raises a host TypeError'))
        if any(p[1].startswith(desc) for p in problems):
            continue
        if len(res.l) != len(rows):
            problems.append(('rows', f'{desc} gives {len(res.l)} rows; the text has {len(rows)} data rows'))
            continue
        for ix, (r, want) in enumerate(zip(res.l, rows)):
            cells = [r.d.get(h) for h in header]
            if any(isinstance(c, Sym) for c in cells):
                raise Unrecognised(rule, f'{desc}: a cell is the unmodelled value {cells!r}', lf.mod.rel)
            if cells != want or set(r.d) - set(header):
                problems.append(('cells', f'{desc}: row {ix + 1} is {dict(r.d)!r}; the header {header} and the cells give {dict(zip(header, want))!r}'))
                break
    return n, problems


def run_csv_typing(repo, libfuncs, rule='E6l'):
    """typed tables written as CSV text (reference writer: host csv module, numbers as their printed text, booleans true / false, datetimes as ISO text, null as `null`)
    and read back with dataParseCSV - evaluated with validate_data and the value parsers, local zone UTC -> (n cells, problems)"""
    import csv as _csv
    import io as _io
    import datetime as _dt
    from .hostdt import DatetimeMixin, HDate
    lf = libfuncs.get('dataParseCSV')
    if lf is None:
        raise Unrecognised(rule, 'dataParseCSV is not registered', None)

    class It(DatetimeMixin, CsvInterp):
        pass
    it = It(repo, lf.mod, rule)
    it.oracles.pop('validate_data', None)
    it.oracles.pop('value_compare', None)
    it.local_tz = _dt.timezone.utc
    it.max_depth = 30
    D = _dt.datetime
    tables = [
        (['n', 'b', 'd', 's', 'm'],
         [[1, True, D(2024, 3, 5, 10, 20, 30), 'abc', '2024-02-30'], [2.5, False, D(2024, 3, 5), 'a,b', 'x'], [None, None, None, 'say "hi"', None], [-3, True, D(1999, 12, 31, 23, 59, 59, 999000), 'x y', '2024-13-01'],
          [1e21, False, D(2024, 2, 29, 0, 0, 0, 5000), 'line one', '12:30'], [0.125, None, D(2023, 1, 1), 'tr ue', 'abc']]),
        (['k', 'v'], [['a', 10], ['b', None], ['c', 12.75], ['d', -0.5]]),
        (['flag', 'when', 'note'], [[None, None, 'first'], [True, D(2020, 2, 29, 12), '2020-02-30T10:00:00Z'], [False, D(2021, 6, 1), 'true story']]),
        (['s'], [['2024-02-30'], ['2024-02-28x'], ['x']]),
        # the first value of a column decides its type: zero, false and the first instant of a day are values like any other
        (['z', 'f', 'e'], [[0, False, D(1970, 1, 1)], [5, True, D(2000, 1, 1, 0, 0, 0)], [-0.5, None, None]]),
        (['z'], [[0.0], [None], [0]]),
    ]

    def cell(v):
        if v is None:
            return 'null'
        if v is True:
            return 'true'
        if v is False:
            return 'false'
        if isinstance(v, _dt.datetime):
            return v.strftime('%Y-%m-%dT%H:%M:%S.') + f'{v.microsecond // 1000:03d}+00:00'
        if isinstance(v, (int, float)):
            return str(int(v)) if float(v).is_integer() and abs(v) < 1e15 else repr(float(v))
        return v
    problems, n = [], 0
    for header, rows in tables:
        buf = _io.StringIO()
        w = _csv.writer(buf, lineterminator='\n')
        w.writerow(header)
        for r in rows:
            w.writerow([cell(v) for v in r])
        text = buf.getvalue()
        desc = f'dataParseCSV({text!r})'
        got = it.run(lf.func, [AList([text]), ADict({})])
        if got[0] == 'raise':
            problems.append(('raise', f'{desc} raises {got[1]}{tuple(got[2])[:1]!r}; the text is a typed table written as CSV'))
            continue
        res = got[1]
        if res is None:
            problems.append(('null', f'{desc} gives null; the text is a typed table written as CSV'))
            continue
        if not isinstance(res, AList) or not all(isinstance(r, ADict) for r in res.l):
            raise Unrecognised(rule, f'{desc} evaluates to {res!r}', lf.mod.rel)
        if len(res.l) != len(rows):
            problems.append(('rows', f'{desc} gives {len(res.l)} rows, the table has {len(rows)}'))
            continue
        for ix, (r, want) in enumerate(zip(res.l, rows)):
            for h, wv in zip(header, want):
                n += 1
                gv = r.d.get(h)
                if isinstance(gv, Sym):
                    raise Unrecognised(rule, f'{desc}: the cell {h} of row {ix + 1} is the unmodelled value {gv!r}', lf.mod.rel)
                if isinstance(wv, _dt.datetime):
                    ok = isinstance(gv, HDate) and isinstance(gv.v, _dt.datetime) and gv.v.replace(tzinfo=None) == wv and gv.v.tzinfo is None
                elif isinstance(wv, bool) or wv is None:
                    ok = gv is wv
                elif isinstance(wv, (int, float)):
                    ok = isinstance(gv, (int, float)) and not isinstance(gv, bool) and gv == wv
                else:
                    ok = isinstance(gv, str) and gv == wv
                if not ok:
                    shown = gv.v if isinstance(gv, HDate) else gv
                    problems.append(('typing', f'a typed table written as CSV and read back: the cell {h} of row {ix + 1} ({cell(wv)!r} in the text) comes back as {shown!r}, the table holds {wv!r}'))
    return n, problems


# ------------------------------------------------------------------------------------------------ JSON
class JsonMixin:
    """json.loads and the encode() of a json.JSONEncoder subclass instance are exact host models on concrete JSON values (the subclass's default() is never reached by them)"""

    def _encoder_kwargs(self, inst):
        cls = inst.args[0]
        if cls == 'json.JSONEncoder':
            if inst.args[1]:
                raise Unrecognised(self.rule, 'json.JSONEncoder constructed with positional arguments', self.mod.rel)
            return dict(inst.args[2]) if len(inst.args) > 2 else {}
        for nm in self.repo.all_module_names():
            try:
                m = self.repo.module(nm)
            except Exception:
                continue
            for c in m.tree.body:
                if isinstance(c, ast.ClassDef) and c.name == cls:
                    if not any('JSONEncoder' in norm(b) for b in c.bases):
                        return None
                    if any(isinstance(x, ast.FunctionDef) and x.name in ('encode', 'iterencode', '__init__') for x in c.body):
                        raise Unrecognised(self.rule, f'{cls} overrides encode / iterencode / __init__', m.rel)
                    if inst.args[1]:
                        raise Unrecognised(self.rule, f'{cls} constructed with positional arguments', m.rel)
                    return dict(inst.args[2]) if len(inst.args) > 2 else {}
        return None

    def method_hook(self, base, m, args, e):
        if isinstance(base, Sym) and base.kind == 'instance' and m == 'encode' and len(args) == 1:
            kw = self._encoder_kwargs(base)
            if kw is not None:
                import json as _json
                kw = {k: (tuple(v) if isinstance(v, (list, tuple)) else v) for k, v in kw.items()}
                v = reify(args[0])
                if not _is_json_value(v):
                    raise Unrecognised(self.rule, f'encode() of the non-JSON value {v!r}', self.mod.rel)
                try:
                    return _json.JSONEncoder(**kw).encode(v)
                except (ValueError, TypeError) as exc:
                    raise RaiseSig(type(exc).__name__, (str(exc),), e)
        return super().method_hook(base, m, args, e)

    def host_function(self, name, args, e):
        if name == 'json.loads' and len(args) == 1 and isinstance(args[0], str):
            import json as _json
            kw = dict(getattr(self, '_kwargs', None) or {})
            self._kwargs = {}
            hooks = {}
            for k, fn in kw.items():
                if k in ('parse_int', 'parse_float', 'parse_constant') and fn is not None:
                    hooks[k] = (lambda f: (lambda text: self.apply(f, [text], e)))(fn)
                elif k in ('object_hook',) and fn is not None:
                    hooks[k] = (lambda f: (lambda d: self.apply(f, [_abs(d) if not isinstance(d, ADict) else d], e)))(fn)
                elif fn is not None:
                    raise Unrecognised(self.rule, f'json.loads called with the keyword {k}, which has no host model', self.mod.rel)
            try:
                return _abs(_json.loads(args[0], **hooks))
            except ValueError as exc:
                raise RaiseSig('ValueError', (str(exc)[:60],), e)
            except RecursionError:
                raise RaiseSig('RecursionError', ('json nesting',), e)
        if name == 'json.JSONEncoder':
            return Sym('instance', 'json.JSONEncoder', tuple(args), tuple(sorted((getattr(self, '_kwargs', None) or {}).items(), key=lambda kv: kv[0])))
        if name == 'json.dumps' and args:
            import json as _json
            kw = {k: (tuple(v) if isinstance(v, (list, tuple)) else v) for k, v in (getattr(self, '_kwargs', None) or {}).items()}
            try:
                return _json.dumps(reify(args[0]), **kw)
            except (ValueError, TypeError) as exc:
                raise RaiseSig(type(exc).__name__, (str(exc),), e)
        return super().host_function(name, args, e)


class JsonInterp(JsonMixin, LibInterp):
    pass


def _is_json_value(v):
    if v is None or isinstance(v, (bool, int, float, str)):
        return True
    if isinstance(v, list):
        return all(_is_json_value(x) for x in v)
    if isinstance(v, dict):
        return all(isinstance(k, str) and _is_json_value(x) for k, x in v.items())
    return False


def json_samples(tier='quick'):
    strings = ['', 'a', '1.0', '1.0,', 'x.0]', '.0}', '0.0 ', 'a\n', '\n', 'a\nb', 'tab\there', 'q"uote', 'back\\slash', 'end\\', '"', '\\"', '\\\\', '1.0,\n', '1.0,\\', ',]', ',}', ', ]', 'a,]b',
               '",]', '",}', 'a\\",]', 'x",] y', '"],[', '\\",}',
               '/', '</script>', '\x00\x1f', '\x7f', 'é', '\u2028', '\U0001F600', ' ', '{"a":1.0}', '[1.0, 2.0]', 'C:\\tmp\\']
    if tier == 'thorough':
        import itertools as _it
        strings += [''.join(p) for n in (2, 3) for p in _it.product('a.0,]}"\\\n', repeat=n)][::7]
    numbers = [0, 1, -1, 1.0, -1.0, 10.0, 100.0, 1.5, -2.25, 0.1, 1e20, 1.5e20, 1e-7, 1e21, 123456789.0, 1e15, -1e15, 1e16, -1e16, -1.5e16, 1e17, -1e17, -1e20, 2.0 ** 53, 2.0 ** 63, -2.0 ** 63,
               9007199254740993, -(10 ** 17)]
    vals = [None, True, False] + numbers + strings
    vals += [[], {}, [1.0], [1.0, 2.5, 'a', None, True], {'a': 1.0}, {'b': 1, 'a': 2}, {'b': {'d': 1.0, 'c': [2.0, {'z': 0, 'y': 1}]}, 'a': [1.0, [2.0, [3.0]]]},
             ['1.0', 1.0, '1.0'], {'1.0': 1.0, 'k.0]': [10.0]}, [[], {}, [[]], {'a': {}}], {',]': 1, ']': 2}, {'a\n': 'b\n'}, ['C:\\tmp\\', 3.0, 'x'], {'p': 'C:\\', 'size': 3.0, 'q': 's'},
             [1e20, 1.0, '1e20'], {'': ''}, ['end\\', 1.0, 'next'], ['1.0,\n', 2.0]]
    vals += [[s_] for s_ in strings[:12]] + [{s_: s_} for s_ in strings[:12]]
    # line-separator-like characters next to an integral float; strings with an odd number of quotes before a number; a backslash-ending string before a string with .0
    vals += [['a\u2028b', 1.0], {'k\u0085': 2.0, 'z': 'p\u2029q'}, ['say "hi', 1.0, 'x'], {'q"': 3.0, 'r': 4.0}, ['a\\', 'x.0,y'], ['b\\', 'x.0', 5.0], {'a\\': 'k.0}', 'b': 1.0},
             ['\x0c', 2.0], ['\r', 3.0, '\n'], [-1e16, -1e15], [1e16, 1e15]]
    return vals


def run_json_roundtrip(repo, libfuncs, tier='quick', rule='E6l'):
    """jsonStringify (no indent, indent 2 spelled int, indent 3 spelled float) and jsonParse evaluated on concrete JSON values -> (n, problems [(kind, message)])"""
    import json as _json
    import re as _re
    st, pa = libfuncs.get('jsonStringify'), libfuncs.get('jsonParse')
    if st is None or pa is None:
        raise Unrecognised(rule, 'jsonStringify / jsonParse not registered', None)
    it = JsonInterp(repo, st.mod, rule)
    problems, n = [], 0
    number_token = _re.compile(r'"(?:\\.|[^"\\])*"|(-?\d+\.0+)(?![\deE])')
    texts = {}
    for v in json_samples(tier):
        for indent in (None, 2, 3.0):
            n += 1
            desc = f'jsonStringify({v!r}' + (f', {indent!r})' if indent is not None else ')')
            got = it.run(st.func, [AList([_abs(v)] + ([indent] if indent is not None else [])), ADict({})])
            if got[0] == 'raise':
                problems.append(('raise', f'{desc} raises {got[1]}{tuple(got[2])!r}'))
                continue
            text = got[1]
            if not isinstance(text, str):
                raise Unrecognised(rule, f'{desc} evaluates to {text!r}', st.mod.rel)
            try:
                pairs_ok = [True]

                def hook(pairs):
                    keys = [k for k, _v in pairs]
                    if keys != sorted(keys):
                        pairs_ok[0] = False
                    return dict(pairs)
                back = _json.loads(text, object_pairs_hook=hook)
            except ValueError:
                problems.append(('invalid', f'{desc} gives {text!r}, which is not valid JSON'))
                continue
            if not _json_equal(back, v):
                problems.append(('altered', f'{desc} gives {text!r}, which denotes {back!r}'))
                continue
            if not pairs_ok[0]:
                problems.append(('order', f'{desc} gives {text!r}: object keys are not in sorted order'))
            if any(m.group(1) for m in number_token.finditer(text)):
                problems.append(('fraction', f'{desc} gives {text!r}: an integral number is written with a fraction'))
            if indent is None:
                other = texts.setdefault(text, v)
                if not _json_equal(other, v) :
                    problems.append(('collision', f'{desc} and jsonStringify({other!r}) give the same text {text!r}'))
            # and back through jsonParse
            n += 1
            got2 = it.run(pa.func, [AList([text]), ADict({})])
            if got2[0] == 'raise':
                problems.append(('parse', f'jsonParse({text!r}) raises {got2[1]}{tuple(got2[2])!r}'))
            elif not _json_equal(reify(got2[1]), v):
                problems.append(('parse', f'jsonParse({desc}) gives {reify(got2[1])!r}, not the value'))
    # the same container reachable twice (no cycle): serialised at every occurrence
    def shared():
        p = ADict({'a': 1.0, 'b': AList([2.0])})
        q = AList([1.0, 'x'])
        return [(AList([p, p]), [{'a': 1.0, 'b': [2.0]}] * 2), (ADict({'x': q, 'y': q, 'z': AList([q, q])}), {'x': [1.0, 'x'], 'y': [1.0, 'x'], 'z': [[1.0, 'x'], [1.0, 'x']]}),
                (AList([q, AList([q]), ADict({'k': q})]), [[1.0, 'x'], [[1.0, 'x']], {'k': [1.0, 'x']}])]
    for indent in (None, 2):
        for av, pv in shared():
            n += 1
            got = it.run(st.func, [AList([av] + ([indent] if indent is not None else [])), ADict({})])
            desc = f'jsonStringify of a value in which one container occurs several times ({pv!r})'
            if got[0] == 'raise':
                problems.append(('raise', f'{desc} raises {got[1]}{tuple(got[2])!r}'))
                continue
            if not isinstance(got[1], str):
                raise Unrecognised(rule, f'{desc} evaluates to {got[1]!r}', st.mod.rel)
            try:
                back = _json.loads(got[1])
            except ValueError:
                problems.append(('invalid', f'{desc} gives {got[1]!r}, which is not valid JSON'))
                continue
            if not _json_equal(back, pv):
                problems.append(('altered', f'{desc} gives {got[1]!r}, which denotes {back!r}'))
    return n, problems


def _json_equal(a, b):
    if isinstance(a, bool) or isinstance(b, bool) or a is None or b is None:
        return a is b
    if isinstance(a, (int, float)) and isinstance(b, (int, float)):
        return a == b
    if isinstance(a, list) and isinstance(b, list):
        return len(a) == len(b) and all(_json_equal(x, y) for x, y in zip(a, b))
    if isinstance(a, dict) and isinstance(b, dict):
        return set(a) == set(b) and all(_json_equal(a[k], b[k]) for k in a)
    return type(a) is type(b) and a == b


# ------------------------------------------------------------------------------------------------ statement accounting of the expression helpers in data.py
class CountingDataInterp(DataInterp):
    """evaluate_expression is an oracle that behaves like a script callback: it counts one statement on the options object it is given, records that object,
    and raises the statement-limit error on the configured call"""

    def __init__(self, repo, mod, rule='E6l'):
        super().__init__(repo, mod, rule)
        self.seen_options = []
        self.fail_at = None
        self.oracles['evaluate_expression'] = self._count_eval

    def _count_eval(self, args, node):
        self.n_eval += 1
        opts = args[1] if len(args) > 1 else None
        self.seen_options.append(opts)
        if isinstance(opts, ADict):
            opts.d['statementCount'] = opts.d.get('statementCount', 0) + 1
        if self.fail_at is not None and self.n_eval == self.fail_at:
            raise RaiseSig('BareScriptRuntimeError', ('Exceeded maximum script statements',), node)
        e = args[0]
        if isinstance(e, Sym) and e.kind == 'expr' and len(args) > 2 and isinstance(args[2], ADict):
            return args[2].d.get(e.args[0], True)
        return True


def run_data_accounting(repo, rule='E6l'):
    """filter_data / add_calculated_field / join_data with and without a variables object, completing and aborted by the statement limit:
    the run's options object must afterwards carry start + (number of expression evaluations) -> (n, problems [(function, message)])"""
    mod = repo.module('data')
    problems, n = [], 0
    rows = [{'a': 1.0, 'b': 2.0}, {'a': 2.0, 'b': 3.0}, {'a': 1.0, 'b': 4.0}]
    calls = {
        'filter_data': lambda data, variables, options: [data, 'a', variables, options],
        'add_calculated_field': lambda data, variables, options: [data, 'c', 'b', variables, options],
        'join_data': lambda data, variables, options: [data, _abs([{'a': 1.0, 'z': 9.0}, {'a': 2.0, 'z': 8.0}]), 'a', None, False, variables, options],
    }
    for fname, mk in calls.items():
        func = mod.funcs.get(fname)
        if func is None:
            raise Unrecognised(rule, f'data.{fname} not found', mod.rel)
        params = [a.arg for a in func.args.args]
        if 'options' not in params or 'variables' not in params:
            raise Unrecognised(rule, f'data.{fname} has no variables / options parameters', mod.rel)
        for variables in (None, {'v': 1.0}):
            for fail_at in (None, 1, 2):
                for has_globals in (True, False):
                    n += 1
                    it = CountingDataInterp(repo, mod, rule)
                    it.fail_at = fail_at
                    G = ADict({'g': 0.0})
                    options = ADict(dict({'statementCount': 5, 'maxStatements': 100}, **({'globals': G} if has_globals else {})))
                    args = mk(_abs(rows), _abs(variables) if variables is not None else None, options)
                    # bind positionally in the order of the function's parameters (keyword-free call of the documented signature)
                    got = it.run(func, args)
                    desc = f'{fname}(... variables={"{v: 1}" if variables else "null"}, options{" with globals" if has_globals else ""})' + \
                        (f', the statement limit hit on evaluation {fail_at}' if fail_at else '')
                    if fail_at and not (got[0] == 'raise' and got[1] == 'BareScriptRuntimeError'):
                        problems.append((fname, f'{desc}: the statement-limit error does not leave the function (outcome {got[:2]!r}): the run continues beyond the limit'))
                        continue
                    if not fail_at and got[0] == 'raise':
                        problems.append((fname, f'{desc} raises {got[1]}'))
                        continue
                    want = 5 + it.n_eval
                    odd = [o for o in it.seen_options if o is not None and not isinstance(o, ADict)]
                    if odd:
                        raise Unrecognised(rule, f'{desc}: the expression evaluator receives the unmodelled options value {odd[0]!r}', mod.rel)
                    if options.d.get('statementCount') != want:
                        problems.append((fname, f'{desc}: the run\'s options carry statementCount {options.d.get("statementCount")!r} afterwards; 5 before the call + {it.n_eval} expression '
                                                f'evaluations = {want} (statements executed inside data expressions are not counted against the limit)'))
                        continue
                    for o in it.seen_options:
                        if not isinstance(o, ADict):
                            problems.append((fname, f'{desc}: an expression is evaluated with options {o!r}'))
                            break
                        if o is not options:
                            if variables is None:
                                problems.append((fname, f'{desc}: an expression is evaluated with another options object although no variables were given'))
                                break
                            if o.d.get('maxStatements') != 100:
                                problems.append((fname, f'{desc}: the options copy for the expressions loses maxStatements'))
                                break
                            g = o.d.get('globals')
                            if not isinstance(g, ADict) or g.d.get('v') != 1.0 or (has_globals and g.d.get('g') != 0.0):
                                problems.append((fname, f'{desc}: the expressions do not see the variables merged over the globals ({g!r})'))
                                break
                        elif variables is not None:
                            problems.append((fname, f'{desc}: the variables are not visible to the expressions (evaluated with the run\'s own options)'))
                            break
                    if has_globals and (G.d != {'g': 0.0} or options.d.get('globals') is not G):
                        problems.append((fname, f'{desc}: the run\'s globals object is modified / replaced ({options.d.get("globals")!r})'))
    # a history: the same variables object and the same options through several calls with other statements counted in between
    for fname, mk in calls.items():
        func = mod.funcs.get(fname)
        n += 1
        it = CountingDataInterp(repo, mod, rule)
        G = ADict({'g': 0.0})
        options = ADict({'statementCount': 5, 'maxStatements': 1000, 'globals': G})
        variables = _abs({'v': 1.0})
        total = 5
        ok = True
        for step in range(3):
            before = it.n_eval
            got = it.run(func, mk(_abs(rows), variables, options))
            if got[0] == 'raise':
                problems.append((fname, f'{fname} called {step + 1} times with the same variables object raises {got[1]}'))
                ok = False
                break
            total += it.n_eval - before
            if options.d.get('statementCount') != total:
                problems.append((fname, f'{fname} called {step + 1} times with the same variables object and options (other statements counted in between): the run\'s options carry '
                                        f'statementCount {options.d.get("statementCount")!r} after call {step + 1}; statements before + expression evaluations = {total}'))
                ok = False
                break
            options.d['statementCount'] += 2          # two other statements of the run
            total += 2
        if ok and set(options.d) - {'statementCount', 'maxStatements', 'globals'}:
            problems.append((fname, f'{fname} leaves new members in the run\'s options: {sorted(set(options.d) - {"statementCount", "maxStatements", "globals"})}'))
    return n, problems
