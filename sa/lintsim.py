"""E6n: model.lint_script evaluated by the abstract interpreter on concrete script models.

Models: hand-built jump-level models (user labels, duplicate labels, dangling jumps, duplicate functions / arguments, names equal to the schema's member
names), structured programs lowered by the repository's own parse_script (evaluated, sa/parsesim.py, with expression models from sa/barefront.py) and
the shipped .bare include scripts.  Each model is linted twice, with the two iteration orders of unordered host collections (ASet): a difference is
hash-order dependence.  Decided: never raises, does not modify the model, same warnings on a second call and under both set orders, label / function /
argument warnings equal the definitions of the property (reference below, written from the property text), structured programs and shipped includes get
no label warning, shipped includes no warning at all.
"""
import re

from .core import Unrecognised
from .absint import Interp, Sym, ADict, AList, RaiseSig, reify
from . import barefront


def expr_model(e):
    """barefront expression tree -> expression model of the BareScript schema"""
    k = e[0]
    if k == 'num':
        return {'number': float(e[1])}
    if k == 'str':
        return {'string': e[1]}
    if k == 'var':
        return {'variable': e[1]}
    if k == 'call':
        out = {'name': e[1]}
        if e[2]:
            out['args'] = [expr_model(a) for a in e[2]]
        return {'function': out}
    if k == 'bin':
        return {'binary': {'op': e[1], 'left': expr_model(e[2]), 'right': expr_model(e[3])}}
    if k == 'un':
        return {'unary': {'op': e[1], 'expr': expr_model(e[2])}}
    return {'group': expr_model(e[1])}


def _abs(v):
    if isinstance(v, dict):
        return ADict({k: _abs(x) for k, x in v.items()})
    if isinstance(v, (list, tuple)):
        return AList([_abs(x) for x in v])
    return v


class ModelParseInterp(Interp):
    """parse_script evaluated on concrete text; parse_expression answered with the expression model of the independent front-end"""

    def __init__(self, repo, mod, rule='E6n'):
        super().__init__(mod, rule)
        self.repo = repo
        self.max_depth = 12
        self.concrete_asserts = True
        self.oracles['parse_expression'] = self._pe

    def _pe(self, args, node):
        try:
            return _abs(expr_model(barefront.parse_expr(args[0], 0)))
        except barefront.BareSyntaxError:
            raise RaiseSig('BareScriptParserError', ('Syntax error', args[0], 1), node)

    def parse(self, func, text):
        self.depth = 0
        try:
            return reify(self.call_function(func, [text], func))
        except RaiseSig as sig:
            raise Unrecognised(self.rule, f'parse_script rejects a shipped / sample script: {sig.cls}{tuple(sig.args_)[:2]!r}'[:200], self.mod.rel)


class LintInterp(Interp):
    def __init__(self, repo, mod, rule='E6n'):
        super().__init__(mod, rule)
        self.repo = repo
        self.max_depth = 60
        self.concrete_asserts = True
        self.set_order = 'asc'

    def lint(self, func, model, order='asc'):
        """-> ('ok', [warnings]) | ('raise', cls, args)"""
        self.depth = 0
        self.set_order = order
        try:
            v = self.call_function(func, [model], func)
        except RaiseSig as sig:
            return ('raise', sig.cls, tuple(sig.args_))
        out = reify(v)
        if not isinstance(out, list) or not all(isinstance(w, str) for w in out):
            raise Unrecognised(self.rule, f'lint_script evaluates to {out!r}'[:160], self.mod.rel)
        return ('ok', out)


# ------------------------------------------------------------------------------------------------ reference (from the property text)
def _scopes(model):
    yield None, model['statements']
    for st in model['statements']:
        if 'function' in st:
            yield st['function']['name'], st['function']['statements']


def _uses(expr, out):
    k, v = next(iter(expr.items()))
    if k == 'variable':
        out.add(v)
    elif k == 'binary':
        _uses(v['left'], out)
        _uses(v['right'], out)
    elif k == 'unary':
        _uses(v['expr'], out)
    elif k == 'group':
        _uses(v, out)
    elif k == 'function':
        out.add(v['name'])
        for a in v.get('args', []):
            _uses(a, out)


def reference_facts(model):
    """set of (category, scope, name) the property defines exactly"""
    facts = set()
    fnames = []
    for st in model['statements']:
        if 'function' in st:
            fnames.append(st['function']['name'])
    for nm in set(fnames):
        if fnames.count(nm) > 1:
            facts.add(('function-redefinition', None, nm))
    for scope, stmts in _scopes(model):
        defined, used = [], set()
        for st in stmts:
            if 'label' in st:
                defined.append(st['label'])
            elif 'jump' in st:
                used.add(st['jump']['label'])
        for nm in set(defined):
            if defined.count(nm) > 1:
                facts.add(('label-redefinition', scope, nm))
            if nm not in used:
                facts.add(('unused-label', scope, nm))
        for nm in used - set(defined):
            facts.add(('unknown-label', scope, nm))
    for st in model['statements']:
        if 'function' in st:
            f = st['function']
            args = f.get('args', [])
            for a in set(args):
                if args.count(a) > 1:
                    facts.add(('duplicate-argument', f['name'], a))
            uses = set()
            assigned = []
            for s in f['statements']:
                if 'expr' in s:
                    if 'name' in s['expr']:
                        assigned.append(s['expr']['name'])
                    _uses(s['expr']['expr'], uses)
                elif 'jump' in s and 'expr' in s['jump']:
                    _uses(s['jump']['expr'], uses)
                elif 'return' in s and 'expr' in s['return']:
                    _uses(s['return']['expr'], uses)
            for a in set(args):
                if a not in uses:
                    facts.add(('unused-argument', f['name'], a))
            for ix, s in enumerate(f['statements']):
                if 'expr' in s and 'name' not in s['expr'] and not _has_call(s['expr']['expr']):
                    facts.add(('pointless', f['name'], ix))
            for v in set(assigned):
                if v not in uses:
                    facts.add(('unused-variable', f['name'], v))
    for ix, s in enumerate(model['statements']):
        if 'expr' in s and 'name' not in s['expr'] and not _has_call(s['expr']['expr']):
            facts.add(('pointless', None, ix))
    return facts


def _has_call(expr):
    k, v = next(iter(expr.items()))
    if k == 'function':
        return True
    if k == 'binary':
        return _has_call(v['left']) or _has_call(v['right'])
    if k == 'unary':
        return _has_call(v['expr'])
    if k == 'group':
        return _has_call(v)
    return False


EXACT = ('unknown-label', 'label-redefinition', 'function-redefinition', 'duplicate-argument')


_QUOTED = re.compile(r'"([^"]*)"')


def classify_warning(w):
    """warning text -> (category, scope, name) for the categories the property defines exactly; ('other', text) for the remaining kinds; None if not understood"""
    low = w.lower()
    names = _QUOTED.findall(w)
    in_fn = re.search(r'(?:in|of) function "([^"]*)"', w)
    scope = in_fn.group(1) if in_fn else None
    if 'label' in low and names:
        cat = 'unknown-label' if 'unknown' in low else 'unused-label' if 'unused' in low else 'label-redefinition' if ('redefin' in low or 'duplicate' in low) else None
        if cat:
            return (cat, scope, names[0])
        return None
    if ('redefin' in low or 'duplicate' in low) and 'function' in low and 'argument' not in low and names:
        return ('function-redefinition', None, names[0])
    if 'argument' in low and names and scope is not None:
        cat = 'duplicate-argument' if ('duplicate' in low or 'redefin' in low) else 'unused-argument' if 'unused' in low else None
        if cat:
            return (cat, scope, names[0])
        return None
    if 'unused' in low and 'variable' in low and names and scope is not None:
        return ('unused-variable', scope, names[0])
    if 'pointless' in low:
        ix = re.search(r'index (\d+)', w)
        if ix:
            return ('pointless', scope, int(ix.group(1)))
        return None
    if 'before assignment' in low or 'empty script' in low:
        return ('other', w)
    return None


# ------------------------------------------------------------------------------------------------ models
def V(n):
    return {'variable': n}


def E(expr, name=None):
    return {'expr': dict({'expr': expr}, **({'name': name} if name is not None else {}))}


def J(label, expr=None):
    return {'jump': dict({'label': label}, **({'expr': expr} if expr else {}))}


def L(name):
    return {'label': name}


def FN(name, args, stmts):
    return {'function': dict({'name': name, 'statements': stmts}, **({'args': args} if args is not None else {}))}


def CALL(name, *args):
    return {'function': dict({'name': name}, **({'args': list(args)} if args else {}))}


def jump_models():
    return {
        'global labels: used, unknown target, redefinition, unused': {'statements': [
            L('A'), J('A'), J('B', V('x')), L('A'), L('C'), E({'number': 1.0}, 'x'), {'return': {'expr': V('x')}}]},
        'labels spelled like the parser\'s generated ones (hand-written or damaged models): unknown target, redefinition, unused - globally and in a function': {'statements': [
            L('__bareScriptLoop0'), J('__bareScriptLoop0', V('x')), J('__bareScriptDone0'), L('__bareScriptLoop0'), L('__bareScriptIf7'), E({'number': 1.0}, 'x'),
            FN('h', ['n'], [J('__bareScriptDone3', V('n')), L('__bareScriptLoop2'), L('__bareScriptLoop2'), J('__bareScriptLoop2'), L('__bareScriptEnd9'), {'return': {'expr': V('n')}}]),
            E(CALL('h', V('x')))]},
        'bare call statements of library-named functions with constant arguments (a script may bind such a name to a function with effects): calls are never pointless': {'statements': [
            FN('stringUpper', ['s'], [E(CALL('systemLog', V('s'))), E(CALL('stringTrim', {'string': ' a '})), E(CALL('arrayLength', {'number': 1.0})), {'return': {'expr': V('s')}}]),
            E(CALL('stringUpper', {'string': 'x'})), E(CALL('stringLength', {'string': 'abc'})), E(CALL('mathAbs', {'number': 2.0})), E(CALL('objectNew')),
            E(CALL('stringNew', {'binary': {'op': '+', 'left': {'number': 1.0}, 'right': {'number': 2.0}}}))]},
        'function scope: labels, duplicate / unused arguments, unused variable, redefined function': {'statements': [
            L('G'), J('G'),
            FN('f', ['a', 'a', 'b'], [L('L'), J('L'), J('M'), L('L'), L('U'), E({'number': 1.0}, 'x'), E(CALL('g', V('a')))]),
            FN('f', None, [{'return': {}}]),
            FN('g', [], [J('G')]),
            E(CALL('f'))]},
        'two functions: the first with structured control flow labels, the second plain': {'statements': [
            FN('first', ['n'], [J('__bareScriptDone0', {'unary': {'op': '!', 'expr': V('n')}}), E(CALL('log', V('n'))), L('__bareScriptDone0'),
                                L('__bareScriptLoop1'), J('__bareScriptDone1', V('n')), J('__bareScriptLoop1'), L('__bareScriptDone1')]),
            FN('second', ['m'], [{'return': {'expr': V('m')}}]),
            FN('third', None, [J('__bareScriptDone0', V('q')), L('__bareScriptDone0')]),
            E(CALL('first', {'number': 1.0})), E(CALL('second', {'number': 1.0})), E(CALL('third'))]},
        'names equal to schema member names (expr, label, jump, name, args, statements, function, return, include)': {'statements': [
            L('expr'), J('expr'), L('label'), J('label', V('jump')), L('exprLoop'), J('exprLoop'), L('retry_expr_1'), J('name'),
            FN('function', ['expr', 'label', 'args', 'statements'], [L('expr'), J('expr', V('label')), L('name'), J('jump'), L('expression'), J('expression'),
                                                                   E({'binary': {'op': '+', 'left': V('expr'), 'right': V('args')}}, 'return'), {'return': {'expr': V('return')}}]),
            E(CALL('function', V('include')), 'jump')]},
        'several dangling jumps in one scope': {'statements': [
            J('zeta'), J('alpha'), J('mid'), J('beta', V('c')), FN('h', None, [J('y2'), J('x1'), J('z3'), J('w0')]), E(CALL('h'))]},
        'label first in its scope, jumps backwards': {'statements': [
            L('top'), E({'binary': {'op': '+', 'left': V('i'), 'right': {'number': 1.0}}}, 'i'), J('top', V('more')), FN('k', None, [L('again'), J('again', V('go'))]), E(CALL('k'))]},
        'empty function bodies and an include': {'statements': [
            {'include': {'includes': [{'url': 'a.bare'}, {'url': 'b.bare', 'system': True}]}}, FN('e1', None, []), FN('e2', ['p'], []), E(CALL('e1')), E(CALL('e2', V('p0')))]},
        'expression statements: call-free and with calls at every position': {'statements': [
            E(V('x')), E({'binary': {'op': '+', 'left': CALL('f'), 'right': V('x')}}), E({'binary': {'op': '+', 'left': V('x'), 'right': CALL('f')}}),
            E({'group': {'unary': {'op': '-', 'expr': CALL('f')}}}), E({'unary': {'op': '!', 'expr': {'group': V('y')}}}), E(CALL('f', V('x'))), E({'string': 's'}),
            E({'binary': {'op': '&&', 'left': {'group': V('a')}, 'right': {'group': {'binary': {'op': '||', 'left': V('b'), 'right': CALL('g')}}}}}),
            FN('p', ['q'], [E(V('q')), E({'binary': {'op': '*', 'left': V('q'), 'right': {'unary': {'op': '-', 'expr': CALL('h', V('q'))}}}}), E({'number': 1.0}, 'r'),
                            E({'binary': {'op': '+', 'left': V('r'), 'right': {'group': CALL('k')}}}), {'return': {'expr': V('q')}}])]},
        'assignment to the empty name and jumps without a condition': {'statements': [
            E(CALL('f'), ''), E({'number': 1.0}, ''), J('end'), L('end'), FN('z', None, [E(CALL('f'), ''), E({'number': 2.0}, ''), {'return': {'expr': V('')}}])]},
        'names that are special words in other positions (if / true / false / null as variables, arguments and callees)': {'statements': [
            FN('w', ['if', 'other'], [{'return': {'expr': {'binary': {'op': '+', 'left': V('if'), 'right': V('other')}}}}]),
            FN('v', ['true', 'null'], [E(CALL('true', V('null'))), E(CALL('systemLog', {'number': 1.0}), 'false'), E(CALL('false')), {'return': {}}]),
            FN('u', ['x'], [E(CALL('if', V('x'), {'number': 1.0}, {'number': 2.0}), 'r'), {'return': {'expr': V('r')}}]),
            E(CALL('w', {'number': 1.0}, {'number': 2.0})), E(CALL('v')), E(CALL('u'))]},
        'expression statements: a call on the left, call-free binary expressions on the right': {'statements': [
            E({'binary': {'op': '||', 'left': CALL('note', {'string': 'a'}), 'right': {'binary': {'op': '+', 'left': {'number': 1.0}, 'right': {'number': 1.0}}}}}),
            E({'binary': {'op': '+', 'left': CALL('f'), 'right': {'binary': {'op': '*', 'left': {'number': 2.0}, 'right': {'number': 3.0}}}}}),
            E({'binary': {'op': '&&', 'left': CALL('check'), 'right': {'binary': {'op': '==', 'left': V('y'), 'right': {'number': 1.0}}}}}),
            E({'binary': {'op': '+', 'left': {'binary': {'op': '*', 'left': V('a'), 'right': V('b')}}, 'right': {'binary': {'op': '-', 'left': V('c'), 'right': CALL('g')}}}}),
            E({'binary': {'op': '+', 'left': {'binary': {'op': '*', 'left': V('a'), 'right': V('b')}}, 'right': {'binary': {'op': '-', 'left': V('c'), 'right': V('d')}}}}),
            E({'unary': {'op': '-', 'expr': {'binary': {'op': '+', 'left': CALL('h'), 'right': {'group': {'binary': {'op': '*', 'left': {'number': 2.0}, 'right': {'number': 3.0}}}}}}}}),
            FN('p2', None, [E({'binary': {'op': '+', 'left': CALL('f'), 'right': {'binary': {'op': '*', 'left': {'number': 2.0}, 'right': {'number': 3.0}}}}}), {'return': {}}]),
            E(CALL('p2'))]},
        'empty script': {'statements': []},
    }


STRUCTURED = {
    'structured: if / elif / else, while with break and continue, for with index, nested in a function and at top level': """
function run(items, limit):
    total = 0
    for item, ix in items:
        if ix >= limit:
            break
        elif item == null:
            continue
        else:
            total = total + item
        endif
        while total > 100:
            total = total - 100
            if total == 150:
                break
            endif
        endwhile
    endfor
    return total
endfunction

function other(a):
    if a:
        return 1
    endif
    return 2
endfunction

n = run(arrayNew(1, 2), 5)
if n:
    systemLog(n)
else:
    systemLog('none')
endif
for v in arrayNew(1):
    while v:
        v = v - 1
        if v == 3:
            continue
        endif
    endwhile
endfor
m = other(n)
systemLog(m)
""",
}


def run_lint(repo, tier='quick', rule='E6n'):
    """-> (n models linted, problems [(kind, message)])"""
    import os
    mmod = repo.module('model')
    pmod = repo.module('parser')
    lint = mmod.funcs.get('lint_script')
    parse = pmod.funcs.get('parse_script')
    if lint is None or parse is None:
        raise Unrecognised(rule, 'lint_script / parse_script not found', mmod.rel)
    li = LintInterp(repo, mmod, rule)
    pending = []
    pi = ModelParseInterp(repo, pmod, rule)
    models = [(d, m, 'jump') for d, m in jump_models().items()]
    for d, text in STRUCTURED.items():
        models.append((d, pi.parse(parse, text), 'structured'))
    inc_dir = os.path.join(repo.root, 'src', 'bare_script', 'include')
    names = sorted(f for f in os.listdir(inc_dir) if f.endswith('.bare')) if os.path.isdir(inc_dir) else []
    if tier != 'thorough':
        # the quick tier lints the smaller includes; the thorough tier all of them
        names = [f for f in names if os.path.getsize(os.path.join(inc_dir, f)) < 30000]
    for f in names:
        with open(os.path.join(inc_dir, f), encoding='utf-8') as fh:
            models.append((f'shipped include {f}', pi.parse(parse, fh.read()), 'include'))
    problems, n = [], 0
    for desc, model, kind in models:
        n += 1
        am = _abs(model)
        before = reify(am)
        r1 = li.lint(lint, am, 'asc')
        if r1[0] == 'raise':
            problems.append(('raise', f'lint_script raises {r1[1]}{r1[2][:1]!r} on the model "{desc}"'))
            continue
        if reify(am) != before:
            problems.append(('modified', f'lint_script modifies the model "{desc}"'))
            am = _abs(model)
        r2 = li.lint(lint, am, 'asc')
        r3 = li.lint(lint, _abs(model), 'desc')
        if r2 != r1:
            problems.append(('state', f'a second lint_script call on the model "{desc}" gives {r2[1] if r2[0] == "ok" else r2}, the first gave {r1[1]}'[:500]))
        if r3 != r1:
            problems.append(('hash-order', f'the warnings for the model "{desc}" depend on the iteration order of an unordered collection (set / keys difference): {r1[1][:4]} vs '
                                           f'{r3[1][:4] if r3[0] == "ok" else r3}'[:500]))
        got, unknown = set(), []
        for w in r1[1]:
            c = classify_warning(w)
            if c is None:
                unknown.append(w)
            elif c[0] != 'other':
                got.add(c)
        if kind == 'include':
            # a shipped include must be lint-clean: any warning at all, of whatever kind, is a deviation
            if r1[1]:
                problems.append(('include', f'{desc} is not lint-clean: {r1[1][:3]}'[:400]))
            continue
        if unknown:
            pending.append(f'warning text not understood: {unknown[0]!r}')
            continue
        want = reference_facts(model)
        label_cats = ('unknown-label', 'unused-label', 'label-redefinition')
        if kind == 'structured' and any(c[0] in label_cats for c in got):
            problems.append(('structured', f'{desc}: the lowered code gets label warnings {[w for w in r1[1] if "label" in w.lower()][:3]}'[:400]))
            continue
        for c in sorted(got - want, key=repr):
            problems.append(('spurious', f'model "{desc}": warning {c[0]} for {c[2]!r}' + (f' in function {c[1]!r}' if c[1] else '') + ' is not justified by the model'))
        for c in sorted((c for c in want - got if c[0] in EXACT), key=repr):
            problems.append(('missing', f'model "{desc}": no {c[0]} warning for {c[2]!r}' + (f' in function {c[1]!r}' if c[1] else '')))
    if pending and not problems:
        raise Unrecognised(rule, pending[0], mmod.rel)
    return n, problems
