"""E5: reader for the schema-markdown string constants in the repository (struct / union / enum / typedef)."""
import re

from .core import Unrecognised, SchemaText


class Member:
    def __init__(self, name, type_, optional, array=False, dict_=False, attrs=None):
        self.name = name
        self.type = type_
        self.optional = optional
        self.array = array
        self.dict = dict_
        self.attrs = attrs or ''

    def __repr__(self):
        return f'{"optional " if self.optional else ""}{self.type}{"[]" if self.array else ""}{"{}" if self.dict else ""} {self.name}'


class Schema:
    def __init__(self, text, rule='E5'):
        self.structs = {}
        self.unions = {}
        self.enums = {}
        self.typedefs = {}
        cur = None
        kind = None
        for raw in text.splitlines():
            line = raw.rstrip()
            s = line.strip()
            if not s or s.startswith('#'):
                continue
            if not raw.startswith((' ', '\t')):
                m = re.match(r'^(struct|union|enum)\s+(\w+)', s)
                if m:
                    kind, name = m.group(1), m.group(2)
                    cur = {} if kind != 'enum' else []
                    {'struct': self.structs, 'union': self.unions, 'enum': self.enums}[kind][name] = cur
                    continue
                m = re.match(r'^typedef\s+(.+)\s+(\w+)$', s)
                if m:
                    self.typedefs[m.group(2)] = m.group(1).strip()
                    cur = None
                    continue
                if s.startswith('group'):
                    cur = None
                    continue
                raise Unrecognised(rule, f'schema line not understood: {s!r}')
            if cur is None:
                raise Unrecognised(rule, f'schema member outside a definition: {s!r}')
            if kind == 'enum':
                cur.append(s.strip('"'))
                continue
            optional = False
            if s.startswith('optional '):
                optional = True
                s = s[len('optional '):].strip()
            m = re.match(r'^([\w]+)(\([^)]*\))?(\[[^\]]*\])?(\{[^}]*\})?\s+("?[\w]+"?)$', s)
            if not m:
                raise Unrecognised(rule, f'schema member not understood: {s!r}')
            cur[m.group(5).strip('"')] = Member(m.group(5).strip('"'), m.group(1), optional, m.group(3) is not None,
                                              m.group(4) is not None, (m.group(2) or '') + (m.group(3) or ''))

    def members(self, typename):
        if typename in self.structs:
            return self.structs[typename]
        if typename in self.unions:
            return self.unions[typename]
        return None

    def is_union(self, typename):
        return typename in self.unions


def load(mod, const_name, rule='E5'):
    val = mod.const(const_name, rule)
    if not isinstance(val, SchemaText):
        raise Unrecognised(rule, f'{const_name} is not parse_schema_markdown(<string literal>)', mod.rel)
    return Schema(val.text, rule)
