"""E6d: exact host model of the datetime module for the abstract interpreter, under a scenario-chosen local time zone.

HDate wraps a concrete datetime.date / datetime.datetime, HDelta a timedelta, HTz a tzinfo.  Every operation the repository
applies is delegated to the host object (pure functions of the standard library), except the ones that depend on the process
environment: `astimezone()` without an argument and `timestamp()` of a naive value use the scenario's local zone (a fixed
UTC offset or a zoneinfo zone with DST rules), `now()` / `today()` are opaque.
"""
import ast
import datetime as _dt

from .core import Unrecognised
from .absint import Interp, Sym, ADict, AList, RaiseSig


class HDate:
    _host_object = True

    def __init__(self, v):
        self.v = v

    def __repr__(self):
        return f'H({self.v!r})'

    def __eq__(self, other):
        return isinstance(other, HDate) and type(self.v) is type(other.v) and self.v == other.v and (getattr(self.v, 'tzinfo', None) is None) == (getattr(other.v, 'tzinfo', None) is None)

    def __hash__(self):
        return hash(('HDate', self.v))


class HDelta:
    _host_object = True

    def __init__(self, v):
        self.v = v

    def __repr__(self):
        return f'H({self.v!r})'

    def __eq__(self, other):
        return isinstance(other, HDelta) and self.v == other.v

    def __hash__(self):
        return hash(('HDelta', self.v))


class HTz:
    _host_object = True

    def __init__(self, v):
        self.v = v

    def __repr__(self):
        return f'H({self.v!r})'


def wrap(v):
    if isinstance(v, _dt.timedelta):
        return HDelta(v)
    if isinstance(v, _dt.date):
        return HDate(v)
    if isinstance(v, _dt.tzinfo):
        return HTz(v)
    return v


def unwrap(v):
    return v.v if isinstance(v, (HDate, HDelta, HTz)) else v


class DatetimeMixin:
    """mix into an Interp subclass (before Interp in the MRO)"""
    local_tz = _dt.timezone.utc

    # ---- construction and class attributes
    def host_function(self, name, args, e):
        kw = dict(getattr(self, '_kwargs', None) or {})
        if name in ('datetime.datetime', 'datetime.date', 'datetime.timedelta', 'datetime.timezone', 'datetime.time'):
            self._kwargs = {}
            try:
                return wrap(getattr(_dt, name.split('.')[1])(*[unwrap(a) for a in args], **{k: unwrap(v) for k, v in kw.items()}))
            except (TypeError, ValueError, OverflowError) as exc:
                raise RaiseSig(type(exc).__name__, (str(exc),), e)
        if name in ('datetime.datetime.fromisoformat', 'datetime.date.fromisoformat') and len(args) == 1:
            if not isinstance(args[0], str):
                raise RaiseSig('TypeError', ('fromisoformat: argument must be str',), e)
            try:
                return wrap((_dt.datetime if 'datetime.datetime' in name else _dt.date).fromisoformat(args[0]))
            except ValueError as exc:
                raise RaiseSig('ValueError', (str(exc),), e)
        if name in ('datetime.datetime.combine',) and len(args) >= 2:
            try:
                return wrap(_dt.datetime.combine(*[unwrap(a) for a in args]))
            except (TypeError, ValueError) as exc:
                raise RaiseSig(type(exc).__name__, (str(exc),), e)
        if name in ('datetime.datetime.now', 'datetime.date.today', 'datetime.datetime.today', 'datetime.datetime.utcnow'):
            return Sym('clock', name)
        if name in ('datetime.datetime.fromtimestamp', 'datetime.datetime.utcfromtimestamp') and args and isinstance(args[0], (int, float)):
            tz = unwrap(args[1]) if len(args) > 1 else unwrap(kw.get('tz'))
            try:
                if tz is not None or name.endswith('utcfromtimestamp'):
                    d = _dt.datetime.fromtimestamp(args[0], tz if tz is not None else _dt.timezone.utc)
                    return wrap(d if tz is not None else d.replace(tzinfo=None))
                return wrap(_dt.datetime.fromtimestamp(args[0], self.local_tz).replace(tzinfo=None))
            except (ValueError, OverflowError, OSError) as exc:
                raise RaiseSig(type(exc).__name__, (str(exc),), e)
        return super().host_function(name, args, e)

    def eval(self, e, env):
        if isinstance(e, ast.Attribute):
            txt = _dotted(e)
            if txt == 'datetime.timezone.utc':
                return HTz(_dt.timezone.utc)
            if txt in ('datetime.datetime.min', 'datetime.datetime.max', 'datetime.date.min', 'datetime.date.max'):
                return wrap(getattr(getattr(_dt, txt.split('.')[1]), txt.split('.')[2]))
            if isinstance(e.value, (ast.Name, ast.Attribute, ast.Call, ast.Subscript)):
                base = None
                try:
                    base = super().eval(e.value, env) if not (txt and txt.startswith('datetime.')) else None
                except Unrecognised:
                    raise
                if isinstance(base, HDate):
                    if e.attr in ('year', 'month', 'day', 'hour', 'minute', 'second', 'microsecond', 'fold'):
                        if not hasattr(base.v, e.attr):
                            raise RaiseSig('AttributeError', (e.attr,), e)
                        return getattr(base.v, e.attr)
                    if e.attr == 'tzinfo':
                        if not isinstance(base.v, _dt.datetime):
                            raise RaiseSig('AttributeError', (e.attr,), e)
                        return wrap(base.v.tzinfo)
                    return ('bound', base, e.attr)
                if isinstance(base, HDelta):
                    if e.attr in ('days', 'seconds', 'microseconds'):
                        return getattr(base.v, e.attr)
                    return ('bound', base, e.attr)
                if isinstance(base, HTz):
                    return ('bound', base, e.attr)
                if base is not None:
                    # re-dispatch the attribute on the already evaluated base without evaluating it twice
                    return self._attr_of_value(base, e, env)
        return super().eval(e, env)

    def _attr_of_value(self, base, e, env):
        tmp = '__hostdt_base__'
        env2 = dict(env)
        env2[tmp] = base
        node = ast.Attribute(value=ast.Name(id=tmp, ctx=ast.Load()), attr=e.attr, ctx=getattr(e, 'ctx', ast.Load()))
        ast.copy_location(node, e)
        ast.copy_location(node.value, e)
        return super().eval(node, env2)

    # ---- methods
    def call_method(self, base, m, args, e):
        kw = dict(getattr(self, '_kwargs', None) or {})
        if isinstance(base, HDate):
            self._kwargs = {}
            d = base.v
            try:
                if m == 'isoformat':
                    return d.isoformat(*args, **kw)
                if m == 'replace':
                    return wrap(d.replace(*[unwrap(a) for a in args], **{k: unwrap(v) for k, v in kw.items()}))
                if m == 'astimezone' and isinstance(d, _dt.datetime):
                    tz = unwrap(args[0]) if args else unwrap(kw.get('tz'))
                    if d.tzinfo is None:
                        d = d.replace(tzinfo=self.local_tz)       # a naive value is local time
                    if tz is not None:
                        return wrap(d.astimezone(tz))
                    r = d.astimezone(self.local_tz)
                    # like CPython: the result of astimezone() without an argument carries a FIXED-offset tzinfo (the offset in force at that instant), not the zone's rules
                    return wrap(r.replace(tzinfo=_dt.timezone(r.utcoffset())))
                if m == 'date' and isinstance(d, _dt.datetime):
                    return wrap(d.date())
                if m == 'utcoffset' and isinstance(d, _dt.datetime):
                    return wrap(d.utcoffset())
                if m == 'timestamp' and isinstance(d, _dt.datetime):
                    return (d if d.tzinfo is not None else d.replace(tzinfo=self.local_tz)).timestamp()
                if m in ('weekday', 'isoweekday', 'toordinal'):
                    return getattr(d, m)()
                if m in ('timetuple', 'utctimetuple'):
                    return tuple(getattr(d, m)())
                if m == 'strftime' and len(args) == 1 and isinstance(args[0], str) and '%Z' not in args[0] and '%z' not in args[0] and '%c' not in args[0] and '%x' not in args[0]:
                    return d.strftime(args[0])
            except (TypeError, ValueError, OverflowError, AttributeError) as exc:
                raise RaiseSig(type(exc).__name__, (str(exc),), e)
            if not hasattr(d, m):
                raise RaiseSig('AttributeError', (m,), e)
            raise Unrecognised(self.rule, f'datetime method {m} has no host model', self.mod.rel)
        if isinstance(base, HDelta):
            self._kwargs = {}
            if m == 'total_seconds' and not args:
                return base.v.total_seconds()
            raise Unrecognised(self.rule, f'timedelta method {m} has no host model', self.mod.rel)
        if isinstance(base, HTz):
            self._kwargs = {}
            if m == 'utcoffset':
                return wrap(base.v.utcoffset(unwrap(args[0]) if args else None))
            raise Unrecognised(self.rule, f'tzinfo method {m} has no host model', self.mod.rel)
        return super().call_method(base, m, args, e)

    # ---- operators
    def binop(self, op, a, b, node):
        if isinstance(a, (HDate, HDelta)) or isinstance(b, (HDate, HDelta)):
            import operator as _op
            fn = {ast.Add: _op.add, ast.Sub: _op.sub, ast.Mult: _op.mul, ast.Div: _op.truediv, ast.FloorDiv: _op.floordiv, ast.Mod: _op.mod}.get(type(op))
            x, y = unwrap(a), unwrap(b)
            if fn is None or isinstance(x, (Sym, ADict, AList)) or isinstance(y, (Sym, ADict, AList)):
                raise RaiseSig('TypeError', ('unsupported operand type(s)',), node)
            try:
                return wrap(fn(x, y))
            except (TypeError, OverflowError, ZeroDivisionError, ValueError) as exc:
                raise RaiseSig(type(exc).__name__, (str(exc),), node)
        return super().binop(op, a, b, node)

    def compare(self, op, a, b, node):
        if isinstance(a, (HDate, HDelta)) or isinstance(b, (HDate, HDelta)):
            if isinstance(op, (ast.Is, ast.IsNot)):
                return (a is b) if isinstance(op, ast.Is) else (a is not b)
            x, y = unwrap(a), unwrap(b)
            if isinstance(op, (ast.Eq, ast.NotEq)):
                try:
                    r = (x == y) if not (isinstance(x, (Sym, ADict, AList)) or isinstance(y, (Sym, ADict, AList))) else False
                except TypeError:
                    r = False
                return r if isinstance(op, ast.Eq) else not r
            if isinstance(op, (ast.Lt, ast.LtE, ast.Gt, ast.GtE)):
                import operator as _op
                fn = {ast.Lt: _op.lt, ast.LtE: _op.le, ast.Gt: _op.gt, ast.GtE: _op.ge}[type(op)]
                # the host refuses to order a date against a datetime and a naive against an aware datetime
                if isinstance(x, _dt.date) and isinstance(y, _dt.date) and isinstance(x, _dt.datetime) != isinstance(y, _dt.datetime):
                    raise RaiseSig('TypeError', ("can't compare datetime.datetime to datetime.date",), node)
                try:
                    return fn(x, y)
                except TypeError as exc:
                    raise RaiseSig('TypeError', (str(exc),), node)
        return super().compare(op, a, b, node)

    def truth(self, v, node=None):
        if isinstance(v, (HDate, HTz)):
            return True
        if isinstance(v, HDelta):
            return bool(v.v)
        return super().truth(v, node)

    def builtin_hook(self, name, args, e):
        if name == 'isinstance' and args and isinstance(args[0], (HDate, HDelta, HTz)):
            classes = self.class_names(e.args[1], args[1] if len(args) > 1 else None)
            v = args[0].v
            table = {'datetime.date': isinstance(v, _dt.date), 'date': isinstance(v, _dt.date), 'datetime.datetime': isinstance(v, _dt.datetime), 'datetime': isinstance(v, _dt.datetime),
                     'datetime.timedelta': isinstance(v, _dt.timedelta), 'timedelta': isinstance(v, _dt.timedelta), 'datetime.tzinfo': isinstance(v, _dt.tzinfo), 'object': True}
            return any(table.get(c, False) for c in classes)
        if name == 'str' and args and isinstance(args[0], (HDate, HDelta)):
            return str(args[0].v)
        if name == 'callable' and args and isinstance(args[0], (HDate, HDelta, HTz)):
            return False
        if name == 'type' and args and isinstance(args[0], HDate):
            return ('typeof', 'datetime.datetime' if isinstance(args[0].v, _dt.datetime) else 'datetime.date')
        return super().builtin_hook(name, args, e)


def _dotted(e):
    parts = []
    while isinstance(e, ast.Attribute):
        parts.append(e.attr)
        e = e.value
    if isinstance(e, ast.Name):
        parts.append(e.id)
        return '.'.join(reversed(parts))
    return None
