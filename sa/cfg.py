"""E2: statement-level control-flow graph for the Python statement kinds the repository uses.

Nodes: one per simple statement, one per branch test (`if`/`while`), one per `for` header, one per
`except` clause, plus entry / exit (normal return) / raise (uncaught explicit raise).
Edges carry a label: next, true, false, loop, exit, exc, back, return, raise, break, continue.

Exceptional flow is modelled for (a) explicit `raise` statements and (b) every node lexically inside a `try`
body, which gets an `exc` edge to every handler of that `try` (and, when no handler is a catch-all, onwards to the
enclosing handlers / the raise exit).  Implicit exceptions outside any `try` are not drawn.
"""
import ast

from .core import Unrecognised, norm

CATCH_ALL = {'Exception', 'BaseException'}


class Node:
    __slots__ = ('id', 'kind', 'ast', 'stmt', 'succ', 'pred', 'handlers')

    def __init__(self, nid, kind, node=None, stmt=None):
        self.id = nid
        self.kind = kind
        self.ast = node
        self.stmt = stmt if stmt is not None else node
        self.succ = []
        self.pred = []
        self.handlers = ()

    @property
    def line(self):
        return getattr(self.ast, 'lineno', None)

    def __repr__(self):
        return f'<{self.id}:{self.kind}:{norm(self.ast)[:50] if self.ast is not None else ""}>'


class Ctx:
    def __init__(self, ret, rais, loop=None, handlers=()):
        self.ret = ret            # node a `return` goes to
        self.rais = rais          # node an uncaught exception goes to
        self.loop = loop          # (continue_target, break_target)
        self.handlers = handlers  # tuple of (handler_node, names or None) of the innermost try, innermost first, chained outward

    def with_(self, **kw):
        c = Ctx(self.ret, self.rais, self.loop, self.handlers)
        for k, v in kw.items():
            setattr(c, k, v)
        return c


class CFG:
    def __init__(self, func):
        self.func = func
        self.nodes = []
        self.by_ast = {}
        self.entry = self._new('entry')
        self.exit = self._new('exit')
        self.raise_exit = self._new('raise')
        ctx = Ctx(self.exit, self.raise_exit)
        body = func.body if isinstance(func, (ast.FunctionDef, ast.AsyncFunctionDef)) else func
        first = self._seq(body, self.exit, ctx)
        self._edge(self.entry, first, 'next')

    # -- construction
    def _new(self, kind, node=None, stmt=None):
        n = Node(len(self.nodes), kind, node, stmt)
        self.nodes.append(n)
        if node is not None:
            self.by_ast.setdefault(id(node), []).append(n)
        return n

    def _edge(self, a, b, label):
        a.succ.append((b, label))
        b.pred.append((a, label))

    def _exc_edges(self, node, ctx):
        node.handlers = ctx.handlers
        for h, _names in ctx.handlers:
            self._edge(node, h, 'exc')

    def _seq(self, stmts, succ, ctx):
        nxt = succ
        for stmt in reversed(stmts):
            nxt = self._stmt(stmt, nxt, ctx)
        return nxt

    def _raise_targets(self, stmt, ctx):
        """Where an explicit `raise X(...)` goes: first matching handler outward, else the raise exit."""
        name = None
        exc = stmt.exc
        if isinstance(exc, ast.Call):
            exc = exc.func
        if isinstance(exc, ast.Name):
            name = exc.id
        elif isinstance(exc, ast.Attribute):
            name = exc.attr
        for h, names in ctx.handlers:
            if names is None or (names & CATCH_ALL) or (name is not None and name in names):
                return [h]
            if name is None:
                # bare re-raise / unknown class: may be caught by any typed handler; keep searching but also add this one
                pass
        return [ctx.rais]

    def _stmt(self, stmt, succ, ctx):
        if isinstance(stmt, ast.If):
            t = self._new('test', stmt.test, stmt)
            self._exc_edges(t, ctx)
            self._edge(t, self._seq(stmt.body, succ, ctx), 'true')
            self._edge(t, self._seq(stmt.orelse, succ, ctx) if stmt.orelse else succ, 'false')
            return t
        if isinstance(stmt, ast.While):
            t = self._new('test', stmt.test, stmt)
            self._exc_edges(t, ctx)
            after = self._seq(stmt.orelse, succ, ctx) if stmt.orelse else succ
            body = self._seq(stmt.body, t, ctx.with_(loop=(t, succ)))
            self._edge(t, body, 'true')
            self._edge(t, after, 'false')
            return t
        if isinstance(stmt, (ast.For, ast.AsyncFor)):
            it = self._new('iter', stmt, stmt)
            self._exc_edges(it, ctx)
            after = self._seq(stmt.orelse, succ, ctx) if stmt.orelse else succ
            body = self._seq(stmt.body, it, ctx.with_(loop=(it, succ)))
            self._edge(it, body, 'loop')
            self._edge(it, after, 'exit')
            return it
        if isinstance(stmt, ast.Try):
            return self._try(stmt, succ, ctx)
        if hasattr(ast, 'Match') and isinstance(stmt, ast.Match):
            # the subject is evaluated once; every case body is a possible successor, and so is falling through when no case matches
            t = self._new('test', stmt.subject, stmt)
            self._exc_edges(t, ctx)
            for case in stmt.cases:
                self._edge(t, self._seq(case.body, succ, ctx), 'true')
            self._edge(t, succ, 'false')
            return t
        if isinstance(stmt, (ast.With, ast.AsyncWith)):
            w = self._new('stmt', stmt, stmt)
            self._exc_edges(w, ctx)
            self._edge(w, self._seq(stmt.body, succ, ctx), 'next')
            return w
        if isinstance(stmt, ast.Return):
            n = self._new('stmt', stmt)
            self._exc_edges(n, ctx)
            self._edge(n, ctx.ret, 'return')
            return n
        if isinstance(stmt, ast.Raise):
            n = self._new('stmt', stmt)
            for tgt in self._raise_targets(stmt, ctx):
                self._edge(n, tgt, 'raise')
            return n
        if isinstance(stmt, ast.Continue):
            n = self._new('stmt', stmt)
            if ctx.loop is None:
                raise Unrecognised('E2', 'continue outside loop')
            self._edge(n, ctx.loop[0], 'continue')
            return n
        if isinstance(stmt, ast.Break):
            n = self._new('stmt', stmt)
            if ctx.loop is None:
                raise Unrecognised('E2', 'break outside loop')
            self._edge(n, ctx.loop[1], 'break')
            return n
        if isinstance(stmt, (ast.FunctionDef, ast.AsyncFunctionDef, ast.ClassDef, ast.Assign, ast.AugAssign, ast.AnnAssign,
                             ast.Expr, ast.Pass, ast.Delete, ast.Assert, ast.Import, ast.ImportFrom, ast.Global,
                             ast.Nonlocal)):
            n = self._new('stmt', stmt)
            self._exc_edges(n, ctx)
            self._edge(n, succ, 'next')
            return n
        raise Unrecognised('E2', f'statement kind {type(stmt).__name__} not supported by the CFG builder',
                           f'line {getattr(stmt, "lineno", "?")}')

    def _try(self, stmt, succ, ctx):
        if stmt.finalbody:
            fin_norm = self._seq(stmt.finalbody, succ, ctx)
            fin_ret = self._seq(stmt.finalbody, ctx.ret, ctx)
            fin_exc = self._seq(stmt.finalbody, ctx.rais, ctx)
            outer = ctx.with_(ret=fin_ret, rais=fin_exc)
            # exceptions not caught here run the finally block and continue outward
            after = fin_norm
            loop = ctx.loop
            if loop is not None:
                fin_cont = self._seq(stmt.finalbody, loop[0], ctx)
                fin_brk = self._seq(stmt.finalbody, loop[1], ctx)
                outer = outer.with_(loop=(fin_cont, fin_brk))
        else:
            outer = ctx
            after = succ
        handlers = []
        for h in stmt.handlers:
            hn = self._new('handler', h, stmt)
            names = None
            if h.type is not None:
                elts = h.type.elts if isinstance(h.type, ast.Tuple) else [h.type]
                names = set()
                for e in elts:
                    names.add(e.id if isinstance(e, ast.Name) else (e.attr if isinstance(e, ast.Attribute) else norm(e)))
            self._edge(hn, self._seq(h.body, after, outer), 'next')
            handlers.append((hn, names))
        catch_all = any(names is None or (names & CATCH_ALL) for _h, names in handlers)
        chain = tuple(handlers) + (() if catch_all else tuple(outer.handlers))
        if stmt.finalbody and not catch_all:
            # an exception nobody catches still runs the finally block
            pass
        body_ctx = outer.with_(handlers=chain)
        else_entry = self._seq(stmt.orelse, after, outer) if stmt.orelse else after
        entry = self._seq(stmt.body, else_entry, body_ctx)
        marker = self._new('try', stmt, stmt)
        self._edge(marker, entry, 'next')
        return marker

    # -- queries
    def nodes_of(self, node):
        return self.by_ast.get(id(node), [])

    def node_of(self, node):
        ns = self.by_ast.get(id(node), [])
        return ns[0] if ns else None

    def reach(self, srcs, avoid=(), follow=None, include_src=False):
        """Nodes reachable from `srcs` along edges whose label satisfies `follow`, never entering a node in `avoid`."""
        avoid = set(avoid)
        seen = set()
        stack = []
        for s in srcs:
            if include_src:
                if s not in avoid:
                    stack.append(s)
            else:
                for d, lab in s.succ:
                    if (follow is None or follow(lab)) and d not in avoid:
                        stack.append(d)
        while stack:
            n = stack.pop()
            if n in seen:
                continue
            seen.add(n)
            for d, lab in n.succ:
                if (follow is None or follow(lab)) and d not in avoid and d not in seen:
                    stack.append(d)
        return seen

    def path(self, src, targets, avoid=(), follow=None):
        """A witness path src -> ... -> t (t in targets) avoiding `avoid` (src itself is allowed), or None."""
        targets = set(targets)
        avoid = set(avoid)
        prev = {src: None}
        queue = [src]
        while queue:
            n = queue.pop(0)
            for d, lab in n.succ:
                if follow is not None and not follow(lab):
                    continue
                if d in targets:
                    out = [d, n]
                    while prev[out[-1]] is not None:
                        out.append(prev[out[-1]])
                    return list(reversed(out))
                if d in avoid or d in prev:
                    continue
                prev[d] = n
                queue.append(d)
        return None

    def dominators(self, follow=None):
        """node -> set of dominators (iterative)."""
        nodes = [n for n in self.nodes]
        reachable = self.reach([self.entry], follow=follow, include_src=True)
        dom = {n: set(reachable) for n in reachable}
        dom[self.entry] = {self.entry}
        changed = True
        order = [n for n in nodes if n in reachable and n is not self.entry]
        while changed:
            changed = False
            for n in order:
                preds = [p for p, lab in n.pred if p in reachable and (follow is None or follow(lab))]
                if not preds:
                    continue
                new = set.intersection(*(dom[p] for p in preds)) | {n}
                if new != dom[n]:
                    dom[n] = new
                    changed = True
        return dom

    def describe_path(self, path):
        return ' -> '.join(f'L{n.line}:{n.kind}' if n.line else n.kind for n in path)


def no_exc(label):
    return label != 'exc'


def forward(cfg, init, transfer, join, follow=None, edge_transfer=None):
    """Generic forward dataflow.  `transfer(node, state_in) -> state_out`; `edge_transfer(node, label, state_out)`
    may refine per edge; `join(a, b)`; states must be comparable with ==.  Returns {node: state_in}."""
    state_in = {cfg.entry: init}
    work = [cfg.entry]
    while work:
        n = work.pop()
        out = transfer(n, state_in[n])
        for d, lab in n.succ:
            if follow is not None and not follow(lab):
                continue
            s = edge_transfer(n, lab, out) if edge_transfer else out
            if s is None:
                continue
            if d not in state_in:
                state_in[d] = s
                work.append(d)
            else:
                j = join(state_in[d], s)
                if j != state_in[d]:
                    state_in[d] = j
                    work.append(d)
    return state_in
