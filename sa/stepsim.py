"""E6s: abstract interpretation of runtime._execute_script_helper over jump-level models with opaque expressions.

A model is a short list of statement objects (label / jump / conditional jump / expression / assignment / return) whose
expressions are opaque symbols; `evaluate_expression` is an oracle that records which expression is evaluated under which
locals and returns an opaque value; `value_boolean` of such a value follows a fixed truth schedule; the host truthiness
of an opaque value is NOT defined (using it is reported).  The statement loop itself - program counter, counter/limit
bookkeeping, label search and cache, returns - is evaluated exactly by absint.Interp, so the verdict depends on what
the loop does and not on how it is spelled.  The reference is the documented statement semantics (twenty lines).
"""
import ast

from .core import Unrecognised, norm
from .absint import Interp, Sym, ADict, AList, RaiseSig, ReturnSig, reify


class HostTruth(Exception):
    def __init__(self, node):
        self.node = node


class StepInterp(Interp):
    def __init__(self, repo, mod, rule='E6s'):
        super().__init__(mod, rule)
        self.repo = repo
        self.max_depth = 6
        self.events = []
        self.schedule = []
        self.n_eval = 0
        self.oracles['evaluate_expression'] = self._evaluate
        self.oracles['value_boolean'] = self._boolean

    def _evaluate(self, args, node):
        if not args or not isinstance(args[0], Sym) or args[0].kind != 'e':
            raise Unrecognised(self.rule, f'evaluate_expression called with {args[:1]!r}, not with an expression of the model: {norm(node)[:80]}', self.mod.rel)
        scope = 'locals' if (len(args) > 2 and isinstance(args[2], ADict)) else 'globals' if (len(args) > 2 and args[2] is None) else '?'
        opts = args[1] if len(args) > 1 else None
        self.events.append(('eval', args[0].args[0], scope, 'same-options' if opts is self.options else 'other-options',
                            reify(args[3]) if len(args) > 3 else 'default', _snap(args[2]) if len(args) > 2 and isinstance(args[2], ADict) else None,
                            args[2] if len(args) > 2 else None))
        v = Sym('value', self.n_eval)
        self.n_eval += 1
        return v

    def _boolean(self, args, node):
        v = args[0]
        if isinstance(v, Sym) and v.kind == 'value':
            k = v.args[0]
            return self.schedule[k % len(self.schedule)] if self.schedule else True
        raise Unrecognised(self.rule, f'value_boolean of {v!r}', self.mod.rel)

    def truth(self, v, node=None):
        if isinstance(v, Sym) and v.kind == 'value':
            raise HostTruth(node)
        if isinstance(v, tuple) and v and v[0] in ('partial', 'closure'):
            return True
        return super().truth(v, node)

    def method_hook(self, base, m, args, e):
        if isinstance(base, tuple) and base and base[0] == 'module' and base[1] == 'functools' and m == 'partial' and args:
            return ('partial', args[0], tuple(args[1:]))
        return super().method_hook(base, m, args, e)

    def prepare(self, scope, limit, globals_init=None):
        self.events = []
        self.n_eval = 0
        self.depth = 0
        self.globals_obj = ADict(dict(globals_init or {}))
        self.options = ADict({'globals': self.globals_obj, 'statementCount': 0, 'maxStatements': limit})
        return ADict({}) if scope == 'function' else None

    def run(self, func, statements, scope, schedule, limit):
        """-> dict(outcome=('return', v) | ('raise', cls, msg), events=[...], globals=..., locals=..., count=...)"""
        self.events = []
        self.schedule = schedule
        self.n_eval = 0
        self.depth = 0
        globals_ = ADict({})
        self.options = ADict({'globals': globals_, 'statementCount': 0, 'maxStatements': limit})
        locals_ = ADict({}) if scope == 'function' else None
        params = [a.arg for a in func.args.args]
        if len(params) < 3 or len(params) - len(func.args.defaults) > 3:
            raise Unrecognised(self.rule, f'{func.name} does not take (statements, options, locals)', self.mod.rel)
        try:
            val = self.call_function(func, [statements, self.options, locals_], func)
            outcome = ('return', val)
        except RaiseSig as sig:
            msg = sig.args_[0] if sig.args_ else ''
            outcome = ('raise', sig.cls, msg if isinstance(msg, str) else repr(msg))
        return {'outcome': outcome, 'events': list(self.events), 'globals': reify(globals_), 'locals': reify(locals_) if locals_ is not None else None,
                'count': self.options.d.get('statementCount')}


def _snap(d):
    """shallow snapshot of a locals dict: lists are copied (content), other values kept"""
    return {k: (('list', tuple(v.l)) if isinstance(v, AList) else v) for k, v in d.d.items()}


def reference(model, scope, schedule, limit):
    """documented semantics of a jump-level statement list"""
    events = []
    g, l = {}, ({} if scope == 'function' else None)
    n_eval = 0
    count = 0
    pc = 0

    def ev(e):
        nonlocal n_eval
        events.append(('eval', e.args[0], 'locals' if l is not None else 'globals', 'same-options', False))
        v = Sym('value', n_eval)
        n_eval += 1
        return v

    def truth(v):
        return schedule[v.args[0] % len(schedule)] if schedule else True
    while pc < len(model):
        st = model[pc]
        count += 1
        if limit > 0 and count > limit:
            return {'outcome': ('raise', 'BareScriptRuntimeError', 'Exceeded'), 'events': events, 'globals': g, 'locals': l, 'count': count}
        (k, v), = st.items()
        if k == 'expr':
            val = ev(v['expr'])
            if v.get('name') is not None:
                (l if l is not None else g)[v['name']] = val
        elif k == 'jump':
            if 'expr' not in v or truth(ev(v['expr'])):
                ix = next((i for i, s in enumerate(model) if s.get('label') == v['label']), None)
                if ix is None:
                    return {'outcome': ('raise', 'BareScriptRuntimeError', 'Unknown jump label'), 'events': events, 'globals': g, 'locals': l, 'count': count}
                pc = ix
        elif k == 'return':
            return {'outcome': ('return', ev(v['expr']) if 'expr' in v else None), 'events': events, 'globals': g, 'locals': l, 'count': count}
        pc += 1
    return {'outcome': ('return', None), 'events': events, 'globals': g, 'locals': l, 'count': count}


def build(model):
    """python model -> abstract heap objects; expressions are Sym('e', id)"""
    def conv(v):
        if isinstance(v, dict):
            return ADict({k: conv(x) for k, x in v.items()})
        if isinstance(v, list):
            return AList([conv(x) for x in v])
        return v
    return conv(model)


def show(model):
    out = []
    for st in model:
        (k, v), = st.items()
        if k == 'label':
            out.append(f'{v}:')
        elif k == 'jump':
            out.append(f'jumpif ({v["expr"].args[0]}) {v["label"]}' if 'expr' in v else f'jump {v["label"]}')
        elif k == 'return':
            out.append(f'return {v["expr"].args[0]}' if 'expr' in v else 'return')
        elif k == 'expr':
            out.append((f'{v["name"]} = ' if 'name' in v else '') + str(v['expr'].args[0]))
    return ' ; '.join(out)


def compare(got, want):
    """None when the run agrees with the reference, else a description"""
    go, wo = got['outcome'], want['outcome']
    if go[0] != wo[0]:
        return f'ends with {go} instead of {wo}'
    if go[0] == 'raise':
        if go[1] != wo[1] or wo[2] not in go[2]:
            return f'raises {go[1]}({go[2]!r}) instead of {wo[1]}("{wo[2]} ...")'
    elif go[1] != wo[1]:
        return f'returns {go[1]!r} instead of {wo[1]!r}'
    ge = [(e[1], e[2]) for e in got['events']]
    we = [(e[1], e[2]) for e in want['events']]
    if ge != we:
        return f'evaluates expressions {[f"{a}@{b}" for a, b in ge]} instead of {[f"{a}@{b}" for a, b in we]}'
    if any(e[3] != 'same-options' for e in got['events']):
        return 'evaluates an expression under another options object'
    if got['globals'] != want['globals'] or got['locals'] != want['locals']:
        return f'leaves globals={got["globals"]} locals={got["locals"]} instead of globals={want["globals"]} locals={want["locals"]}'
    if got['count'] != want['count']:
        return f'counts {got["count"]} statements instead of {want["count"]}'
    return None


# ------------------------------------------------------------------------------------------------ include statements
class IncludeInterp(StepInterp):
    """adds oracles for the host callbacks and repository functions the include branch uses:
    fetchFn / urlFn / logFn (opaque host functions in the options), parse_script, lint_script, url_file_relative"""

    def __init__(self, repo, mod, rule='E6s'):
        super().__init__(repo, mod, rule)
        self.max_depth = 12
        self.fetch = {}        # resolved location (repr) -> 'ok' | 'none' | 'raise'
        self.scripts = {}      # resolved location (repr) -> python model | 'syntax-error'
        self.warnings = {}     # resolved location (repr) -> list of warning strings
        self.oracles['parse_script'] = self._parse
        self.oracles['lint_script'] = self._lint
        self.oracles['url_file_relative'] = self._relative

    def _relative(self, args, node):
        self.events.append(('relative', args[0], args[1]))
        return Sym('rel', args[0], args[1])

    def _parse(self, args, node):
        t = args[0]
        if not (isinstance(t, Sym) and t.kind == 'text'):
            raise Unrecognised(self.rule, f'parse_script called with {t!r}, not with the fetched text', self.mod.rel)
        key = repr(t.args[0])
        self.events.append(('parse', t.args[0]))
        model = self.scripts.get(key, {'statements': [{'expr': {'expr': Sym('e', key + '#0')}}]})
        if model == 'syntax-error':
            raise RaiseSig('BareScriptParserError', (Sym('perr', key), Sym('pline', key), Sym('pcol', key), Sym('plineno', key)), node)
        a = build(model)
        self.parsed[id(a)] = key
        self.keep.append(a)
        return a

    def _lint(self, args, node):
        key = self.parsed.get(id(args[0]), '?')
        self.events.append(('lint', key))
        return AList(list(self.warnings.get(key, [])))

    def call_value_hook(self, fn, args, e):
        if isinstance(fn, Sym) and fn.kind == 'hostfn':
            tag = fn.args[0]
            if tag == 'fetch':
                req = args[0] if args else None
                u = req.d.get('url') if isinstance(req, ADict) else req
                self.events.append(('fetch', u, sorted(req.d) if isinstance(req, ADict) else None))
                b = self.fetch.get(repr(u), 'ok')
                if b == 'ok':
                    return Sym('text', u)
                if b == 'none':
                    return None
                raise RaiseSig('OSError', (Sym('fetch-failed'),), e)
            if tag == 'urlfn':
                self.events.append(('urlfn', args[0] if args else None))
                return Sym('resolved', args[0] if args else None)
            if tag == 'log':
                self.events.append(('log', args[0] if args else None))
                return None
        return super().call_value_hook(fn, args, e)

    def _evaluate(self, args, node):
        v = super()._evaluate(args, node)
        opts = args[1] if len(args) > 1 else None
        info = None
        if isinstance(opts, ADict):
            info = (opts.d.get('urlFn'), opts.d.get('globals') is self.globals_obj, opts is self.options)
        self.events[-1] = self.events[-1] + (info,)
        return v

    def run_include(self, func, model, opts_extra, limit=50):
        self.parsed, self.keep = {}, []
        locals_ = self.prepare('global', limit)
        self.options.d.update(opts_extra)
        self.schedule = [True]
        try:
            val = self.call_function(func, [build(model), self.options, locals_], func)
            outcome = ('return', val)
        except RaiseSig as sig:
            outcome = ('raise', sig.cls, sig.args_)
        return outcome, list(self.events), self.options.d.get('statementCount')


def include_reference(model, opts, fetch, scripts, warnings, limit=50):
    """documented include semantics over the same abstraction -> (outcome, events, count)"""
    events = []
    state = {'count': 0}

    class Stop(Exception):
        def __init__(self, outcome):
            self.outcome = outcome

    def run(statements, url_fn, top):
        for st in statements:
            state['count'] += 1
            if limit > 0 and state['count'] > limit:
                raise Stop(('raise', 'BareScriptRuntimeError', 'Exceeded'))
            (k, v), = st.items()
            if k == 'expr':
                events.append(('eval', v['expr'].args[0], url_fn))
            elif k == 'include':
                for inc in v['includes']:
                    url = inc['url']
                    if inc.get('system') and opts.get('systemPrefix') is not None:
                        events.append(('relative', opts['systemPrefix'], url))
                        U = Sym('rel', opts['systemPrefix'], url)
                    elif url_fn is not None:
                        if url_fn[0] == 'host':
                            events.append(('urlfn', url))
                            U = Sym('resolved', url)
                        else:
                            events.append(('relative', url_fn[1], url))
                            U = Sym('rel', url_fn[1], url)
                    else:
                        U = url
                    text_ok = False
                    if opts.get('fetchFn') is not None:
                        events.append(('fetch', U))
                        text_ok = fetch.get(repr(U), 'ok') == 'ok'
                    if not text_ok:
                        raise Stop(('raise', 'BareScriptRuntimeError', ('Include', U)))
                    events.append(('parse', U))
                    sc = scripts.get(repr(U), {'statements': [{'expr': {'expr': Sym('e', repr(U) + '#0')}}]})
                    if sc == 'syntax-error':
                        raise Stop(('raise', 'BareScriptParserError', ('Included', U)))
                    if opts.get('logFn') is not None and opts.get('debug'):
                        events.append(('lint', repr(U)))
                        w = warnings.get(repr(U), [])
                        for _ in range((1 + len(w)) if w else 0):
                            events.append(('log',))
                    run(sc['statements'], ('rel', U), False)
    try:
        run(model, ('host',) if opts.get('urlFn') is not None else None, True)
    except Stop as s:
        return s.outcome, events, state['count']
    return ('return', None), events, state['count']


def _mentions(v, U):
    """does the (possibly symbolic) message value mention the resolved location U?"""
    if v == U or (isinstance(v, str) and isinstance(U, str) and U in v):
        return True
    if isinstance(v, Sym):
        return any(_mentions(a, U) for a in v.args)
    if isinstance(v, tuple):
        return any(_mentions(a, U) for a in v)
    return False


def include_compare(got, want):
    (go, gev, gc), (wo, wev, wc) = got, want
    # events
    norm_g = []
    for e in gev:
        if e[0] == 'eval':
            info = e[-1]
            uf = info[0] if info else None
            if isinstance(uf, tuple) and uf and uf[0] == 'partial' and isinstance(uf[1], tuple) and uf[1][0] == 'extern' and uf[1][2] == 'url_file_relative' and len(uf[2]) == 1:
                ufn = ('rel', uf[2][0])
            elif isinstance(uf, Sym) and uf.kind == 'hostfn':
                ufn = ('host',)
            elif uf is None:
                ufn = None
            else:
                ufn = ('other', repr(uf))
            norm_g.append(('eval', e[1], ufn))
            if e[2] != 'globals':
                return f'evaluates {e[1]} of an included script with a locals frame (included scripts run in global scope)'
            if info and not info[1]:
                return f'evaluates {e[1]} under options whose globals object is not the run\'s globals'
            if info and info[2] and ufn is not None and ufn[0] == 'rel':
                return 'stores the re-based urlFn into the includer\'s own options object'
        elif e[0] == 'fetch':
            if e[2] != ['url']:
                return f'calls fetchFn with a request whose members are {e[2]} (must be {{url}})'
            norm_g.append(('fetch', e[1]))
        elif e[0] == 'log':
            norm_g.append(('log',))
        elif e[0] == 'lint':
            norm_g.append(('lint', e[1]))
        else:
            norm_g.append(tuple(e[:3]))
    if norm_g != wev:
        for i, (a, b) in enumerate(zip(norm_g + [None] * len(wev), wev + [None] * len(norm_g))):
            if a != b:
                return f'step {i + 1} is {a!r}; the documented semantics give {b!r} (full trace {norm_g!r})'
    if go[0] != wo[0] or (go[0] == 'raise' and go[1] != wo[1]):
        return f'ends with {go[:2]!r} instead of {wo[:2]!r}'
    if go[0] == 'raise' and isinstance(wo[2], tuple):
        kind, U = wo[2]
        if not any(_mentions(a, U) for a in go[2]):
            return f'the {go[1]} does not name the resolved location {U!r}: {go[2]!r}'
        if kind == 'Included':
            key = repr(U)
            if not (len(go[2]) >= 5 and go[2][0] == Sym('perr', key) and go[2][1] == Sym('pline', key) and go[2][2] == Sym('pcol', key) and go[2][3] == Sym('plineno', key)):
                return f'the re-raised parser error does not carry the original error / line / column / line number of the included text followed by a prefix: {go[2]!r}'
            others = [a for a in go[2][4:]]
            if any(_mentions(a, Sym('wrong')) for a in others):
                return 'bad prefix'
    if gc != wc:
        return f'leaves statementCount = {gc}; {wc} statements were started'
    return None
