"""E6s: abstract interpretation of runtime._execute_script_helper over jump-level models with opaque expressions.

A model is a short list of statement objects (label / jump / conditional jump / expression / assignment / return) whose
expressions are opaque symbols; `evaluate_expression` is an oracle that records which expression is evaluated under which
locals and returns an opaque value; `value_boolean` of such a value follows a fixed truth schedule; the host truthiness
of an opaque value is NOT defined (using it is reported).  The statement loop itself - program counter, counter/limit
bookkeeping, label search and cache, returns - is evaluated exactly by absint.Interp, so the verdict depends on what
the loop does and not on how it is spelled.  The reference is the documented statement semantics (twenty lines).
"""
import ast

from .core import Unrecognised, norm
from .absint import Interp, Sym, ADict, AList, RaiseSig, ReturnSig, reify


class HostTruth(Exception):
    def __init__(self, node):
        self.node = node


class StepInterp(Interp):
    def __init__(self, repo, mod, rule='E6s'):
        super().__init__(mod, rule)
        self.repo = repo
        self.max_depth = 6
        self.events = []
        self.schedule = []
        self.n_eval = 0
        self.oracles['evaluate_expression'] = self._evaluate
        self.oracles['value_boolean'] = self._boolean

    def _evaluate(self, args, node):
        if not args or not isinstance(args[0], Sym) or args[0].kind != 'e':
            raise Unrecognised(self.rule, f'evaluate_expression called with {args[:1]!r}, not with an expression of the model: {norm(node)[:80]}', self.mod.rel)
        scope = 'locals' if (len(args) > 2 and isinstance(args[2], ADict)) else 'globals' if (len(args) > 2 and args[2] is None) else '?'
        opts = args[1] if len(args) > 1 else None
        self.events.append(('eval', args[0].args[0], scope, 'same-options' if opts is self.options else 'other-options',
                            reify(args[3]) if len(args) > 3 else 'default', _snap(args[2]) if len(args) > 2 and isinstance(args[2], ADict) else None,
                            args[2] if len(args) > 2 else None))
        v = Sym('value', self.n_eval)
        self.n_eval += 1
        return v

    def _boolean(self, args, node):
        v = args[0]
        if isinstance(v, Sym) and v.kind == 'value':
            k = v.args[0]
            return self.schedule[k % len(self.schedule)] if self.schedule else True
        raise Unrecognised(self.rule, f'value_boolean of {v!r}', self.mod.rel)

    def truth(self, v, node=None):
        if isinstance(v, Sym) and v.kind == 'value':
            raise HostTruth(node)
        if isinstance(v, tuple) and v and v[0] in ('partial', 'closure'):
            return True
        return super().truth(v, node)

    def method_hook(self, base, m, args, e):
        if isinstance(base, tuple) and base and base[0] == 'module' and base[1] == 'functools' and m == 'partial' and args:
            return ('partial', args[0], tuple(args[1:]))
        return NotImplemented

    def prepare(self, scope, limit, globals_init=None):
        self.events = []
        self.n_eval = 0
        self.depth = 0
        self.globals_obj = ADict(dict(globals_init or {}))
        self.options = ADict({'globals': self.globals_obj, 'statementCount': 0, 'maxStatements': limit})
        return ADict({}) if scope == 'function' else None

    def run(self, func, statements, scope, schedule, limit):
        """-> dict(outcome=('return', v) | ('raise', cls, msg), events=[...], globals=..., locals=..., count=...)"""
        self.events = []
        self.schedule = schedule
        self.n_eval = 0
        self.depth = 0
        globals_ = ADict({})
        self.options = ADict({'globals': globals_, 'statementCount': 0, 'maxStatements': limit})
        locals_ = ADict({}) if scope == 'function' else None
        params = [a.arg for a in func.args.args]
        if len(params) != 3:
            raise Unrecognised(self.rule, f'{func.name} does not take (statements, options, locals)', self.mod.rel)
        try:
            val = self.call_function(func, [statements, self.options, locals_], func)
            outcome = ('return', val)
        except RaiseSig as sig:
            msg = sig.args_[0] if sig.args_ else ''
            outcome = ('raise', sig.cls, msg if isinstance(msg, str) else repr(msg))
        return {'outcome': outcome, 'events': list(self.events), 'globals': reify(globals_), 'locals': reify(locals_) if locals_ is not None else None,
                'count': self.options.d.get('statementCount')}


def _snap(d):
    """shallow snapshot of a locals dict: lists are copied (content), other values kept"""
    return {k: (('list', tuple(v.l)) if isinstance(v, AList) else v) for k, v in d.d.items()}


def reference(model, scope, schedule, limit):
    """documented semantics of a jump-level statement list"""
    events = []
    g, l = {}, ({} if scope == 'function' else None)
    n_eval = 0
    count = 0
    pc = 0

    def ev(e):
        nonlocal n_eval
        events.append(('eval', e.args[0], 'locals' if l is not None else 'globals', 'same-options', False))
        v = Sym('value', n_eval)
        n_eval += 1
        return v

    def truth(v):
        return schedule[v.args[0] % len(schedule)] if schedule else True
    while pc < len(model):
        st = model[pc]
        count += 1
        if limit > 0 and count > limit:
            return {'outcome': ('raise', 'BareScriptRuntimeError', 'Exceeded'), 'events': events, 'globals': g, 'locals': l, 'count': count}
        (k, v), = st.items()
        if k == 'expr':
            val = ev(v['expr'])
            if v.get('name') is not None:
                (l if l is not None else g)[v['name']] = val
        elif k == 'jump':
            if 'expr' not in v or truth(ev(v['expr'])):
                ix = next((i for i, s in enumerate(model) if s.get('label') == v['label']), None)
                if ix is None:
                    return {'outcome': ('raise', 'BareScriptRuntimeError', 'Unknown jump label'), 'events': events, 'globals': g, 'locals': l, 'count': count}
                pc = ix
        elif k == 'return':
            return {'outcome': ('return', ev(v['expr']) if 'expr' in v else None), 'events': events, 'globals': g, 'locals': l, 'count': count}
        pc += 1
    return {'outcome': ('return', None), 'events': events, 'globals': g, 'locals': l, 'count': count}


def build(model):
    """python model -> abstract heap objects; expressions are Sym('e', id)"""
    def conv(v):
        if isinstance(v, dict):
            return ADict({k: conv(x) for k, x in v.items()})
        if isinstance(v, list):
            return AList([conv(x) for x in v])
        return v
    return conv(model)


def show(model):
    out = []
    for st in model:
        (k, v), = st.items()
        if k == 'label':
            out.append(f'{v}:')
        elif k == 'jump':
            out.append(f'jumpif ({v["expr"].args[0]}) {v["label"]}' if 'expr' in v else f'jump {v["label"]}')
        elif k == 'return':
            out.append(f'return {v["expr"].args[0]}' if 'expr' in v else 'return')
        elif k == 'expr':
            out.append((f'{v["name"]} = ' if 'name' in v else '') + str(v['expr'].args[0]))
    return ' ; '.join(out)


def compare(got, want):
    """None when the run agrees with the reference, else a description"""
    go, wo = got['outcome'], want['outcome']
    if go[0] != wo[0]:
        return f'ends with {go} instead of {wo}'
    if go[0] == 'raise':
        if go[1] != wo[1] or wo[2] not in go[2]:
            return f'raises {go[1]}({go[2]!r}) instead of {wo[1]}("{wo[2]} ...")'
    elif go[1] != wo[1]:
        return f'returns {go[1]!r} instead of {wo[1]!r}'
    ge = [(e[1], e[2]) for e in got['events']]
    we = [(e[1], e[2]) for e in want['events']]
    if ge != we:
        return f'evaluates expressions {[f"{a}@{b}" for a, b in ge]} instead of {[f"{a}@{b}" for a, b in we]}'
    if any(e[3] != 'same-options' for e in got['events']):
        return 'evaluates an expression under another options object'
    if got['globals'] != want['globals'] or got['locals'] != want['locals']:
        return f'leaves globals={got["globals"]} locals={got["locals"]} instead of globals={want["globals"]} locals={want["locals"]}'
    if got['count'] != want['count']:
        return f'counts {got["count"]} statements instead of {want["count"]}'
    return None
