"""E6p: parse_script evaluated by the abstract interpreter on CONCRETE source texts (layout variants).

The statement regexes are read from the repository's source and applied with the host regex semantics (absint.CMatch);
`parse_expression` is an oracle answered by the independent expression parser of sa/barefront.py (canonical text of the
expression tree, so blanks inside an expression do not matter).  Everything else - line splitting, comment / blank skipping,
continuation joining, the statement dispatch, label generation, include merging - is the repository's code, evaluated.

The rule is metamorphic (C10): every layout variant of a program gives the model of its canonical layout.  Variants are
generated from the language definition (sa/barefront.py decides where a blank is allowed), never from the repository's
regexes.
"""
import itertools

from .core import Unrecognised
from .absint import Interp, Sym, ADict, AList, RaiseSig, reify
from . import barefront


class ParseInterp(Interp):
    def __init__(self, repo, mod, rule='E6p'):
        super().__init__(mod, rule)
        self.repo = repo
        self.max_depth = 12
        self.oracles['parse_expression'] = self._parse_expression

    def _parse_expression(self, args, node):
        text = args[0]
        if not isinstance(text, str):
            raise Unrecognised(self.rule, f'parse_expression applied to the non-text value {text!r}', self.mod.rel)
        try:
            return Sym('parsed', barefront.show(barefront.parse_expr(text, 0)))
        except barefront.BareSyntaxError as exc:
            raise RaiseSig('BareScriptParserError', ('Syntax error', text, 1), node)

    def parse(self, func, source):
        """source: str | list of chunk strings -> ('ok', model) | ('error', cls, args)"""
        self.depth = 0
        self._lazy = {k: v for k, v in self._lazy.items() if not isinstance(v, (ADict, AList))}      # no state survives between calls
        arg = AList(list(source)) if isinstance(source, (list, tuple)) else source
        try:
            v = self.call_function(func, [arg], func)
        except RaiseSig as sig:
            return ('error', sig.cls, tuple(_plain(a) for a in sig.args_))
        return ('ok', _plain(reify(v)))


def _plain(v):
    if isinstance(v, Sym):
        if v.kind != 'parsed':
            raise Unrecognised('E6p', f'the parser evaluation produced the unmodelled value {v!r}', None)
        return ('expr', v.args[0])
    if isinstance(v, dict):
        return {k: _plain(x) for k, x in v.items()}
    if isinstance(v, (list, tuple)):
        return [_plain(x) for x in v]
    return v


# ------------------------------------------------------------------------------------------------ programs and layout variants
PROGRAMS = {
    'statements': [
        "x = 1",
        "function f(a, b):",
        "    return a + b",
        "endfunction",
        "async function g(a, rest...):",
        "    return",
        "endfunction",
        "function h():",
        "    y = f(x, 2)",
        "endfunction",
        "if x > 1:",
        "    y = 2",
        "elif x:",
        "    y = 3",
        "else:",
        "    y = 4",
        "endif",
        "while x < 3:",
        "    x = x + 1",
        "    if x:",
        "        break",
        "    endif",
        "    continue",
        "endwhile",
        "for v, i in arr:",
        "    jumpif (v) skip",
        "    f(v, i)",
        "    skip:",
        "endfor",
        "for w in arr:",
        "    jump out",
        "endfor",
        "out:",
        "return x",
    ],
    'includes': [
        "include 'a.bare'",
        "include <b.bare>",
        "include 'c.bare'",
        "include 'a.bare'",
        "x = 1",
        "include <d.bare>",
    ],
    # text that only looks like layout: line-separator-like characters, runs of blanks and tabs INSIDE string literals and comments, non-ASCII names
    'literals': [
        "s = 'a\u2028b' + 'c\x0cd' + 'e\x85f'",
        "# comment with \u2029 and \x0b and \x1c inside",
        "t = 'two  blanks' + \"tab\there\" + '  lead and trail  '",
        "function größe(höhe, linκs):",
        "    return höhe + linκs + 'x  y'",
        "endfunction",
        "u = f(s, 'a  b', \"c\td\")",
        "if t == '  ':",
        "    u = 'in  block'",
        "endif",
    ],
}


# absolute expectations for the models of the canonical layouts (where the metamorphic relation alone would accept a consistently wrong parser)
def absolute_problems(pname, model):
    out = []
    stmts = model.get('statements', []) if isinstance(model, dict) else []
    if pname == 'literals':
        fns = [s['function'] for s in stmts if isinstance(s, dict) and 'function' in s]
        if not fns or fns[0].get('name') != 'größe' or fns[0].get('args') != ['höhe', 'linκs']:
            out.append(f'the function header `function größe(höhe, linκs):` is parsed as {fns[0] if fns else None!r}'[:300])
        first = stmts[0] if stmts else None
        want = barefront.show(barefront.parse_expr("'a\u2028b' + 'c\x0cd' + 'e\x85f'", 0))
        if not (isinstance(first, dict) and first.get('expr', {}).get('name') == 's' and list(first['expr'].get('expr') or ()) == ['expr', want]):
            out.append(f'the assignment of a string with U+2028 / form feed / U+0085 inside is parsed as {first!r}'[:300])
        n_top = len([s for s in stmts if isinstance(s, dict)])
        if n_top < 5:
            out.append(f'only {n_top} statements for the program "literals"')
    if pname == 'includes':
        incs = [s['include']['includes'] for s in stmts if isinstance(s, dict) and 'include' in s]
        urls = [[i.get('url') for i in g] for g in incs]
        if urls != [['a.bare', 'b.bare', 'c.bare', 'a.bare'], ['d.bare']]:
            out.append(f'the include lines a, b, c, a / x = 1 / d are parsed as {urls!r} (a repeated include is a second include)')
    return out


def _classify(line):
    for kind, rx in barefront.STATEMENTS:
        m = rx.match(line)
        if m:
            groups = {k: ((v.strip() or None) if isinstance(v, str) and k not in ('url', 'sys') else v) for k, v in m.groupdict().items()}
            if kind == 'function' and groups.get('args'):
                groups['args'] = [a.strip() for a in groups['args'].split(',')]
            for k in ('expr',):
                if groups.get(k):
                    try:
                        groups[k] = barefront.show(barefront.parse_expr(groups[k], 0))
                    except barefront.BareSyntaxError:
                        return None
            if kind == 'function':
                groups['async'] = bool(groups.get('async'))
                groups['last'] = bool(groups.get('last'))
            return kind, groups
    try:
        return 'expr', {'expr': barefront.show(barefront.parse_expr(line, 0))}
    except barefront.BareSyntaxError:
        return None


_PUNCT = '(),:=.<>'


def _gaps(line):
    """positions of the line (outside string literals) where a blank may be inserted without splitting a word, number or multi-character operator: around punctuation"""
    out = []
    quote = None
    body = line.rstrip()
    for i, ch in enumerate(body):
        if quote:
            if ch == quote:
                quote = None
            continue
        if ch in '\'"':
            quote = ch
            continue
        if ch in _PUNCT:
            out.append(i)
            out.append(i + 1)
    return sorted(set(out))


def line_variants(line):
    """respellings of one canonical line that the language definition classifies identically (same statement kind, same names, same expression)"""
    base = _classify(line)
    if base is None:
        return []
    cands = set()
    stripped = line.strip()
    cands.update({stripped, '\t' + stripped, '  ' + stripped + '   ', stripped + '\t', stripped + ' '})
    for g in _gaps(line):
        cands.add((line[:g] + ' ' + line[g:]).rstrip() if False else line[:g] + ' ' + line[g:])
        cands.add(line[:g] + '  ' + line[g:] + '  ')
    # all gaps at once, and blanks around punctuation removed
    s = line
    for g in reversed(_gaps(line)):
        s = s[:g] + ' ' + s[g:]
    cands.add(s)
    import re as _re
    cands.add(_re.sub(r'\s*([(),:=])\s*', r'\1', stripped) if "'" not in stripped and '"' not in stripped and '<' not in stripped else stripped)
    # runs of blanks doubled
    cands.add(_re.sub(r' ', '  ', stripped) if "'" not in stripped and '"' not in stripped else stripped)
    cands.discard(line)
    return sorted(c for c in cands if _classify(c) == base)


def continuation_variants(line):
    """the line broken with a trailing backslash at every blank outside string literals (the next part indented or not)"""
    out = []
    quote = None
    for i, ch in enumerate(line):
        if quote:
            if ch == quote:
                quote = None
            continue
        if ch in '\'"':
            quote = ch
            continue
        if ch == ' ' and line[:i].strip() and line[i:].strip():
            out.append([line[:i] + ' \\', '    ' + line[i + 1:]])
            out.append([line[:i] + '\\  ', line[i + 1:]])
    return out


def run_layout(repo, tier='quick', rule='E6p'):
    """-> (n variants evaluated, problems [(kind, message)])"""
    mod = repo.module('parser')
    func = mod.funcs.get('parse_script')
    if func is None:
        raise Unrecognised(rule, 'parse_script not found', mod.rel)
    it = ParseInterp(repo, mod, rule)
    problems, n = [], 0

    def show_src(src):
        return repr(src if isinstance(src, str) else list(src))[:160]

    for pname, lines in PROGRAMS.items():
        base_text = '\n'.join(lines) + '\n'
        base = it.parse(func, base_text)
        if base[0] != 'ok':
            if pname == 'literals':
                problems.append(('rejected', f'the well-formed program "literals" (string literals / comments containing U+2028, form feed, U+0085, U+2029, VT, FS; non-ASCII names) is rejected: '
                                             f'{base[1]}{tuple(base[2][:2])!r}'[:300]))
                continue
            # the canonical programs are well formed by the language definition (they are what sa/barefront.py parses): a parser error on one of them is a deviation
            problems.append(('rejected', f'the well-formed program "{pname}" in its canonical layout (one statement per line, four blanks per level, LF) is rejected: '
                                         f'{base[1]}{tuple(base[2][:2])!r}'[:300]))
            continue
        for msg in absolute_problems(pname, base[1]):
            problems.append(('model', msg))

        def check(desc, src):
            nonlocal n
            n += 1
            got = it.parse(func, src)
            if got[0] == 'error':
                problems.append(('rejected', f'{desc}: {show_src(src)} raises {got[1]}{tuple(got[2][:1])!r} although the canonical layout parses'))
            elif got[1] != base[1]:
                diff = _first_diff(base[1], got[1])
                problems.append(('model', f'{desc}: the model differs from that of the canonical layout at {diff}'))

        # 1. one line respelled at a time
        for ix, ln in enumerate(lines):
            for v in line_variants(ln):
                check(f'"{pname}": line {ix + 1} spelled {v!r} instead of {ln!r}', '\n'.join(lines[:ix] + [v] + lines[ix + 1:]) + '\n')
        # 2. line ends and chunking
        check(f'"{pname}": CRLF line ends', '\r\n'.join(lines) + '\r\n')
        check(f'"{pname}": no final newline', '\n'.join(lines))
        check(f'"{pname}": one chunk per line', [ln for ln in lines])
        check(f'"{pname}": one chunk per line, each newline-terminated', [ln + '\n' for ln in lines])
        for cut in range(1, len(lines), 3 if tier != 'thorough' else 1):
            check(f'"{pname}": two chunks cut after line {cut}', ['\n'.join(lines[:cut]), '\n'.join(lines[cut:])])
            check(f'"{pname}": two newline-terminated chunks cut after line {cut}', ['\n'.join(lines[:cut]) + '\n', '\n'.join(lines[cut:]) + '\n'])
        # 3. blank and comment lines anywhere
        for filler in ('', '   ', '# comment', '  # indented comment \\'):
            for ix in range(len(lines) + 1):
                check(f'"{pname}": {filler!r} inserted before line {ix + 1}', '\n'.join(lines[:ix] + [filler] + lines[ix:]) + '\n')
        check(f'"{pname}": a blank line and a comment between all lines', '\n'.join(x for ln in lines for x in (ln, '', '# c')) + '\n')
        # 4. continuation at every blank, also with a comment / blank line inside the continued line
        for ix, ln in enumerate(lines):
            if barefront.R_COMMENT.match(ln):
                continue          # a comment line is skipped before continuations are looked at: it cannot be continued
            cvs = continuation_variants(ln)
            if tier != 'thorough':
                cvs = cvs[:2] + cvs[2::3]         # both spellings at the first blank, then every third variant (alternating spellings)
            for parts in cvs:
                check(f'"{pname}": line {ix + 1} continued as {parts!r}', '\n'.join(lines[:ix] + parts + lines[ix + 1:]) + '\n')
            if cvs:
                parts = cvs[0]
                check(f'"{pname}": line {ix + 1} continued with a comment and a blank line inside', '\n'.join(lines[:ix] + [parts[0], '# inside', '', parts[1]] + lines[ix + 1:]) + '\n')
                check(f'"{pname}": line {ix + 1} continued across two chunks', ['\n'.join(lines[:ix] + [parts[0]]), '\n'.join([parts[1]] + lines[ix + 1:])])
    return n, problems


def _first_diff(a, b, path='model'):
    if type(a) is not type(b):
        return f'{path}: {a!r} vs {b!r}'[:300]
    if isinstance(a, dict):
        for k in sorted(set(a) | set(b), key=str):
            if k not in a or k not in b:
                return f'{path}.{k}: {"missing" if k not in b else "extra"} ({(a.get(k) if k in a else b.get(k))!r})'[:300]
            d = _first_diff(a[k], b[k], f'{path}.{k}')
            if d:
                return d
        return None
    if isinstance(a, list):
        for i, (x, y) in enumerate(zip(a, b)):
            d = _first_diff(x, y, f'{path}[{i}]')
            if d:
                return d
        if len(a) != len(b):
            return f'{path}: {len(a)} items vs {len(b)} items (first extra: {(a[len(b)] if len(a) > len(b) else b[len(a)])!r})'[:300]
        return None
    return None if a == b else f'{path}: {a!r} vs {b!r}'[:300]


# ------------------------------------------------------------------------------------------------ parse_expression on concrete texts
def _expr_model(e):
    from .lintsim import expr_model
    return expr_model(e)


OPS = ['**', '*', '/', '%', '+', '-', '<=', '<', '>=', '>', '==', '!=', '&&', '||']


def expression_corpus(tier='quick'):
    """(text, 'parse' | 'reject' | 'either') - expectations from the independent front-end (sa/barefront.py)"""
    texts = []
    names = ['a', 'b', 'c', 'd', 'e']
    for o1 in OPS:
        texts.append(f'a {o1} b')
        texts.append(f'a{o1}b')
        for o2 in OPS:
            texts.append(f'a {o1} b {o2} c')
    three = [f'a {o1} b {o2} c {o3} d' for o1 in OPS for o2 in OPS for o3 in OPS]
    four = [f'a {o1} b {o2} c {o3} d {o4} e' for o1 in OPS for o2 in OPS for o3 in OPS for o4 in OPS]
    texts += three[::(1 if tier == 'thorough' else 3)] + four[::(13 if tier == 'thorough' else 97)]
    texts += ['!a', '-a', '!-a', '-!a', '!!a', '--a', '- -a', '! - ! a', '!(a)', '-(1)', '-1', '-1.5', '!a && -b', '-a ** 2', '!a == b', '-(a + b) * c', '!f(a)', '-f(a) + 1',
              '1', '1.5', '10', '0', '1e3', '1e+3', '1.5e-3', '1e+20', '5e-324', '+5', 'a * +2', '-+3', 'f(+1)', '(+7) % 2', '1 + +2', '1 - -2',
              "'a'", '"a"', "'it\\'s'", '"q\\"x"', "'back\\\\slash'", "''", '""', "'a b'", "'1.0,'", "'a' + \"b\"", "'é '",
              'f()', 'f(a)', 'f(a, b)', 'f( a ,b )', 'f(g(a), 1 + 2)', 'f(a)(b)', 'f (a)', 'ff(a)', 'f1(a)', '_f(a)', 'if(a, b, c)',
              '[a b]', '[x\\]y]', '[a] + [b c]', '((a))', '(a + b) * c', 'a * (b + c)', '(a)', '( a )', ' a+b ', 'a  +  b', 'a\t+\tb', 'true', 'null', 'false && true',
              '[a)] + 1', '1 + [x)] * 2', 'f([total (net)], [b)])', '([:-)] || b) && c', "'a)' + b", '"(" + \')\'', "f(')', \"(\")", "[a'b]", "['q']", "'[x]'", '[a,b]', "f([a,b], ',')",
              "'a, b'", '[1 + 2]', "'-1'", '[if]', '[a(b]', "'f(' + [)]", '[ ]', "'\\'' + [\\]]", '"a\'b" + \'c"d\'',
              '1.', '1. + 2 * 3', '007 + 1', '2 ** 010', '1e5', '2 * 3E2', '1_000', '1_', '12_.5', '.5', '1..2', '1e', '1e+', '0x1F', '0x', '1.5.2',
              'a +', '+', 'a b', '(a', 'a)', '', '   ', 'a + * b', '1 2', 'f(a,)', 'f(,)', 'f(a,,b)', 'f(a b)', 'a && ', '()', 'a ! b', "'abc", '1 +', '[a', 'a ** ', '* a', 'f(', 'f(a']
    out = []
    for t in texts:
        try:
            out.append((t, _expr_model(barefront.parse_expr(t, 0))))
        except barefront.BareSyntaxError:
            out.append((t, None))
    return out


def run_expressions(repo, tier='quick', rule='E6p'):
    """parse_expression evaluated on concrete expression texts against the precedence / associativity reading of the independent front-end -> (n, problems)"""
    mod = repo.module('parser')
    func = mod.funcs.get('parse_expression')
    if func is None:
        raise Unrecognised(rule, 'parse_expression not found', mod.rel)
    it = Interp(mod, rule)
    it.repo = repo
    it.max_depth = 60
    it.concrete_asserts = True
    problems, n = [], 0
    for text, want in expression_corpus(tier):
        n += 1
        it.depth = 0
        try:
            got = reify(it.call_function(func, [text], func))
        except RaiseSig as sig:
            if sig.cls != 'BareScriptParserError':
                problems.append(('raise', f'parse_expression({text!r}) raises {sig.cls}'))
                continue
            got = None
        if isinstance(got, Sym) or _has_sym(got):
            raise Unrecognised(rule, f'parse_expression({text!r}) evaluates to the unmodelled value {got!r}'[:200], mod.rel)
        if want is None and got is not None:
            problems.append(('accepted', f'parse_expression({text!r}) returns {_short(got)}; the text is not a well-formed expression and must be rejected with a parser error'))
        elif want is not None and got is None:
            problems.append(('rejected', f'parse_expression({text!r}) is rejected with a parser error; it is well formed: {_short(want)}'))
        elif want is not None and not _same_expr(got, want):
            problems.append(('tree', f'parse_expression({text!r}) returns {_short(got)}; the precedence and associativity rules give {_short(want)}'))
    return n, problems


def _has_sym(v):
    if isinstance(v, Sym):
        return True
    if isinstance(v, dict):
        return any(_has_sym(x) for x in v.values())
    if isinstance(v, (list, tuple)):
        return any(_has_sym(x) for x in v)
    return False


def _same_expr(a, b):
    if isinstance(a, dict) and isinstance(b, dict) and ('name' in a or 'name' in b) and ('args' in a) != ('args' in b):
        # a call without arguments: the args member may be absent or an empty list
        a = {k: v for k, v in a.items() if not (k == 'args' and v == [])}
        b = {k: v for k, v in b.items() if not (k == 'args' and v == [])}
    if isinstance(a, dict) and isinstance(b, dict):
        return set(a) == set(b) and all(_same_expr(a[k], b[k]) for k in a)
    if isinstance(a, list) and isinstance(b, list):
        return len(a) == len(b) and all(_same_expr(x, y) for x, y in zip(a, b))
    if isinstance(a, (int, float)) and isinstance(b, (int, float)) and not isinstance(a, bool) and not isinstance(b, bool):
        return a == b
    return type(a) is type(b) and a == b


def _short(m):
    def sh(e):
        if not isinstance(e, dict) or len(e) != 1:
            return repr(e)
        k, v = next(iter(e.items()))
        if k == 'number':
            return repr(v)
        if k == 'string':
            return repr(v)
        if k == 'variable':
            return v
        if k == 'group':
            return '(' + sh(v) + ')'
        if k == 'unary':
            return f"{v.get('op')}{sh(v.get('expr'))}"
        if k == 'binary':
            return f"[{sh(v.get('left'))} {v.get('op')} {sh(v.get('right'))}]"
        if k == 'function':
            return f"{v.get('name')}({', '.join(sh(a) for a in v.get('args', []))})"
        return repr(e)
    return sh(m)[:160]


# ------------------------------------------------------------------------------------------------ error positions (C06)
ERROR_BASE = [
    "# a comment line",
    "x = 1",
    "",
    "function f(a, b):",
    "    y = a + b",
    "    if {E:y > 1}:",
    "        return {E:y}",
    "    elif {E:y}:",
    "        y = {E:2}",
    "    endif",
    "    while {E:a < 3}:",
    "        a = a + 1",
    "    endwhile",
    "    for v, i in {E:arrayNew(1, 2)}:",
    "        systemLog({E:v})",
    "    endfor",
    "    return a",
    "endfunction",
    "z = f(1, \\",
    "    2)",
    "w = {E:z * 2}",
    "{E:systemLog(w)}",
]
FAULTS = ['$', 'a + $', 'f(1, $ 2)', '(a $)', "'abc' $ b", 'a +', '1 2']


def _fill(lines, fault_at=None, fault=None):
    out = []
    k = 0
    for ln in lines:
        while '{E:' in ln:
            i = ln.index('{E:')
            j = ln.index('}', i)
            rep = fault if k == fault_at else ln[i + 3:j]
            ln = ln[:i] + rep + ln[j + 1:]
            k += 1
        out.append(ln)
    return out, k


def run_error_positions(repo, tier='quick', rule='E6p'):
    """parse_script AND parse_expression evaluated on concrete programs with one faulty expression: the error is a BareScriptParserError that carries the text of the faulty line, a
    column at the first character that cannot continue the expression, and the 1-based number of the line; prepending lines / a start line number shift exactly that number; a block left
    open, a deleted closing keyword and a final continuation backslash are rejected -> (n, problems [(kind, message)])"""
    mod = repo.module('parser')
    func = mod.funcs.get('parse_script')
    if func is None:
        raise Unrecognised(rule, 'parse_script not found', mod.rel)
    it = Interp(mod, rule)
    it.repo = repo
    it.max_depth = 60
    it.concrete_parse = True
    it.concrete_asserts = True
    problems, n = [], 0

    def parse(text, *extra):
        it.depth = 0
        it._lazy = {k: v for k, v in it._lazy.items() if not isinstance(v, (ADict, AList))}
        try:
            return ('ok', it.call_function(func, [text] + list(extra), func))
        except RaiseSig as sig:
            return ('error', sig.cls, tuple(sig.args_))
    good, slots = _fill(ERROR_BASE)
    base = parse('\n'.join(good) + '\n')
    n += 1
    if base[0] != 'ok':
        problems.append(('rejected', f'the well-formed base program is rejected: {base[1]}{base[2][:2]!r}'[:300]))
        return n, problems
    faults = FAULTS if tier == 'thorough' else FAULTS[:5]
    for slot in range(slots):
        for fault in faults:
            lines, _k = _fill(ERROR_BASE, slot, fault)
            # the faulty line and the column of the first character that cannot continue an expression there
            bad_ix = next(i for i, (a, b) in enumerate(zip(lines, good)) if a != b)
            bad = lines[bad_ix]
            # the column lies inside the faulty expression, not after the first character that cannot continue it (which token of the expression it names is the parser's choice)
            lo = next(i for i, (c1, c2) in enumerate(zip(bad, good[bad_ix] + '\0' * len(bad))) if c1 != c2) + 1
            lo = min(lo, bad.index(fault) + 1)
            if '$' in fault:
                hi = bad.index('$') + 1
            elif fault == 'a +':
                hi = len(bad) + 1       # the expression ends too early
            else:
                hi = bad.index('1 2') + 3      # the second operand
            first_col = None
            whole_line = bad[:lo - 1].strip() == ''         # an expression statement: the expression text is the whole line, leading blanks included
            if whole_line:
                lo = 1
            for prefix, start, indent in (([], None, 0), (['# c', '', 'q = 1'], None, 0), ([], 10, 0), ([], None, 3), ([], None, -3),
                                          (['', '# c', '', '', 'q = 1', ''], None, 'parts'), (['', ''], 5, 'parts')):
                as_parts = indent == 'parts'        # the script given as an iterable of lines (one part per line, blank lines are empty parts): same positions
                if as_parts:
                    indent = 0
                if indent and whole_line:
                    continue
                n += 1
                trailing = indent < 0
                if indent < 0:
                    # blanks after the statement: same position, the line text as written
                    bad_i = bad + ' ' * (-indent)
                    text = '\n'.join(lines[:bad_ix] + [bad_i] + lines[bad_ix + 1:]) + '\n'
                    indent = 0
                elif indent:
                    bad_i = ' ' * indent + bad
                    text = '\n'.join(lines[:bad_ix] + [bad_i] + lines[bad_ix + 1:]) + '\n'
                else:
                    bad_i = bad
                    text = '\n'.join(prefix + lines) + '\n'
                if as_parts:
                    text = AList(list(prefix + lines))
                got = parse(text) if start is None else parse(text, start)
                desc = f'faulty expression {fault!r} in the line {bad.strip()!r}' + (f' after {len(prefix)} prepended lines' if prefix else '') + (f' with start line {start}' if start else '') + \
                    (' given as a list of lines (blank lines are empty parts)' if as_parts else '') + \
                    (f' indented by {indent} more blanks' if indent else '') + (' followed by 3 blanks' if trailing else '')
                if got[0] == 'ok':
                    problems.append(('accepted', f'{desc}: parse_script accepts the program'))
                    continue
                if got[1] != 'BareScriptParserError':
                    problems.append(('host', f'{desc}: parse_script raises {got[1]}{got[2][:1]!r} instead of BareScriptParserError'))
                    continue
                a = got[2]
                if len(a) < 4 or any(isinstance(x, Sym) for x in a[:4]):
                    raise Unrecognised(rule, f'{desc}: the parser error carries {a!r}'[:200], mod.rel)
                line, column, lineno = a[1], a[2], a[3]
                want_no = bad_ix + 1 + len(prefix) + ((start - 1) if start else 0)
                if line != bad_i:
                    problems.append(('line', f'{desc}: the error carries the line text {line!r}, not the offending line {bad_i!r}'))
                elif lineno != want_no:
                    problems.append(('number', f'{desc}: the error reports line {lineno!r}; the faulty line is line {want_no} (1-based, offset by the start line)'))
                elif not isinstance(column, int) or isinstance(column, bool) or not (lo + indent <= column <= hi + indent):
                    problems.append(('column', f'{desc}: the error reports column {column!r}; the faulty expression occupies the columns {lo + indent} .. {hi + indent} of the line '
                                               f'(up to the first character that cannot continue it)'))
                elif first_col is None:
                    first_col = column
                elif column != first_col + indent:
                    problems.append(('column', f'{desc}: the error reports column {column}; the same line gave column {first_col} before (lines prepended, a start line number and '
                                               f'indentation move the position by exactly their amount)'))
    # blocks left open, deleted closers, a final continuation
    for desc, drop in (('endif deleted', '    endif'), ('endwhile deleted', '    endwhile'), ('endfor deleted', '    endfor'), ('endfunction deleted', 'endfunction')):
        n += 1
        lines = [ln for ln in good if ln != drop]
        got = parse('\n'.join(lines) + '\n')
        if got[0] == 'ok':
            problems.append(('open', f'{desc}: parse_script accepts a program whose block is never closed'))
        elif got[1] != 'BareScriptParserError':
            problems.append(('host', f'{desc}: parse_script raises {got[1]} instead of BareScriptParserError'))
    for desc, text in (('the last line ends in a continuation backslash', 'x = 1\ny = 2 + \\\n'), ('the only line ends in a continuation backslash', 'x = 1 \\'),
                       ('an if left open at end of input', 'if x:\n    y = 1\n'), ('a function left open inside which an if is closed', 'function f():\n    if x:\n    endif\n')):
        n += 1
        got = parse(text)
        if got[0] == 'ok':
            problems.append(('open', f'{desc}: parse_script accepts the text'))
        elif got[1] != 'BareScriptParserError':
            problems.append(('host', f'{desc}: parse_script raises {got[1]}{got[2][:1]!r} instead of BareScriptParserError'))
    return n, problems
