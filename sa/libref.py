"""E6c: the array / object / string library functions evaluated against reference list / dict / str models.

Each function is evaluated by the abstract interpreter (libsim.LibInterp: the repository's own code, including
value_args_validate) on concrete argument lists drawn from pools - aliased containers, indices -2 .. len+2 spelled as floats
and as host ints, wrong-typed values of every type, missing and surplus arguments.  The outcome (result, identity of the
result with an argument or freshness, post-call state of every argument container, failure value) is compared with the
reference model below, which is written from the function documentation ($doc / $arg / $return) and the property text:

  * a wrong-typed, missing, surplus or out-of-range argument gives the documented failure value (null; -1 for the index
    searches; 0 for the length functions; false for objectHas) and leaves every argument unchanged;
  * mutators change exactly the passed container (the same object), copies / slices are fresh and shallow.

Ambiguous corners the documentation does not fix are kept out of the pools (empty search strings, sort with a script
function, match functions - those are decided elsewhere).
"""
import itertools
import re
import urllib.parse

from .core import Unrecognised
from .absint import ADict, AList, Sym, RaiseSig, reify


class Fail(Exception):
    pass


def tname(v):
    if v is None:
        return 'null'
    if isinstance(v, bool):
        return 'boolean'
    if isinstance(v, (int, float)):
        return 'number'
    if isinstance(v, str):
        return 'string'
    if isinstance(v, list):
        return 'array'
    if isinstance(v, dict):
        return 'object'
    return 'other'


def ref_compare(a, b):
    if a is None or b is None:
        return 0 if (a is None and b is None) else (-1 if a is None else 1)
    ta, tb = tname(a), tname(b)
    if ta != tb:
        return (ta > tb) - (ta < tb)
    if ta in ('boolean', 'number', 'string'):
        return (a > b) - (a < b)
    if ta == 'array':
        for x, y in zip(a, b):
            c = ref_compare(x, y)
            if c:
                return c
        return (len(a) > len(b)) - (len(a) < len(b))
    if ta == 'object':
        ia, ib = sorted(a.items()), sorted(b.items())
        for (ka, va), (kb, vb) in zip(ia, ib):
            if ka != kb:
                return (ka > kb) - (ka < kb)
            c = ref_compare(va, vb)
            if c:
                return c
        return (len(ia) > len(ib)) - (len(ia) < len(ib))
    return 0


def ref_string(v):
    if v is None:
        return 'null'
    if isinstance(v, bool):
        return 'true' if v else 'false'
    if isinstance(v, (int, float)):
        s = repr(float(v)) if isinstance(v, float) else str(v)
        return s[:-2] if s.endswith('.0') else s
    if isinstance(v, str):
        return v
    import json

    def norm_numbers(x):
        if isinstance(x, float) and x == int(x) and abs(x) < 1e15:
            return int(x)
        if isinstance(x, list):
            return [norm_numbers(y) for y in x]
        if isinstance(x, dict):
            return {k: norm_numbers(y) for k, y in x.items()}
        return x
    return json.dumps(norm_numbers(v), sort_keys=True, separators=(',', ':'))


# argument spec: (name, type | None, {int, gte, nullable, default, rest})
def validate(spec, args):
    args = list(args)
    out = []
    for ix, (name, ty, opt) in enumerate(spec):
        if opt.get('rest'):
            out.append(args[ix:])
            args = args[:ix + 1]
            continue
        if ix >= len(args):
            if 'default' in opt:
                out.append(opt['default'])
            elif ty is None or opt.get('nullable'):
                out.append(None)
            else:
                raise Fail(f'missing {name}')
            continue
        v = args[ix]
        if ty is None:
            out.append(v)
            continue
        if v is None:
            if opt.get('nullable'):
                out.append(None)
                continue
            raise Fail(f'null {name}')
        if tname(v) != ty:
            raise Fail(f'{name} is not a {ty}')
        if ty == 'number':
            if opt.get('int') and v != int(v):
                raise Fail(f'{name} is not integral')
            if 'gte' in opt and not v >= opt['gte']:
                raise Fail(f'{name} is out of range')
        out.append(v)
    if not any(o.get('rest') for _n, _t, o in spec) and len(args) > len(spec):
        raise Fail('too many arguments')
    return out


ARR = ('array', 'array', {})
OBJ = ('object', 'object', {})
STR = ('string', 'string', {})
IDX = ('index', 'number', {'int': True, 'gte': 0})


def _index_in(seq, index):
    if index >= len(seq):
        raise Fail('index out of range')
    return int(index)


def r_array_delete(array, index):
    i = _index_in(array, index)
    v = array[i]
    del array[i]
    return ('either', None, v)


def r_array_get(array, index):
    return array[_index_in(array, index)]


def r_array_index_of(array, value, index):
    i0 = _index_in(array, index)
    if tname(value) == 'other':
        raise Fail('pool')
    for i in range(i0, len(array)):
        if ref_compare(array[i], value) == 0:
            return i
    return -1


def r_array_last_index_of(array, value, index):
    if index is None:
        index = len(array) - 1
    if index >= len(array):
        raise Fail('index out of range')
    for i in range(int(index), -1, -1):
        if ref_compare(array[i], value) == 0:
            return i
    return -1


def r_array_pop(array):
    if not array:
        raise Fail('empty')
    return array.pop()


def r_array_shift(array):
    if not array:
        raise Fail('empty')
    return array.pop(0)


def r_array_set(array, index, value):
    array[_index_in(array, index)] = value
    return value


def r_array_slice(array, start, end):
    if end is None:
        end = len(array)
    if start > len(array) or end > len(array):
        raise Fail('out of range')
    return array[int(start):int(end)]


def r_array_sort(array, compare_fn):
    if compare_fn is not None:
        raise Fail('pool')
    import functools
    array.sort(key=functools.cmp_to_key(ref_compare))
    return array


def r_object_new(pairs):
    out = {}
    for i in range(0, len(pairs), 2):
        if not isinstance(pairs[i], str):
            raise Fail('key')
        out[pairs[i]] = pairs[i + 1] if i + 1 < len(pairs) else None
    return out


def r_object_delete(obj, key):
    obj.pop(key, None)
    return None


def r_string_char_code_at(s, index):
    return ord(s[_index_in(s, index)])


def r_string_index_of(s, search, index):
    if index >= len(s):
        raise Fail('index out of range')
    return s.find(search, int(index))


def r_string_last_index_of(s, search, index):
    if index is None:
        index = len(s) - 1
    if index >= len(s):
        raise Fail('index out of range')
    for i in range(int(index), -1, -1):
        if s.startswith(search, i):
            return i
    return -1


def r_string_slice(s, start, end):
    if end is None:
        end = len(s)
    if start > len(s) or end > len(s):
        raise Fail('out of range')
    return s[int(start):int(end)]


def r_string_from_char_code(codes):
    for c in codes:
        if tname(c) != 'number' or c != int(c) or c < 0:
            raise Fail('code')
    return ''.join(chr(int(c)) for c in codes)


def r_regex_escape(s):
    return ('regex-literal', s)


# name -> (spec, reference operation, failure value)
REFERENCE = {
    'arrayCopy': ([ARR], lambda a: list(a), None),
    'arrayDelete': ([ARR, IDX], r_array_delete, None),
    'arrayExtend': ([ARR, ('array2', 'array', {})], lambda a, b: (a.extend(b), a)[1], None),
    'arrayGet': ([ARR, IDX], r_array_get, None),
    'arrayIndexOf': ([ARR, ('value', None, {}), ('index', 'number', {'int': True, 'gte': 0, 'default': 0})], r_array_index_of, -1),
    'arrayJoin': ([ARR, ('separator', 'string', {})], lambda a, s: s.join(ref_string(v) for v in a), None),
    'arrayLastIndexOf': ([ARR, ('value', None, {}), ('index', 'number', {'int': True, 'gte': 0, 'nullable': True})], r_array_last_index_of, -1),
    'arrayLength': ([ARR], lambda a: len(a), 0),
    'arrayNew': ([('values', None, {'rest': True})], lambda vs: list(vs), None),
    'arrayNewSize': ([('size', 'number', {'int': True, 'gte': 0, 'default': 0}), ('value', None, {'default': 0})], lambda n, v: [v] * int(n), None),
    'arrayPop': ([ARR], r_array_pop, None),
    'arrayPush': ([ARR, ('values', None, {'rest': True})], lambda a, vs: (a.extend(vs), a)[1], None),
    'arraySet': ([ARR, IDX, ('value', None, {})], r_array_set, None),
    'arrayShift': ([ARR], r_array_shift, None),
    'arraySlice': ([ARR, ('start', 'number', {'int': True, 'gte': 0, 'default': 0}), ('end', 'number', {'int': True, 'gte': 0, 'nullable': True})], r_array_slice, None),
    'arraySort': ([ARR, ('compareFn', None, {})], r_array_sort, None),
    'objectAssign': ([OBJ, ('object2', 'object', {})], lambda a, b: (a.update(b), a)[1], None),
    'objectCopy': ([OBJ], lambda o: dict(o), None),
    'objectDelete': ([OBJ, ('key', 'string', {})], r_object_delete, None),
    'objectGet': ([OBJ, ('key', 'string', {}), ('defaultValue', None, {})], lambda o, k, d: o.get(k, d), 'arg2'),
    'objectHas': ([OBJ, ('key', 'string', {})], lambda o, k: k in o, False),
    'objectKeys': ([OBJ], lambda o: list(o.keys()), None),
    'objectNew': ([('keyValues', None, {'rest': True})], r_object_new, None),
    'objectSet': ([OBJ, ('key', 'string', {}), ('value', None, {})], lambda o, k, v: (o.__setitem__(k, v), v)[1], None),
    'stringCharCodeAt': ([STR, IDX], r_string_char_code_at, None),
    'stringEndsWith': ([STR, ('search', 'string', {})], lambda s, x: s.endswith(x), None),
    'stringFromCharCode': ([('charCodes', None, {'rest': True})], r_string_from_char_code, None),
    'stringIndexOf': ([STR, ('search', 'string', {}), ('index', 'number', {'int': True, 'gte': 0, 'default': 0})], r_string_index_of, -1),
    'stringLastIndexOf': ([STR, ('search', 'string', {}), ('index', 'number', {'int': True, 'gte': 0, 'nullable': True})], r_string_last_index_of, -1),
    'stringLength': ([STR], lambda s: len(s), 0),
    'stringLower': ([STR], lambda s: s.lower(), None),
    'stringNew': ([('value', None, {})], lambda v: ref_string(v), None),
    'stringRepeat': ([STR, ('count', 'number', {'int': True, 'gte': 0})], lambda s, n: s * int(n), None),
    'stringReplace': ([STR, ('substr', 'string', {}), ('newSubstr', 'string', {})], lambda s, a, b: s.replace(a, b), None),
    'stringSlice': ([STR, ('start', 'number', {'int': True, 'gte': 0}), ('end', 'number', {'int': True, 'gte': 0, 'nullable': True})], r_string_slice, None),
    'stringSplit': ([STR, ('separator', 'string', {})], lambda s, sep: s.split(sep), None),
    'stringStartsWith': ([STR, ('search', 'string', {})], lambda s, x: s.startswith(x), None),
    'stringTrim': ([STR], lambda s: s.strip(), None),
    'stringUpper': ([STR], lambda s: s.upper(), None),
    'regexEscape': ([STR], r_regex_escape, None),
    'urlEncode': ([('url', 'string', {})], lambda u: ('percent', u, "':/&+"), None),
    'urlEncodeComponent': ([('url', 'string', {})], lambda u: ('percent', u, "'"), None),
}


def reference_call(name, args):
    """-> ('value', v) | ('fail', failure value); args (python lists / dicts) are mutated like the documented function mutates them"""
    spec, op, failure = REFERENCE[name]
    if failure == 'arg2':
        failure = args[2] if len(args) >= 3 else None
    try:
        vals = validate(spec, args)
        return ('value', op(*vals))
    except Fail:
        return ('fail', failure)


# ------------------------------------------------------------------------------------------------ pools
def pools():
    inner = [1.0]
    nested = [inner, [2.0]]
    return {
        'arrays': [lambda: [], lambda: [1.0], lambda: [1.0, 'a', None], lambda: ['b', 'a', 'b'], lambda: [[1.0], [2.0], 'x'], lambda: [3, 1.0, 2.5, None, 'z', 'a', True]],
        'objects': [lambda: {}, lambda: {'a': 1.0}, lambda: {'b': [1.0], 'a': {'k': 'v'}}, lambda: {'a': None, 'b': 0.0, 'z': False, 'e': ''}],
        'strings': ['', 'a', 'abcabc', ' Ab c ', 'a.b*c', 'é\U0001F600x', 'a1b2-3', ',/:;<=>?+-[x]{y}(z)|^$\\ "q\'', 'tab\there\nnl%20&=#'],
        'wrong': [None, True, 1.0, 'a', lambda: [1.0], lambda: {'a': 1.0}],
    }


def _mk(x):
    return x() if callable(x) else x


def arg_lists(name, tier='quick'):
    """argument lists for one function: valid ones (all container / string templates x all indices -2 .. len+2 as float and int) and invalid ones"""
    spec, _op, _f = REFERENCE[name]
    P = pools()
    out = []

    def choices(ix, first):
        n_, ty, opt = spec[ix]
        if opt.get('rest'):
            return None
        if ty == 'array':
            return P['arrays']
        if ty == 'object':
            return P['objects']
        if ty == 'string':
            if n_ in ('search', 'substr', 'separator'):
                return ['a', 'b', 'bc', 'abc', 'zz', '.']
            if n_ == 'newSubstr':
                return ['', 'X']
            return P['strings']
        if ty == 'number':
            n = len(first) if isinstance(first, (list, str)) else 3
            base = [float(i) for i in range(-2, n + 3)]
            return base + [int(n // 2), 1.5] + ([] if 'default' not in opt and not opt.get('nullable') else ['<omit>', None])
        # any value
        if n_ in ('value', 'defaultValue'):
            return [1.0, 1, 'a', 'b', None, True, lambda: [1.0], 2.5, 'z']
        if n_ == 'compareFn':
            return ['<omit>', None]
        return [1.0, 'a', None]

    if spec and spec[0][2].get('rest'):
        rest_sets = {
            'arrayNew': [[], [1.0], [1.0, 'a', None, lambda: [2.0]]],
            'objectNew': [[], ['a', 1.0], ['a', 1.0, 'b', lambda: [1.0]], ['a', 1.0, 'a', 2.0], ['a'], [1.0, 'a'], ['a', 1.0, None, 2.0]],
            'stringFromCharCode': [[], [97.0], [97, 98.0, 8364.0], [55357.0, 56832.0], [-1.0], [97.5], ['a'], [None], [97.0, True]],
        }[name]
        return [[_mk(x) for x in r] for r in rest_sets]
    firsts = choices(0, None)
    for f0 in firsts:
        first = _mk(f0)
        per = []
        for ix in range(1, len(spec)):
            if spec[ix][2].get('rest'):
                per.append([['<rest>'], ['<rest>', 1.0], ['<rest>', 'x', None, 2.0]])
            else:
                per.append(choices(ix, first))
        for combo in itertools.product(*per) if per else [()]:
            args = [_mk(f0)]
            stop = False
            for c in combo:
                if isinstance(c, list) and c and c[0] == '<rest>':
                    args.extend(c[1:])
                elif c == '<omit>':
                    stop = True
                    break
                else:
                    args.append(_mk(c))
            out.append(args)
            if stop:
                continue
    # invalid: each position wrong-typed, missing arguments, one surplus argument
    valid = [a for a in out[:1]] or [[]]
    base = out[len(out) // 2] if out else []
    for ix, (n_, ty, opt) in enumerate(spec):
        if opt.get('rest') or ty is None:
            continue
        for w in P['wrong']:
            wv = _mk(w)
            if tname(wv) == ty or (wv is None and (opt.get('nullable') or 'default' in opt)):
                continue
            a = [_mk_copy(x) for x in base]
            if ix < len(a):
                a[ix] = wv
                out.append(a)
    for k in range(len([s for s in spec if not s[2].get('rest')])):
        out.append([_mk_copy(x) for x in base[:k]])
    if not any(s[2].get('rest') for s in spec):
        full = [_mk_copy(x) for x in base]
        while len(full) < len(spec):
            full.append(None)
        out.append(full + ['surplus'])
    if tier != 'thorough' and len(out) > 400:
        out = out[::max(1, len(out) // 400)]
    return out


def _mk_copy(v):
    if isinstance(v, list):
        return [_mk_copy(x) for x in v]
    if isinstance(v, dict):
        return {k: _mk_copy(x) for k, x in v.items()}
    return v


# ------------------------------------------------------------------------------------------------ comparison with identity
def mirror(v, memo):
    """python value -> abstract value; memo: id(python container) -> abstract container (aliasing preserved)"""
    if isinstance(v, list):
        if id(v) in memo:
            return memo[id(v)]
        out = AList()
        memo[id(v)] = out
        out.l = [mirror(x, memo) for x in v]
        return out
    if isinstance(v, dict):
        if id(v) in memo:
            return memo[id(v)]
        out = ADict()
        memo[id(v)] = out
        out.d = {k: mirror(x, memo) for k, x in v.items()}
        return out
    return v


def same(py, ab, memo, path='result'):
    """None if the abstract value `ab` equals the reference value `py` including identity with the argument containers; else a message"""
    if isinstance(ab, Sym) or (isinstance(ab, tuple) and ab and isinstance(ab[0], str) and ab[0] in ('bound', 'closure', 'partial', 'extern', 'builtin')):
        raise Unrecognised('E6c', f'{path} is the unmodelled value {ab!r}', None)
    if isinstance(py, (list, dict)):
        want_cls = AList if isinstance(py, list) else ADict
        if not isinstance(ab, want_cls):
            return f'{path}: {_show(ab)} instead of {_show(py)}'
        if id(py) in memo:
            if ab is not memo[id(py)]:
                return f'{path} is a different object than the argument container it should be (a copy was made: the change / the element is not visible through aliases)'
        elif any(ab is x for x in memo.values()):
            return f'{path} is one of the argument containers itself; it should be a fresh {"array" if isinstance(py, list) else "object"} (changing the result changes the argument)'
        if isinstance(py, list):
            if len(py) != len(ab.l):
                return f'{path}: {_show(ab)} instead of {_show(py)}'
            for i, (x, y) in enumerate(zip(py, ab.l)):
                m = same(x, y, memo, f'{path}[{i}]')
                if m:
                    return m
            return None
        if list(py.keys()) != list(ab.d.keys()):
            return f'{path}: keys {list(ab.d.keys())!r} instead of {list(py.keys())!r}'
        for k in py:
            m = same(py[k], ab.d[k], memo, f'{path}[{k!r}]')
            if m:
                return m
        return None
    if isinstance(ab, (AList, ADict)):
        return f'{path}: {_show(ab)} instead of {_show(py)}'
    if isinstance(py, bool) or isinstance(ab, bool) or py is None or ab is None:
        return None if py is ab else f'{path}: {_show(ab)} instead of {_show(py)}'
    if isinstance(py, (int, float)) and isinstance(ab, (int, float)):
        return None if py == ab else f'{path}: {_show(ab)} instead of {_show(py)}'
    return None if (type(py) is type(ab) and py == ab) else f'{path}: {_show(ab)} instead of {_show(py)}'


def _show(v):
    return repr(reify(v))[:80]


def run_library(repo, libfuncs, tier='quick', rule='E6c', only=None):
    """-> (per-function counts, problems [(function, kind, message)])"""
    from .libsim import JsonInterp
    problems, counts, history = [], {}, {}
    lib = repo.module('library')
    it = JsonInterp(repo, lib, rule)
    it.concrete_asserts = True
    it.oracles.pop('value_compare', None)          # the value comparison is the repository's own here (concrete values)
    for name in sorted(REFERENCE):
        if only and name not in only:
            continue
        lf = libfuncs.get(name)
        if lf is None:
            raise Unrecognised(rule, f'{name} is not registered', lib.rel)
        for args in arg_lists(name, tier):
            counts[name] = counts.get(name, 0) + 1
            ref_args = [_mk_copy(a) for a in args]
            # aliasing inside the argument list: the same container passed twice where the pool repeats it is kept distinct; nested containers are shared with the original
            memo = {}
            ab_args = AList([mirror(a, memo) for a in ref_args])
            desc = f'{name}({", ".join(_show(a) for a in args)})'
            want = reference_call(name, ref_args)
            try:
                got = it.run(lf.func, [ab_args, ADict({})])
            except Unrecognised as exc:
                raise Unrecognised(rule, f'{desc}: {exc.what}', exc.where)
            if got[0] == 'raise':
                if got[1] == 'ValueArgsError':
                    val = got[2][2] if len(got[2]) > 2 else None
                    got = ('fail', val)
                else:
                    got = ('host', got[1], got[2])
            else:
                got = ('value', got[1])
            # post-state of the argument containers
            def post_state():
                for i, (ra, aa) in enumerate(zip(ref_args, ab_args.l[:len(ref_args)] if False else [memo.get(id(x), x) for x in ref_args])):
                    m = same(ra, aa, memo, f'argument {i + 1} after the call')
                    if m:
                        return m
                return None
            if want[0] == 'fail':
                if (got[0] in ('value', 'fail') and same(want[1], got[1], memo) is not None) or (got[0] == 'host' and want[1] is not None):
                    shown = f'returns {_show(got[1])}' if got[0] != 'host' else f'raises {got[1]}'
                    problems.append((name, 'failure', f'{desc} {shown}; an invalid call returns the documented failure value {want[1]!r}'))
                    continue
                m = post_state()
                if m:
                    problems.append((name, 'failure-state', f'{desc} fails but {m}'))
                continue
            if got[0] != 'value':
                shown = f'fails with the failure value {got[1]!r}' if got[0] == 'fail' else f'raises {got[1]}{tuple(got[2])[:1]!r}'
                problems.append((name, 'result', f'{desc} {shown}; the reference model gives {_show(want[1])}'))
                continue
            wv = want[1]
            if isinstance(wv, tuple) and wv and wv[0] == 'either':
                m = None if any(same(alt, got[1], memo) is None for alt in wv[1:]) else f'result: {_show(got[1])} instead of null (or the deleted element)'
            elif isinstance(wv, tuple) and wv and wv[0] == 'regex-literal':
                m = _check_regex_literal(wv[1], got[1])
            elif isinstance(wv, tuple) and wv and wv[0] == 'percent':
                m = _check_percent(wv[1], got[1])
            else:
                m = same(wv, got[1], memo)
            if m:
                problems.append((name, 'result', f'{desc}: {m}'))
                continue
            m = post_state()
            if m:
                problems.append((name, 'state', f'{desc}: {m}'))
                continue
            # call history: a fresh container result is the caller's - after the caller changes it, the same call again gives the documented result in a new object
            r1 = got[1]
            if isinstance(r1, (AList, ADict)) and not any(r1 is v for v in memo.values()) and history.get(name, 0) < 4 and not isinstance(wv, tuple):
                history[name] = history.get(name, 0) + 1
                if isinstance(r1, AList):
                    r1.l.append('changed by the caller')
                else:
                    r1.d['changed by the caller'] = True
                ref_args2 = [_mk_copy(a) for a in args]
                memo2 = {}
                ab_args2 = AList([mirror(a, memo2) for a in ref_args2])
                want2 = reference_call(name, ref_args2)
                got2 = it.run(lf.func, [ab_args2, ADict({})])
                counts[name] += 1
                if got2[0] != 'value' or got2[1] is r1 or same(want2[1], got2[1], memo2) is not None:
                    shown = 'the very object returned by the first call' if got2[0] == 'value' and got2[1] is r1 else _show(got2[1]) if got2[0] == 'value' else f'{got2[1]}'
                    problems.append((name, 'history', f'{desc}, called again after the caller changed the array / object the first call returned, gives {shown}; '
                                                       f'every call returns a new container with the documented contents {_show(want2[1])}'))
    return counts, problems


def _check_regex_literal(s, got):
    if not isinstance(got, str):
        return f'result: {_show(got)} is not a string'
    try:
        rx = re.compile(got)
    except re.error:
        return f'result {got!r} is not a valid pattern'
    if not rx.fullmatch(s):
        return f'result pattern {got!r} does not match the string {s!r} itself'
    for other in (s + 'x', 'x' + s, s[:-1], s.replace('.', 'x'), s.replace('*', ''), s.upper() if s.upper() != s else s + s):
        if other != s and rx.fullmatch(other):
            return f'result pattern {got!r} also matches {other!r}'
    return None


def _check_percent(s, got):
    if not isinstance(got, str):
        return f'result: {_show(got)} is not a string'
    if urllib.parse.unquote(got) != s:
        return f'result {got!r} does not percent-decode to {s!r}'
    if any(ord(c) > 127 or c in ' "<>\\^`{|}' for c in got):
        return f'result {got!r} contains characters that must be encoded'
    return None
