"""E8: may-raise effect analysis (exception escape) over resolved callees.

raises(F) = exceptions of raising primitives in F that no enclosing handler of F catches
            + raises(G) for every call of a resolved repository function G at a site where F does not catch them.
Primitives come from a frozen table keyed by operation and (coarse) operand kind; every line names the CPython
behaviour it relies on.  Dynamic calls (function values, option callbacks) are *not* expanded - rules that care
(C05.W) look at them directly.
"""
import ast

from .core import Unrecognised, call_name, norm, walk_no_nested, const_str

HIERARCHY = {
    'ZeroDivisionError': 'ArithmeticError', 'OverflowError': 'ArithmeticError', 'FloatingPointError': 'ArithmeticError',
    'ArithmeticError': 'Exception', 'KeyError': 'LookupError', 'IndexError': 'LookupError', 'LookupError': 'Exception',
    'ValueError': 'Exception', 'TypeError': 'Exception', 'AttributeError': 'Exception', 'RecursionError': 'RuntimeError',
    'RuntimeError': 'Exception', 'StopIteration': 'Exception', 'UnicodeError': 'ValueError', 'UnicodeEncodeError': 'UnicodeError',
    'UnicodeDecodeError': 'UnicodeError', 'OSError': 'Exception', 'json.JSONDecodeError': 'ValueError', 'JSONDecodeError': 'ValueError',
    'BareScriptRuntimeError': 'Exception', 'BareScriptParserError': 'Exception', 'ValueArgsError': 'Exception',
    'Exception': 'BaseException', 'AssertionError': 'Exception', 'NotImplementedError': 'RuntimeError',
    're.error': 'Exception', 'error': 'Exception', 'ValidationError': 'Exception', 'SchemaMarkdownParserError': 'Exception',
}


def is_subclass(exc, handler_name):
    cur = exc
    seen = 0
    while cur is not None and seen < 10:
        if cur == handler_name:
            return True
        cur = HIERARCHY.get(cur, 'Exception' if cur not in ('BaseException', 'Exception') else ('BaseException' if cur == 'Exception' else None))
        seen += 1
    return False


class Site:
    def __init__(self, mod, func, node, exc, why, via=()):
        self.mod = mod
        self.func = func
        self.node = node
        self.exc = exc
        self.why = why
        self.via = via     # call chain (function names) from the reporting function down to the primitive

    def key(self):
        return (self.mod.name, self.func, id(self.node), self.exc)


def handler_names(h):
    if h.type is None:
        return None
    elts = h.type.elts if isinstance(h.type, ast.Tuple) else [h.type]
    out = set()
    for e in elts:
        out.add(e.id if isinstance(e, ast.Name) else (e.attr if isinstance(e, ast.Attribute) else norm(e)))
    return out


def handler_reraises(h):
    """the handler re-raises the caught exception unchanged (bare `raise` as its only effect)"""
    body = [s for s in h.body if not (isinstance(s, ast.Expr) and isinstance(s.value, ast.Constant))]
    return len(body) == 1 and isinstance(body[0], ast.Raise) and body[0].exc is None


def handler_fate(h, exc):
    """What a handler does with a caught exception of class `exc`: 'reraise' (the same exception leaves the handler on every path),
    'absorb' (some path ends the handler normally / returns), 'other' (raises something else) or 'unknown'."""
    err = h.name

    def truth(test):
        neg = False
        while isinstance(test, ast.UnaryOp) and isinstance(test.op, ast.Not):
            neg, test = not neg, test.operand
        if isinstance(test, ast.Call) and isinstance(test.func, ast.Name) and test.func.id == 'isinstance' and len(test.args) == 2 \
                and isinstance(test.args[0], ast.Name) and test.args[0].id == err:
            elts = test.args[1].elts if isinstance(test.args[1], ast.Tuple) else [test.args[1]]
            names = [e.id if isinstance(e, ast.Name) else (e.attr if isinstance(e, ast.Attribute) else None) for e in elts]
            if None in names:
                return None
            if any(is_subclass(exc, n) for n in names):
                return not neg
            if any(is_subclass(n, exc) for n in names):
                return None            # a proper subclass: depends on the instance
            return neg
        return None

    def block(body):
        """set of fates of the block; 'fall' = control leaves the block at its end"""
        out = set()
        for s in body:
            if isinstance(s, ast.Raise):
                if s.exc is None or (isinstance(s.exc, ast.Name) and s.exc.id == err and s.cause is None):
                    return out | {'reraise'}
                return out | {'other'}
            if isinstance(s, (ast.Return, ast.Continue, ast.Break)):
                return out | {'absorb'}
            if isinstance(s, ast.If):
                t = truth(s.test)
                branches = [s.body] if t is True else [s.orelse] if t is False else [s.body, s.orelse]
                res = set()
                for br in branches:
                    res |= block(br)
                out |= res - {'fall'}
                if 'fall' not in res:
                    return out
                continue
            if isinstance(s, (ast.Expr, ast.Assign, ast.AugAssign, ast.AnnAssign, ast.Pass, ast.Delete)):
                continue
            if any(isinstance(x, (ast.Raise, ast.Return, ast.Continue, ast.Break)) for x in ast.walk(s)):
                return out | {'unknown'}
        return out | {'fall'}
    res = block(h.body)
    if 'unknown' in res:
        return 'unknown'
    if 'fall' in res or 'absorb' in res:
        return 'absorb'
    if res == {'reraise'}:
        return 'reraise'
    if res == {'other'} or res == {'other', 'reraise'}:
        return 'other'
    return 'unknown'


def caught_by(node, exc, func):
    """Is an exception `exc` raised at `node` caught by a try of `func` enclosing node (in its body, not handlers)?
    Returns the handler or None.  A handler that re-raises unchanged does not count as catching."""
    child = node
    cur = getattr(node, '_parent', None)
    while cur is not None and cur is not func:
        if isinstance(cur, ast.With) and _in_list(child, cur.body):
            r = _with_catches(cur, exc)
            if r:
                return cur
        if isinstance(cur, ast.Try) and _in_list(child, cur.body):
            for h in cur.handlers:
                names = handler_names(h)
                if names is None or any(is_subclass(exc, n) for n in names):
                    if handler_reraises(h):
                        break   # propagates outward unchanged
                    return h
        child = cur
        cur = getattr(cur, '_parent', None)
    return None


CM_REPO = [None]          # repository used to resolve context managers (set by Effects)
UNCERTAIN_CM = []         # (with node, reason): context managers whose exception handling could not be decided - the sites below them are reported as undecided


def _with_catches(w, exc):
    """does the with statement absorb an exception of class `exc` raised in its body?  contextlib.suppress is decided; a repository context manager whose __exit__ / generator
    may swallow exceptions is recorded in UNCERTAIN_CM and treated as absorbing (the caller reports the analysis as undecided)"""
    for item in w.items:
        ce = item.context_expr
        if not isinstance(ce, ast.Call):
            continue
        cn = norm(ce.func)
        if cn in ('contextlib.suppress', 'suppress'):
            names = [a.id if isinstance(a, ast.Name) else (a.attr if isinstance(a, ast.Attribute) else norm(a)) for a in ce.args]
            if any(is_subclass(exc, n) for n in names):
                return True
            continue
        repo = CM_REPO[0]
        if repo is None or not isinstance(ce.func, ast.Name):
            continue
        for nm in ('runtime', 'value', 'data', 'library', 'parser', 'model', 'options', 'bare'):
            try:
                m = repo.module(nm)
            except Exception:
                continue
            cls = getattr(m, 'classes', {}).get(ce.func.id)
            if cls is not None:
                ex = next((f for f in cls.body if isinstance(f, ast.FunctionDef) and f.name == '__exit__'), None)
                if ex is None:
                    break
                rets = [r for r in ast.walk(ex) if isinstance(r, ast.Return)]
                if all(r.value is None or (isinstance(r.value, ast.Constant) and r.value.value in (False, None)) for r in rets):
                    break          # never swallows
                UNCERTAIN_CM.append((w, f'{ce.func.id}.__exit__ may swallow exceptions'))
                return True
            fn = m.funcs.get(ce.func.id)
            if fn is not None and any('contextmanager' in norm(d) for d in fn.decorator_list):
                guarded = any(isinstance(t, ast.Try) and t.handlers and any(isinstance(y, (ast.Yield, ast.YieldFrom)) for b in t.body for y in ast.walk(b)) for t in ast.walk(fn))
                if guarded:
                    UNCERTAIN_CM.append((w, f'the context manager {ce.func.id} handles exceptions raised in the with body'))
                    return True
                break
    return False


def _in_list(node, stmts):
    return any(node is s for s in stmts)


# host calls whose result type is fixed (whatever the arguments): used only to discard `if not isinstance(x, T): raise ...` guards that cannot fire
_RESULT_TYPE = {'str': 'str', 'repr': 'str', 'format': 'str', 'json.dumps': 'str', 'int': 'int', 'len': 'int', 'float': 'float', 'bool': 'bool', 'list': 'list', 'dict': 'dict', 'sorted': 'list',
                'tuple': 'tuple', 'math.floor': 'int', 'math.ceil': 'int', 'round': None}
_METHOD_RESULT_TYPE = {'encode': None, 'join': 'str', 'strip': 'str', 'lstrip': 'str', 'rstrip': 'str', 'lower': 'str', 'upper': 'str', 'replace': 'str', 'sub': 'str', 'isoformat': 'str',
                       'split': 'list', 'keys': None, 'format': 'str'}


def _static_type(func, node, depth=0, mod=None):
    """the host type every value of the expression has, when that is evident from the expression alone; else None"""
    if isinstance(node, ast.JoinedStr):
        return 'str'
    if isinstance(node, ast.Constant):
        return type(node.value).__name__ if node.value is not None else None
    if isinstance(node, (ast.List, ast.ListComp)):
        return 'list'
    if isinstance(node, (ast.Dict, ast.DictComp)):
        return 'dict'
    if isinstance(node, ast.Call):
        cn = norm(node.func)
        if cn in _RESULT_TYPE:
            return _RESULT_TYPE[cn]
        if isinstance(node.func, ast.Attribute):
            m = node.func.attr
            if m == 'encode' and not node.keywords and len(node.args) == 1:
                # <JSON encoder instance>.encode(value) -> str: the receiver must evidently be a json.JSONEncoder (sub)class instance
                recv = node.func.value
                src = recv
                if isinstance(recv, ast.Name):
                    defs = [a.value for a in ast.walk(func) if isinstance(a, ast.Assign) and any(isinstance(t, ast.Name) and t.id == recv.id for t in a.targets)]
                    if not defs and mod is not None and recv.id in mod.assigns and len(mod.assigns[recv.id]) == 1:
                        defs = [mod.assigns[recv.id][0]]
                    src = defs[0] if len(defs) == 1 else (defs[0] if defs and all(isinstance(d, (ast.Call, ast.IfExp)) for d in defs) and all('Encoder' in norm(d) for d in defs) else None)
                if src is not None and 'Encoder(' in norm(src).replace(' ', ''):
                    return 'str'
                return None
            return _METHOD_RESULT_TYPE.get(m)
    if isinstance(node, ast.Name) and depth < 2:
        defs = [a.value for a in ast.walk(func) if isinstance(a, ast.Assign) and any(isinstance(t, ast.Name) and t.id == node.id for t in a.targets)]
        if node.id in {a.arg for a in func.args.args} or not defs:
            return None
        types = {_static_type(func, d, depth + 1, mod) for d in defs}
        return types.pop() if len(types) == 1 else None
    return None


def _guard_infeasible_by_type(func, raise_node, mod=None):
    """the raise is the body of `if not isinstance(x, T):` (or of the else of `if isinstance(x, T):`) and every value of x evidently has the host type T"""
    parent = getattr(raise_node, '_parent', None)
    if not isinstance(parent, ast.If):
        return False
    test = parent.test
    in_body = raise_node in parent.body
    neg = isinstance(test, ast.UnaryOp) and isinstance(test.op, ast.Not)
    call = test.operand if neg else test
    if not (isinstance(call, ast.Call) and isinstance(call.func, ast.Name) and call.func.id == 'isinstance' and len(call.args) == 2):
        return False
    if (neg and not in_body) or (not neg and in_body):
        return False
    names = [norm(x) for x in (call.args[1].elts if isinstance(call.args[1], ast.Tuple) else [call.args[1]])]
    t = _static_type(func, call.args[0], 0, mod)
    return t is not None and t in names


class Effects:
    """primitive table + propagation"""

    def __init__(self, repo, value_vars=None, summaries=None, extra_primitives=None):
        self.repo = repo
        self.cache = {}
        self.in_progress = set()
        self.value_vars = value_vars or {}     # (modname, funcname) -> set of names holding script values
        self.summaries = summaries or {}       # funcname -> set(exc) for functions summarised by another property
        self.extra = extra_primitives
        CM_REPO[0] = repo
        del UNCERTAIN_CM[:]

    # ---- primitive table
    def primitives(self, mod, func):
        vv = self._value_vars(mod, func)
        out = []
        dt_guarded = self._datetime_guards(func)
        for n in walk_no_nested(func):
            if isinstance(n, ast.BinOp):
                l, r = n.left, n.right
                involves = self._is_value(l, vv) or self._is_value(r, vv)
                if isinstance(n.op, (ast.Div, ast.Mod, ast.FloorDiv)) and involves:
                    out.append((n, 'ZeroDivisionError', 'number / % // number: zero divisor'))
                    out.append((n, 'OverflowError', 'int too large to convert to float / result too large'))
                elif isinstance(n.op, ast.Pow) and involves:
                    out.append((n, 'ZeroDivisionError', '0 ** negative'))
                    out.append((n, 'OverflowError', 'float ** large exponent'))
                elif isinstance(n.op, (ast.Add, ast.Sub, ast.Mult)) and self._is_value(l, vv) and self._is_value(r, vv):
                    out.append((n, 'OverflowError', 'arbitrary-precision int combined with a float (int too large to convert to float)'))
                if isinstance(n.op, (ast.Add, ast.Sub)) and (self._is_timedelta(l) or self._is_timedelta(r)):
                    out.append((n, 'OverflowError', 'datetime +/- timedelta beyond year 1..9999'))
            elif isinstance(n, ast.Call):
                cn = call_name(n) or ''
                if cn.endswith('timedelta') and (n.args or n.keywords):
                    if any(self._is_value(a, vv) for a in list(n.args) + [k.value for k in n.keywords]):
                        out.append((n, 'OverflowError', 'timedelta() with a huge or infinite number'))
                        out.append((n, 'ValueError', 'timedelta() with nan'))
                elif cn in ('operator.add', 'operator.sub', 'operator.mul', 'operator.truediv', 'operator.floordiv', 'operator.mod', 'operator.pow') and len(n.args) == 2 \
                        and (self._is_value(n.args[0], vv) or self._is_value(n.args[1], vv)):
                    out.append((n, 'OverflowError', f'{cn} of an arbitrary-precision int and a float / result too large'))
                    if cn in ('operator.truediv', 'operator.floordiv', 'operator.mod', 'operator.pow'):
                        out.append((n, 'ZeroDivisionError', f'{cn}: zero divisor / 0 ** negative'))
                elif cn == 'int' and len(n.args) == 1 and self._has_value(n.args[0], vv):
                    out.append((n, 'OverflowError', 'int(inf)'))
                    out.append((n, 'ValueError', 'int(nan)'))
                elif isinstance(n.func, ast.Attribute) and n.func.attr == 'astimezone':
                    out.append((n, 'OverflowError', '.astimezone() at the ends of the datetime range'))
                    out.append((n, 'ValueError', '.astimezone(): year out of range'))
                elif isinstance(n.func, ast.Attribute) and n.func.attr == 'encode' and 'ENCODER' in norm(n.func.value).upper():
                    out.append((n, 'ValueError', 'JSON encode: non-finite float with allow_nan=False / circular reference'))
                elif cn in ('math.sqrt', 'math.log', 'math.acos', 'math.asin') and any(self._has_value(a, vv) for a in n.args):
                    out.append((n, 'ValueError', f'{cn}: math domain error'))
                elif cn in ('math.exp', 'math.pow', 'math.cosh', 'math.sinh') and any(self._has_value(a, vv) for a in n.args):
                    out.append((n, 'OverflowError', f'{cn}: math range error'))
                elif cn in ('math.isnan', 'math.isinf', 'math.isfinite', 'math.floor', 'math.ceil', 'math.trunc', 'math.fabs', 'math.copysign', 'math.fmod', 'math.modf', 'math.frexp') \
                        and any(self._has_value(a, vv) for a in n.args):
                    out.append((n, 'OverflowError', f'{cn}(int beyond the double range): int too large to convert to float'))
                elif cn in ('float', 'int') and len(n.args) >= 1 and isinstance(n.args[0], ast.Name) and n.args[0].id in vv and len(n.args) == 2:
                    out.append((n, 'ValueError', 'int(text, base): invalid literal'))
            elif isinstance(n, ast.Compare) or (isinstance(n, ast.BinOp) and isinstance(n.op, ast.Sub)):
                if isinstance(n, ast.Compare):
                    ordering = any(isinstance(o, (ast.Lt, ast.LtE, ast.Gt, ast.GtE)) for o in n.ops)
                    sides = [n.left] + list(n.comparators)
                else:
                    ordering = True
                    sides = [n.left, n.right]
                if ordering and dt_guarded:
                    for side in sides:
                        raw = self._raw_datetime(side, func, dt_guarded, n)
                        if raw:
                            out.append((n, 'TypeError', f'ordering/subtraction of raw datetimes ({raw} may be offset-aware while the other operand is naive; '
                                                        f'not normalised by value_normalize_datetime on every path)'))
                            break
            elif isinstance(n, ast.Raise) and n.exc is not None:
                exc = n.exc.func if isinstance(n.exc, ast.Call) else n.exc
                name = exc.id if isinstance(exc, ast.Name) else (exc.attr if isinstance(exc, ast.Attribute) else None)
                if name and not _guard_infeasible_by_type(func, n, mod):
                    out.append((n, name, 'explicit raise'))
        if self.extra:
            out.extend(self.extra(mod, func, vv))
        return out

    def _value_vars(self, mod, func):
        key = (mod.name, func.name)
        if key in self.value_vars:
            return self.value_vars[key]
        # default: parameters of value.py / data.py helpers are script values
        return {a.arg for a in func.args.args}

    @staticmethod
    def _is_value(e, vv):
        return isinstance(e, ast.Name) and e.id in vv

    @staticmethod
    def _has_value(e, vv):
        return any(isinstance(n, ast.Name) and n.id in vv for n in ast.walk(e))

    @staticmethod
    def _is_timedelta(e):
        return isinstance(e, ast.Call) and (call_name(e) or '').endswith('timedelta')

    @staticmethod
    def _raw_datetime(side, func, guards, at):
        """name of a datetime-guarded variable that reaches `side` without passing value_normalize_datetime, or None"""
        if not isinstance(side, ast.Name):
            return None
        if side.id in guards and guards[side.id](at):
            return side.id
        defs = [a.value for a in walk_no_nested(func) if isinstance(a, ast.Assign) and len(a.targets) == 1
                and isinstance(a.targets[0], ast.Name) and a.targets[0].id == side.id]
        for d in defs:
            stack = [(d, False)]
            while stack:
                e, in_test = stack.pop()
                if isinstance(e, ast.Name) and e.id in guards and guards[e.id](at) and not in_test:
                    return e.id
                if isinstance(e, ast.Call):
                    continue      # passed through a function (value_normalize_datetime, isinstance, ...)
                if isinstance(e, ast.IfExp):
                    stack.append((e.body, in_test))
                    stack.append((e.orelse, in_test))
                    continue
                if isinstance(e, ast.BoolOp):
                    for v in e.values:
                        stack.append((v, in_test))
        return None

    @staticmethod
    def _datetime_guards(func):
        """names tested with isinstance(x, datetime.date / datetime.datetime): name -> predicate(node) 'node is inside that guard'"""
        guards = {}
        for n in walk_no_nested(func):
            if isinstance(n, ast.If):
                for c in ast.walk(n.test):
                    if isinstance(c, ast.Call) and call_name(c) == 'isinstance' and len(c.args) == 2 and isinstance(c.args[0], ast.Name) \
                            and norm(c.args[1]) in ('datetime.date', 'datetime.datetime', '(datetime.date, datetime.datetime)'):
                        name = c.args[0].id
                        body_ids = {id(x) for s in n.body for x in ast.walk(s)}
                        prev = guards.get(name)
                        guards[name] = (lambda node, ids=body_ids, prev=prev: id(node) in ids or (prev(node) if prev else False))
        return guards

    def _exception_str_methods(self):
        if getattr(self, '_str_methods', None) is None:
            import copy
            out = []
            for nm in self.repo.all_module_names():
                try:
                    m = self.repo.module(nm)
                except Exception:
                    continue
                for cls in m.tree.body:
                    if isinstance(cls, ast.ClassDef) and (cls.name.endswith('Error') or any('Exception' in norm(b) or 'Error' in norm(b) for b in cls.bases)):
                        for meth in cls.body:
                            if isinstance(meth, ast.FunctionDef) and meth.name in ('__str__', '__repr__', '__format__'):
                                c = copy.copy(meth)
                                c.name = f'{cls.name}.{meth.name}'
                                out.append((m, c))
            self._str_methods = out
        return self._str_methods

    def _implicit_str_calls(self, mod, func):
        meths = self._exception_str_methods()
        if not meths:
            return
        for n in walk_no_nested(func):
            subj = None
            if isinstance(n, ast.FormattedValue):
                subj = n.value
            elif isinstance(n, ast.Call) and isinstance(n.func, ast.Name) and n.func.id in ('str', 'repr', 'format') and n.args:
                subj = n.args[0]
            elif isinstance(n, ast.BinOp) and isinstance(n.op, ast.Mod) and isinstance(n.left, ast.Constant) and isinstance(n.left.value, str):
                subj = n.right
            if not isinstance(subj, ast.Name):
                continue
            # is the name bound by an enclosing `except ... as name`?
            cur = getattr(n, '_parent', None)
            bound = False
            while cur is not None and cur is not func:
                if isinstance(cur, ast.ExceptHandler) and cur.name == subj.id:
                    bound = True
                    break
                cur = getattr(cur, '_parent', None)
            if bound:
                for m, meth in meths:
                    yield n, m, meth

    # ---- propagation
    def escapes(self, mod, func, depth=0):
        """list of Site escaping `func`"""
        key = (mod.name, func.name)
        if key in self.cache:
            return self.cache[key]
        if key in self.in_progress or depth > 12:
            return []
        self.in_progress.add(key)
        out = []
        for node, exc, why in self.primitives(mod, func):
            if isinstance(node, ast.Raise):
                # an explicit raise inside a handler body is not caught by that same try
                pass
            if caught_by(node, exc, func) is None:
                out.append(Site(mod, func.name, node, exc, why))
        for n in walk_no_nested(func):
            if isinstance(n, ast.Call) and isinstance(n.func, ast.Name):
                name = n.func.id
                if name in self.summaries:
                    for exc in self.summaries[name]:
                        if caught_by(n, exc, func) is None:
                            out.append(Site(mod, func.name, n, exc, f'raised by {name}() (summarised)'))
                    continue
                res = self.repo.resolve_function(mod, name)
                if res is None:
                    continue
                cmod, cfunc = res
                if (cmod.name, cfunc.name) == key:
                    continue
                for site in self.escapes(cmod, cfunc, depth + 1):
                    if caught_by(n, site.exc, func) is None:
                        out.append(Site(site.mod, site.func, site.node, site.exc, site.why, via=(f'{mod.name}.{func.name}:{getattr(n, "lineno", "?")}',) + tuple(site.via)))
        # implicit calls: formatting a caught exception (f-string, str(), format(), %) runs the __str__ / __repr__ / __format__ its class defines
        for n, cmod, meth in self._implicit_str_calls(mod, func):
            for site in self.escapes(cmod, meth, depth + 1):
                if caught_by(n, site.exc, func) is None:
                    out.append(Site(site.mod, site.func, site.node, site.exc, site.why + f' (run implicitly when the caught exception is formatted: {norm(n)[:40]})',
                                    via=(f'{mod.name}.{func.name}:{getattr(n, "lineno", "?")}',) + tuple(site.via)))
        self.in_progress.discard(key)
        # de-duplicate
        seen = set()
        uniq = []
        for s in out:
            if s.key() not in seen:
                seen.add(s.key())
                uniq.append(s)
        self.cache[key] = uniq
        return uniq
