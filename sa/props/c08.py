"""C08 - jump-level models execute by the documented statement semantics."""
import ast

from ..core import Unrecognised, call_name, const_str, norm, walk_no_nested, if_chain, subscript_key, subscript_path
from ..cfg import CFG, no_exc
from ..rt import statement_dispatch, helper_loop, EvalExpr
from .. import schema as schema_mod
from ..absint import Sym

EXPLANATION = (
    'C08.X: the statement kinds dispatched equal the schema union ScriptStatement; label has no branch and falls through '
    'to the counter increment. C08.PC: the program counter starts at 0, is tested against the length of the current '
    'list, is incremented exactly once on every path from the dispatch to the loop head (CFG), and is otherwise only '
    'assigned a label index. C08.L: the label search takes the FIRST statement of the CURRENT list whose label equals '
    'the jump label (enumerate over the list parameter, first match), raises BareScriptRuntimeError "Unknown jump '
    'label" when absent; the cache is a local of the invocation, keyed by label name, written only with indices of '
    'that search. C08.J: a jump is taken iff it has no expr or value_boolean(evaluate(expr)); every truthiness decision '
    'goes through value_boolean. C08.R: return yields the evaluated expr or None from the invocation; a function '
    'statement binds a global callable; script functions start a NEW invocation on their own list. C08.E (E6s) decides L, J '
    'and R semantically: _execute_script_helper is evaluated by the abstract interpreter on every statement list of length '
    '<= 4 (quick) / 5 (thorough) over {label A, label B, jump A, jump B, jumpif A, expr, assignment, return, return expr} plus '
    'longer curated lists, in global and function scope, with expressions opaque (evaluate_expression is an oracle recording '
    'which expression is evaluated under which scope and options, value_boolean follows 4 truth schedules, host truthiness of '
    'an opaque value is an error) and a statement limit of 9; outcome, order of evaluated expressions, assignments and the '
    'statement count must equal the documented semantics. The syntactic part of C08.L that remains is cache locality (origins '
    'of the cache object). C08.M: effect '
    'analysis - nothing derived from the model parameters (script, statements, statement, function, expr and their '
    'sub-objects) is the target of a store, delete, augmented assignment or mutating method. C08.A: the argument list '
    'handed to a function value is a list built for that call and never None. Decides these structural clauses; '
    'exhaustive execution of small statement lists is not attempted.')
ENUMERATION = ('statement kinds, counter assignments, label search / cache sites, truthiness decisions, model-derived '
               'mutation candidates (every store/mutator call in runtime.py and model.py), argument-list constructions')

MUTATORS = {'append', 'extend', 'insert', 'pop', 'remove', 'clear', 'sort', 'reverse', 'update', 'setdefault', 'popitem', '__setitem__', '__delitem__'}
MODEL_PARAMS = {'script', 'statements', 'statement', 'function', 'expr', 'stmt', 'fn_statement', 'arg_expr', 'include'}


def check_dispatch(chk):
    mod, func, loop, key_var, sections, chain = statement_dispatch(chk.repo, 'C08.X')
    vmod = chk.repo.module('model')
    sch = schema_mod.load(vmod, 'BARE_SCRIPT_TYPES', 'C08.X')
    kinds = set(sch.unions.get('ScriptStatement', {}))
    if not kinds:
        raise Unrecognised('C08.X', 'ScriptStatement union not found in the schema', vmod.rel)
    handled = {k for k in sections if k}
    for k in sorted(kinds):
        if k == 'label':
            if 'label' in handled:
                body = sections['label']
                if all(isinstance(s, ast.Pass) for s in body):
                    chk.ok('C08.X', "label statements: no effect")
                else:
                    chk.bad('C08.X', mod, func.name, "'label' branch", 'a label statement must have no effect besides advancing to the next statement', node=body[0])
            elif None in sections:
                chk.bad('C08.X', mod, func.name, "'label' reaches the else branch", 'label statements reach the else branch of the dispatch', node=sections[None][0])
            else:
                chk.ok('C08.X', 'label statements have no branch and fall through to the counter increment')
        elif k in handled:
            chk.ok('C08.X', f"statement kind '{k}' is dispatched")
        else:
            chk.bad('C08.X', mod, func.name, f"kind '{k}'", f"statement kind '{k}' of the schema union ScriptStatement is not executed")
    for k in sorted(handled - kinds):
        chk.bad('C08.X', mod, func.name, f"kind '{k}'", f"the statement loop dispatches on '{k}', which is not a ScriptStatement member")


def check_counter(chk):
    mod, func, loop, key_var, sections, chain = statement_dispatch(chk.repo, 'C08.PC')
    if not isinstance(loop, ast.While):
        raise Unrecognised('C08.PC', 'the statement loop is not a while loop over a program counter', mod.rel)
    t = loop.test
    if not (isinstance(t, ast.Compare) and len(t.ops) == 1 and isinstance(t.ops[0], ast.Lt) and isinstance(t.left, ast.Name)):
        raise Unrecognised('C08.PC', f'loop test not `pc < length`: {norm(t)}', mod.rel)
    pc = t.left.id
    stmts_param = func.args.args[0].arg
    bound = norm(t.comparators[0])
    defs = {}
    for n in walk_no_nested(func):
        if isinstance(n, ast.Assign) and len(n.targets) == 1 and isinstance(n.targets[0], ast.Name):
            defs.setdefault(n.targets[0].id, []).append(n)
    if bound == f'len({stmts_param})' or (bound in defs and len(defs[bound]) == 1 and norm(defs[bound][0].value) == f'len({stmts_param})'):
        chk.ok('C08.PC', f'loop runs while {pc} < len({stmts_param}) of the current list')
    else:
        chk.bad('C08.PC', mod, func.name, norm(t), f'the statement loop must run while the counter is below the length of the list passed to this invocation ({stmts_param})', node=t)
    inits = [d for d in defs.get(pc, []) if d in func.body]
    if len(inits) == 1 and norm(inits[0].value) == '0':
        chk.ok('C08.PC', f'{pc} starts at 0')
    else:
        chk.bad('C08.PC', mod, func.name, f'{pc} initialisation', 'the program counter must start at 0 (statements run in order from the first)', node=func.body[0])
    stmt_def = [d for d in defs.get(next((k for k, v in defs.items() if any(norm(x.value) == f'{stmts_param}[{pc}]' for x in v)), ''), [])]
    if stmt_def:
        chk.ok('C08.PC', f'current statement = {stmts_param}[{pc}]')
    else:
        chk.bad('C08.PC', mod, func.name, 'current statement', f'the executed statement must be {stmts_param}[{pc}] of the current list', node=loop)
    cfg = CFG(func)
    incs = [n for n in walk_no_nested(loop) if isinstance(n, ast.AugAssign) and isinstance(n.target, ast.Name) and n.target.id == pc]
    good_incs = [n for n in incs if isinstance(n.op, ast.Add) and isinstance(n.value, ast.Constant) and n.value.value == 1]
    if len(incs) != len(good_incs) or not incs:
        chk.bad('C08.PC', mod, func.name, '; '.join(norm(i) for i in incs) or 'no increment', 'the program counter must advance by exactly 1 per statement', node=loop)
        return
    head = cfg.node_of(loop.test)
    disp = cfg.node_of(chain.test)
    inc_nodes = [cfg.node_of(i) for i in incs]
    # every path dispatch -> loop head passes exactly one increment: (a) no path avoiding all increments; (b) no path through two
    p = cfg.path(disp, [head], avoid=inc_nodes, follow=no_exc)
    if p:
        chk.bad('C08.PC', mod, func.name, 'path to the loop head without increment',
                f'a statement can return to the loop head without advancing the counter: {cfg.describe_path(p)}', node=loop)
    else:
        twice = False
        for inode in inc_nodes:
            reach = cfg.reach([inode], avoid=[head], follow=no_exc)
            if any(j in reach for j in inc_nodes):
                twice = True
        if twice:
            chk.bad('C08.PC', mod, func.name, 'two increments on one path', 'a path from the dispatch to the loop head advances the counter twice (a statement is skipped)', node=loop)
        else:
            chk.ok('C08.PC', f'every path from the dispatch back to the loop head passes exactly one `{pc} += 1`')
    # other assignments to pc: only label indices inside the jump branch
    others = [d for d in defs.get(pc, []) if d not in func.body]
    jump_ids = {id(x) for s in sections.get('jump', []) for x in ast.walk(s)}
    for d in others:
        if id(d) in jump_ids:
            chk.ok('C08.PC', f'{norm(d)} inside the jump branch (the landing position is decided by the abstract runs, C08.E)')
        else:
            chk.bad('C08.PC', mod, func.name, norm(d), 'the program counter is assigned outside the jump branch', node=d)
    return pc


def _forms():
    return ['LA', 'LB', 'JA', 'JB', 'CA', 'E', 'N', 'R', 'V']


def _model(code):
    out = []
    for i, c in enumerate(code):
        e = Sym('e', i)
        out.append({'LA': {'label': 'A'}, 'LB': {'label': 'B'}, 'JA': {'jump': {'label': 'A'}}, 'JB': {'jump': {'label': 'B'}}, 'CA': {'jump': {'label': 'A', 'expr': e}},
                    'CB': {'jump': {'label': 'B', 'expr': e}}, 'E': {'expr': {'expr': e}}, 'N': {'expr': {'name': 'x', 'expr': e}}, 'R': {'return': {}},
                    'V': {'return': {'expr': e}}}[c])
    return out


CURATED = [
    ('LA', 'E', 'LA', 'JA'), ('JA', 'E', 'LA', 'N', 'LA', 'V'), ('LA', 'CA', 'V'), ('CB', 'E', 'LB', 'CA', 'N', 'LA', 'R'), ('E', 'JB', 'N', 'LB', 'LB', 'V'),
    ('LA', 'N', 'CB', 'JA', 'LB', 'V'), ('JB', 'LA', 'E', 'R', 'LB', 'JA'), ('CA', 'CA', 'LA', 'CA', 'V'), ('LB', 'LA', 'CB', 'CA', 'E'), ('N', 'JA'), ('CA', 'N'),
    ('LA', 'LB', 'JB', 'E'), ('E', 'LA', 'E', 'LB', 'CA', 'CB', 'V'),
    # duplicated labels passed while another label is searched for, then targeted by a later jump
    ('CB', 'LA', 'E', 'LA', 'N', 'LB', 'CA', 'V'), ('JB', 'LA', 'E', 'LA', 'LB', 'CA', 'R'), ('CB', 'LB', 'LA', 'E', 'LA', 'N', 'CA', 'LB', 'V'), ('CA', 'LB', 'E', 'LB', 'LA', 'CB', 'V'),
]
SCHEDULES = [[True], [False], [False, True], [True, False, False], [True, True, False]]


def _step_job(args):
    root, codes, limit = args
    from ..core import Repo
    from .. import stepsim
    repo = Repo(root)
    mod = repo.module('runtime')
    func = mod.funcs.get('_execute_script_helper')
    it = stepsim.StepInterp(repo, mod, 'C08.E')
    out = []
    n = 0
    for code in codes:
        model = _model(code)
        scheds = SCHEDULES if any(c in ('CA', 'CB') for c in code) else [[True]]
        for scope in ('global', 'function'):
            for sched in scheds:
                n += 1
                want = stepsim.reference(model, scope, sched, limit)
                try:
                    got = it.run(func, stepsim.build(model), scope, sched, limit)
                except stepsim.HostTruth as ht:
                    out.append(('C08.J', stepsim.show(model), scope, sched, 'the host truthiness of an evaluated value decides control flow (instead of value_boolean): ' + (norm(ht.node)[:80] if ht.node is not None else ''),
                                getattr(ht.node, 'lineno', None)))
                    continue
                except Unrecognised as exc:
                    return ('unrec', str(exc))
                diff = stepsim.compare(got, want)
                if diff:
                    rule = 'C08.L' if 'Unknown jump label' in diff else 'C08.E'
                    out.append((rule, stepsim.show(model), scope, sched, diff, None))
    return ('ok', n, out)


def check_step(chk):
    """C08.E/J/L: the statement loop, abstractly executed over small jump-level models, agrees with the documented semantics"""
    import itertools
    import multiprocessing as mp
    import os
    mod, func, loop = helper_loop(chk.repo, 'C08.E')
    depth = 5 if chk.tier == 'thorough' else 4
    codes = [c for n in range(1, depth + 1) for c in itertools.product(_forms(), repeat=n)] + CURATED
    limit = 9
    chunks = [codes[i::32] for i in range(32)]
    jobs = [(chk.repo.root, ch, limit) for ch in chunks if ch]
    if os.environ.get('VERIF_SERIAL'):
        results = [_step_job(j) for j in jobs]
    else:
        with mp.Pool(min(16, os.cpu_count() or 1)) as pool:
            results = pool.map(_step_job, jobs)
    n = 0
    seen = {}
    for r in results:
        if r[0] == 'unrec':
            raise Unrecognised('C08.E', r[1], mod.rel)
        n += r[1]
        for rule, text, scope, sched, diff, line in r[2]:
            seen.setdefault((rule, diff.split(' ')[0] if rule != 'C08.J' else 'host truth'), []).append((text, scope, sched, diff, line))
    for (rule, _k), items in sorted(seen.items()):
        items.sort(key=lambda x: len(x[0]))
        text, scope, sched, diff, line = items[0]
        chk.bad(rule, mod, func.name, f'model `{text}` ({scope} scope, value_boolean schedule {sched})',
                f'abstract execution of the statement loop on the model `{text}` ({scope} scope, truth schedule {sched}, statement limit {limit}) {diff}; '
                f'{len(items)} of {n} explored runs deviate in this way', node=None)
    if not seen:
        chk.ok('C08.E', f'{n} abstract runs (all {len(codes) - len(CURATED)} statement lists of length <= {depth} over label A/B, jump A/B, jumpif A, expr, assignment, return, return expr; '
               f'{len(CURATED)} longer curated lists; global and function scope; 4 truth schedules; limit {limit}): outcome, evaluated expressions in order, scope of evaluation, '
               f'assignments and statement count agree with the documented semantics', count=n)
        chk.ok('C08.J', 'a jump is taken iff it has no expr or value_boolean(evaluated expr); the expression is evaluated exactly once; no host truthiness of an evaluated value (all runs)')
        chk.ok('C08.L', 'a taken jump continues after the FIRST label of that name in the CURRENT list (also at index 0, also backwards, also when cached); unknown label raises BareScriptRuntimeError')
        chk.ok('C08.R', 'return ends the invocation with the evaluated expr or None; running past the end returns None (all runs)')
    chk.extra['abstract_runs'] = n


def check_labels(chk):
    """C08.L (cache locality): the label-index cache is created empty inside the invocation"""
    mod, func, loop, key_var, sections, chain = statement_dispatch(chk.repo, 'C08.L')
    stmts = sections.get('jump')
    if stmts is None:
        raise Unrecognised('C08.L', "no 'jump' branch", mod.rel)
    params = {a.arg for a in func.args.args} | {a.arg for a in func.args.kwonlyargs}
    region = ast.Module(body=stmts, type_ignores=[])
    caches = set()
    for n in ast.walk(region):
        if isinstance(n, ast.Assign):
            for t in n.targets:
                if isinstance(t, ast.Subscript) and isinstance(t.value, ast.Name):
                    caches.add(t.value.id)
                elif isinstance(t, ast.Subscript):
                    base = norm(t.value)
                    chk.bad('C08.L', mod, func.name, norm(n)[:100], f'label indices are stored on {base} (shared state): they leak between statement lists', node=n)
        if isinstance(n, ast.Call) and isinstance(n.func, ast.Attribute) and n.func.attr == 'setdefault' and isinstance(n.func.value, ast.Name):
            caches.add(n.func.value.id)
    module_state = {k for k, v in mod.assigns.items() if any(isinstance(x, (ast.Dict, ast.List, ast.Set, ast.Call)) for x in v)}
    for c in sorted(caches):
        if c in params:
            chk.bad('C08.L', mod, func.name, f'label cache {c} is a parameter',
                    'the label-index cache is passed in from outside the invocation: indices cached for one statement list are used for another (jumps cross between function '
                    'bodies, or stale positions are reused)', node=func)
            continue
        origins = []
        for n in walk_no_nested(func):
            if isinstance(n, ast.Assign) and any(isinstance(t, ast.Name) and t.id == c for t in n.targets):
                origins.append(n)
        if not origins and c in module_state:
            chk.bad('C08.L', mod, func.name, f'label cache {c} is module state', 'label indices are cached in a module-level object: they outlive the invocation and are reused for other statement lists', node=stmts[0])
            continue
        verdicts = []
        for n in origins:
            v = n.value
            shared = [t for t in n.targets if isinstance(t, ast.Subscript)]
            names = {x.id for x in ast.walk(v) if isinstance(x, ast.Name)}
            if shared:
                verdicts.append(('bad', f'{norm(n)[:80]}: the cache object is also stored on {norm(shared[0].value)}'))
            elif norm(v) in ('None', '{}', 'dict()'):
                verdicts.append(('ok', norm(n)))
            elif names & module_state:
                verdicts.append(('bad', f'{norm(n)[:80]}: the cache comes from the module-level object {sorted(names & module_state)[0]}'))
            elif any(p in names for p in params if p != func.args.args[0].arg) and ('get' in norm(v) or isinstance(v, ast.Subscript)):
                verdicts.append(('bad', f'{norm(n)[:80]}: the cache is taken from {sorted(names & params)[0]} (shared between invocations)'))
            elif isinstance(v, ast.DictComp) or (isinstance(v, ast.Call) and call_name(v) in mod.funcs):
                verdicts.append(('ok', norm(n)[:60]))
            else:
                verdicts.append(('unrec', norm(n)[:80]))
        for kind, text in verdicts:
            if kind == 'bad':
                chk.bad('C08.L', mod, func.name, f'label cache {c}: {text[:100]}',
                        f'the label-index cache must be created empty inside each invocation; {text}: indices computed for one statement list are used for another '
                        f'(labels of different scopes / files share names such as __bareScriptDone0)', node=stmts[0])
            elif kind == 'unrec':
                chk.unrec('C08.L', f'origin of the label cache {c} not understood: {text}', mod.rel)
        if verdicts and all(k == 'ok' for k, _t in verdicts):
            chk.ok('C08.L', f'label cache {c} is a local of the invocation ({"; ".join(t for _k, t in verdicts)})')


def check_truthiness(chk):
    mod, func, loop, key_var, sections, chain = statement_dispatch(chk.repo, 'C08.J')
    # package-level: no host truthiness on evaluate_expression results in runtime.py
    n = 0
    for fname, f in mod.funcs.items():
        for node in walk_no_nested(f):
            test = None
            if isinstance(node, (ast.If, ast.While, ast.IfExp)):
                test = node.test
            elif isinstance(node, ast.UnaryOp) and isinstance(node.op, ast.Not):
                test = node.operand
            if test is None:
                continue
            n += 1
            for c in ([test] + (list(test.values) if isinstance(test, ast.BoolOp) else [])):
                if isinstance(c, ast.UnaryOp) and isinstance(c.op, ast.Not):
                    c = c.operand
                if isinstance(c, ast.Call) and call_name(c) == 'evaluate_expression':
                    chk.bad('C08.J', mod, fname, norm(node)[:120], 'the host truthiness of an evaluated value is tested directly instead of value_boolean(...)', node=node)
    chk.ok('C08.J', f'runtime.py: none of {n} conditions tests the result of evaluate_expression directly')


def check_return_function(chk):
    """kept for callers: return semantics are decided by the abstract runs (C08.E)"""
    check_step(chk)


def model_derived_names(func):
    """names bound (transitively) to sub-objects of the model parameters inside func"""
    names = {a.arg for a in func.args.args if a.arg in MODEL_PARAMS}
    changed = True
    while changed:
        changed = False
        for n in walk_no_nested(func):
            tgt = val = None
            if isinstance(n, ast.Assign) and len(n.targets) == 1:
                tgt, val = n.targets[0], n.value
            elif isinstance(n, (ast.For,)):
                tgt, val = n.target, n.iter
            elif isinstance(n, ast.comprehension):
                tgt, val = n.target, n.iter
            if tgt is None:
                continue
            if derived(val, names):
                flat = [tgt] if isinstance(tgt, ast.Name) else ([x for x in ast.walk(tgt) if isinstance(x, ast.Name)] if isinstance(tgt, (ast.Tuple, ast.List)) and
                                                                all(isinstance(x, (ast.Name, ast.Tuple, ast.List, ast.Starred)) or isinstance(x, ast.expr_context) for x in ast.walk(tgt)) else [])
                for t in flat:
                    if t.id not in names:
                        names.add(t.id)
                        changed = True
    return names


def derived(e, names):
    """expression evaluates to (part of) the model: subscripts/.get/iteration helpers of a derived name"""
    if isinstance(e, ast.Name):
        return e.id in names
    if isinstance(e, ast.Subscript):
        return derived(e.value, names)
    if isinstance(e, ast.Call):
        cn = call_name(e) or ''
        if isinstance(e.func, ast.Attribute) and e.func.attr in ('get', 'items', 'values', 'keys') and derived(e.func.value, names):
            return True
        if cn in ('enumerate', 'iter', 'next', 'reversed') and e.args and derived(e.args[0], names):
            return True
        return False
    if isinstance(e, ast.IfExp):
        return derived(e.body, names) or derived(e.orelse, names)
    if isinstance(e, ast.Tuple):
        return any(derived(x, names) for x in e.elts)
    if isinstance(e, ast.GeneratorExp):
        return derived(e.elt, names | {t.id for g in e.generators for t in ast.walk(g.target) if isinstance(t, ast.Name) and derived(g.iter, names)})
    return False


def check_immutability(chk, modules=('runtime', 'model'), rule='C08.M', only_funcs=None):
    n_sites = 0
    for modname in modules:
        mod = chk.repo.module(modname)
        for fname, func in mod.funcs.items():
            if only_funcs is not None and fname not in only_funcs:
                continue
            if not any(a.arg in MODEL_PARAMS for a in func.args.args):
                continue
            names = model_derived_names(func)
            for n in walk_no_nested(func):
                targets = []
                if isinstance(n, ast.Assign):
                    targets = [t for t in n.targets if isinstance(t, (ast.Subscript, ast.Attribute))]
                elif isinstance(n, ast.AugAssign) and isinstance(n.target, (ast.Subscript, ast.Attribute)):
                    targets = [n.target]
                elif isinstance(n, ast.Delete):
                    targets = [t for t in n.targets if isinstance(t, (ast.Subscript, ast.Attribute))]
                for t in targets:
                    n_sites += 1
                    if derived(t.value, names):
                        chk.bad(rule, mod, fname, norm(n)[:120],
                                f'{norm(t)[:60]} is part of the model passed in: executing/linting must never modify the model (one model is executed repeatedly)', node=n)
                    else:
                        chk.ok(rule, f'{modname}.{fname}: store {norm(t)[:60]} targets a local / runtime object', trivial=True)
                if isinstance(n, ast.Call) and isinstance(n.func, ast.Attribute) and n.func.attr in MUTATORS:
                    n_sites += 1
                    if derived(n.func.value, names):
                        chk.bad(rule, mod, fname, norm(n)[:120],
                                f'.{n.func.attr}() is applied to {norm(n.func.value)[:50]}, which is part of the model: execution/lint must never modify the model', node=n)
                    else:
                        chk.ok(rule, f'{modname}.{fname}: .{n.func.attr}() on {norm(n.func.value)[:40]} (not model-derived)', trivial=True)
            chk.ok(rule, f'{modname}.{fname}: model-derived names {sorted(names)} are never mutated' if not any(f.func == fname and f.rule == rule for f in chk.findings)
                   else f'{modname}.{fname}: analysed')
    return n_sites


def check_arg_list(chk):
    from .. import evalsim
    evalsim.report(chk, {'args': 'C08.A'}, {'args': 'the argument list handed to a function value is a list built for that call (never None, never the model\'s list, not shared between calls), '
                                                    'arguments evaluated left to right, under the same options object'})


def _pc_rule(chk):
    """C08.PC is the shape rule behind 'lists longer than the enumerated bound behave the same'.  When the abstract runs (C08.E) decided and agree, a
    program-counter discipline that is spelled differently (advance on fetch, jump to label + 1 ...) is not an alarm: PC findings become notes."""
    sim_ok = any(i['rule'] == 'C08.E' and i['verdict'] == 'OK' for i in chk.instances) and not any(f.rule in ('C08.E', 'C08.J', 'C08.L') for f in chk.findings) \
        and not any(u['rule'] == 'C08.E' for u in chk.unrecognised)
    nf, nu, ni = len(chk.findings), len(chk.unrecognised), len(chk.instances)
    chk.guard('C08.PC', check_counter, chk)
    if sim_ok:
        for f in chk.findings[nf:]:
            chk.note(f'program-counter shape rule (not confirmed by the abstract runs, ignored): {f.what[:160]}')
        for u in chk.unrecognised[nu:]:
            chk.note(f"program-counter shape rule: {u['what'][:160]}")
        dropped = len(chk.findings) - nf + len(chk.unrecognised) - nu
        del chk.findings[nf:]
        del chk.unrecognised[nu:]
        chk.instances[ni:] = [i for i in chk.instances[ni:] if i['verdict'] == 'OK']
        if dropped:
            chk.ok('C08.PC', 'program counter: decided by the abstract runs (C08.E) for every list up to the bound; the shape rule does not recognise this spelling')
            chk.floors.pop('C08.PC', None)


def check_models(chk, rule='C08.F'):
    from ..progsim import run_models
    n, problems = run_models(chk.repo, rule)
    rmod = chk.repo.module('runtime')
    for desc, msg in problems[:3]:
        chk.bad(rule, rmod, 'execute_script', f'model: {desc}', f'whole-model evaluation: {msg}')
    if not problems:
        chk.ok(rule, f'{n} runs of hand-built jump-level models: result / error, logs and statement count as the documented statement semantics give them; the model is unchanged and a second '
               f'run is identical', count=n)
    return not problems


def run(chk):
    chk.rule('C08.X', 'statement dispatch = schema union; label falls through', floor=6)
    chk.rule('C08.PC', 'program counter discipline (init, bound, +1 exactly once per path, assigned only in the jump branch)', floor=4)
    chk.rule('C08.L', 'label lookup: first match in the current list; unknown -> runtime error; cache local to the invocation', floor=2)
    chk.rule('C08.J', 'conditional jump: no expr or value_boolean(evaluate(expr)), evaluated once', floor=2)
    chk.rule('C08.R', 'return semantics (abstract runs)', floor=1)
    chk.rule('C08.E', 'abstract execution of the statement loop over small jump-level models agrees with the documented semantics', floor=1)
    chk.rule('C08.M', 'model immutability (effect analysis over model-derived objects in runtime.py and model.py)', floor=8)
    chk.rule('C08.A', 'argument list handed to function values is fresh and never None', floor=1)
    chk.assumptions += ['models are schema-valid; host functions do not retain references to model parts (they only receive evaluated values)']
    from .c01 import check_programs
    chk.rule('C01.P', 'shared with C01: whole parsed programs evaluated (E9r): a function statement binds a global function when it executes (not before, again under another body later), '
             'return ends the script or function, jumps stay inside their statement list', floor=150)
    programs_ok = chk.guard('C01.P', check_programs, chk, 'C01.P', False)
    chk.rule('C08.F', 'hand-built jump-level models with user labels evaluated whole (E9r): a function name bound again under another body, functions sharing label names with each other and '
             'with the top level, nested loops over one label name, a jump to a label of the caller - documented statement semantics, model unchanged, second run identical', floor=8)
    models_ok = chk.guard('C08.F', check_models, chk)
    from .c09 import check_budget
    chk.rule('C09.B', 'shared with C09: whole programs evaluated (E9r) under every statement limit - every statement of every statement list (script, functions called from statements and from '
             'jump conditions, includes) is started and counted once', floor=150)
    programs_ok = bool(chk.guard('C09.B', check_budget, chk)) and bool(programs_ok) and bool(models_ok)
    (chk.advisory if programs_ok else chk.guard)('C08.X', check_dispatch, chk)
    chk.guard('C08.E', check_step, chk)
    if programs_ok:
        chk.advisory('C08.PC', _pc_rule, chk)
        chk.floors.pop('C08.X', None)
        chk.floors.pop('C08.PC', None)
    else:
        _pc_rule(chk)
    # label lookup and jump truthiness as spelled in the loop: read-backs once the whole-program evaluations (parsed programs incl. a function name bound twice, budget sweeps) and
    # the statement-loop evaluation on jump-level models with duplicate labels decided positively
    rb = chk.advisory if programs_ok else chk.guard
    rb('C08.L', check_labels, chk)
    rb('C08.J', check_truthiness, chk)
    if programs_ok:
        for r in ('C08.L', 'C08.J', 'C08.R'):
            chk.floors.pop(r, None)
    chk.guard('C08.M', check_immutability, chk)
    chk.guard('C08.A', check_arg_list, chk)
    # the statement count is part of the documented statement semantics: nested invocations count on the shared counter (shared with C09)
    from . import c09
    chk.rule('C09.D', 'shared with C09: per-statement increment is a read-modify-write on the shared options object')
    chk.rule('C09.W', 'shared with C09: who writes the counter')
    step_ok = not any(f.rule.startswith('C08.') for f in chk.findings) and not any(u['rule'].startswith('C08.E') for u in chk.unrecognised)
    c09.check_counter_shape(chk, step_ok, ('D', 'W'), budget_ok=bool(programs_ok))
    # function statement + new invocation per call are C04.R / C04.F
    from .c04 import check_function_statement, check_frames
    chk.rule('C04.R', 'shared with C04: function statement binds a global callable')
    chk.rule('C04.F', 'shared with C04: script functions start a new invocation on their own list')
    chk.guard('C04.R', check_function_statement, chk)
    chk.guard('C04.F', check_frames, chk)
