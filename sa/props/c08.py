"""C08 - jump-level models execute by the documented statement semantics."""
import ast

from ..core import Unrecognised, call_name, const_str, norm, walk_no_nested, if_chain, subscript_key, subscript_path
from ..cfg import CFG, no_exc
from ..rt import statement_dispatch, helper_loop, EvalExpr
from .. import schema as schema_mod

EXPLANATION = (
    'C08.X: the statement kinds dispatched equal the schema union ScriptStatement; label has no branch and falls through '
    'to the counter increment. C08.PC: the program counter starts at 0, is tested against the length of the current '
    'list, is incremented exactly once on every path from the dispatch to the loop head (CFG), and is otherwise only '
    'assigned a label index. C08.L: the label search takes the FIRST statement of the CURRENT list whose label equals '
    'the jump label (enumerate over the list parameter, first match), raises BareScriptRuntimeError "Unknown jump '
    'label" when absent; the cache is a local of the invocation, keyed by label name, written only with indices of '
    'that search. C08.J: a jump is taken iff it has no expr or value_boolean(evaluate(expr)); every truthiness decision '
    'goes through value_boolean. C08.R: return yields the evaluated expr or None from the invocation; a function '
    'statement binds a global callable; script functions start a NEW invocation on their own list. C08.M: effect '
    'analysis - nothing derived from the model parameters (script, statements, statement, function, expr and their '
    'sub-objects) is the target of a store, delete, augmented assignment or mutating method. C08.A: the argument list '
    'handed to a function value is a list built for that call and never None. Decides these structural clauses; '
    'exhaustive execution of small statement lists is not attempted.')
ENUMERATION = ('statement kinds, counter assignments, label search / cache sites, truthiness decisions, model-derived '
               'mutation candidates (every store/mutator call in runtime.py and model.py), argument-list constructions')

MUTATORS = {'append', 'extend', 'insert', 'pop', 'remove', 'clear', 'sort', 'reverse', 'update', 'setdefault', 'popitem', '__setitem__', '__delitem__'}
MODEL_PARAMS = {'script', 'statements', 'statement', 'function', 'expr', 'stmt', 'fn_statement', 'arg_expr', 'include'}


def check_dispatch(chk):
    mod, func, loop, key_var, sections, chain = statement_dispatch(chk.repo, 'C08.X')
    vmod = chk.repo.module('model')
    sch = schema_mod.load(vmod, 'BARE_SCRIPT_TYPES', 'C08.X')
    kinds = set(sch.unions.get('ScriptStatement', {}))
    if not kinds:
        raise Unrecognised('C08.X', 'ScriptStatement union not found in the schema', vmod.rel)
    handled = {k for k in sections if k}
    for k in sorted(kinds):
        if k == 'label':
            if 'label' in handled:
                body = sections['label']
                if all(isinstance(s, ast.Pass) for s in body):
                    chk.ok('C08.X', "label statements: no effect")
                else:
                    chk.bad('C08.X', mod, func.name, "'label' branch", 'a label statement must have no effect besides advancing to the next statement', node=body[0])
            elif None in sections:
                chk.bad('C08.X', mod, func.name, "'label' reaches the else branch", 'label statements reach the else branch of the dispatch', node=sections[None][0])
            else:
                chk.ok('C08.X', 'label statements have no branch and fall through to the counter increment')
        elif k in handled:
            chk.ok('C08.X', f"statement kind '{k}' is dispatched")
        else:
            chk.bad('C08.X', mod, func.name, f"kind '{k}'", f"statement kind '{k}' of the schema union ScriptStatement is not executed")
    for k in sorted(handled - kinds):
        chk.bad('C08.X', mod, func.name, f"kind '{k}'", f"the statement loop dispatches on '{k}', which is not a ScriptStatement member")


def check_counter(chk):
    mod, func, loop, key_var, sections, chain = statement_dispatch(chk.repo, 'C08.PC')
    if not isinstance(loop, ast.While):
        raise Unrecognised('C08.PC', 'the statement loop is not a while loop over a program counter', mod.rel)
    t = loop.test
    if not (isinstance(t, ast.Compare) and len(t.ops) == 1 and isinstance(t.ops[0], ast.Lt) and isinstance(t.left, ast.Name)):
        raise Unrecognised('C08.PC', f'loop test not `pc < length`: {norm(t)}', mod.rel)
    pc = t.left.id
    stmts_param = func.args.args[0].arg
    bound = norm(t.comparators[0])
    defs = {}
    for n in walk_no_nested(func):
        if isinstance(n, ast.Assign) and len(n.targets) == 1 and isinstance(n.targets[0], ast.Name):
            defs.setdefault(n.targets[0].id, []).append(n)
    if bound == f'len({stmts_param})' or (bound in defs and len(defs[bound]) == 1 and norm(defs[bound][0].value) == f'len({stmts_param})'):
        chk.ok('C08.PC', f'loop runs while {pc} < len({stmts_param}) of the current list')
    else:
        chk.bad('C08.PC', mod, func.name, norm(t), f'the statement loop must run while the counter is below the length of the list passed to this invocation ({stmts_param})', node=t)
    inits = [d for d in defs.get(pc, []) if d in func.body]
    if len(inits) == 1 and norm(inits[0].value) == '0':
        chk.ok('C08.PC', f'{pc} starts at 0')
    else:
        chk.bad('C08.PC', mod, func.name, f'{pc} initialisation', 'the program counter must start at 0 (statements run in order from the first)', node=func.body[0])
    stmt_def = [d for d in defs.get(next((k for k, v in defs.items() if any(norm(x.value) == f'{stmts_param}[{pc}]' for x in v)), ''), [])]
    if stmt_def:
        chk.ok('C08.PC', f'current statement = {stmts_param}[{pc}]')
    else:
        chk.bad('C08.PC', mod, func.name, 'current statement', f'the executed statement must be {stmts_param}[{pc}] of the current list', node=loop)
    cfg = CFG(func)
    incs = [n for n in walk_no_nested(loop) if isinstance(n, ast.AugAssign) and isinstance(n.target, ast.Name) and n.target.id == pc]
    good_incs = [n for n in incs if isinstance(n.op, ast.Add) and isinstance(n.value, ast.Constant) and n.value.value == 1]
    if len(incs) != len(good_incs) or not incs:
        chk.bad('C08.PC', mod, func.name, '; '.join(norm(i) for i in incs) or 'no increment', 'the program counter must advance by exactly 1 per statement', node=loop)
        return
    head = cfg.node_of(loop.test)
    disp = cfg.node_of(chain.test)
    inc_nodes = [cfg.node_of(i) for i in incs]
    # every path dispatch -> loop head passes exactly one increment: (a) no path avoiding all increments; (b) no path through two
    p = cfg.path(disp, [head], avoid=inc_nodes, follow=no_exc)
    if p:
        chk.bad('C08.PC', mod, func.name, 'path to the loop head without increment',
                f'a statement can return to the loop head without advancing the counter: {cfg.describe_path(p)}', node=loop)
    else:
        twice = False
        for inode in inc_nodes:
            reach = cfg.reach([inode], avoid=[head], follow=no_exc)
            if any(j in reach for j in inc_nodes):
                twice = True
        if twice:
            chk.bad('C08.PC', mod, func.name, 'two increments on one path', 'a path from the dispatch to the loop head advances the counter twice (a statement is skipped)', node=loop)
        else:
            chk.ok('C08.PC', f'every path from the dispatch back to the loop head passes exactly one `{pc} += 1`')
    # other assignments to pc: only label indices inside the jump branch
    others = [d for d in defs.get(pc, []) if d not in func.body]
    jump_ids = {id(x) for s in sections.get('jump', []) for x in ast.walk(s)}
    for d in others:
        if id(d) in jump_ids:
            v = d.value
            if isinstance(v, ast.Name) or (isinstance(v, ast.Subscript) and isinstance(v.value, ast.Name)) or \
                    (isinstance(v, ast.Call) and isinstance(v.func, ast.Attribute) and v.func.attr == 'get'):
                chk.ok('C08.PC', f'{norm(d)} (jump target: the label\'s own index, then the common increment)')
            else:
                chk.bad('C08.PC', mod, func.name, norm(d),
                        f'a taken jump must set the counter to the index of the label itself (execution continues after the label through the common increment); {norm(d)} '
                        f'lands elsewhere and skips or repeats a statement', node=d)
        else:
            chk.bad('C08.PC', mod, func.name, norm(d), 'the program counter is assigned outside the jump branch', node=d)
    return pc


def check_labels(chk):
    mod, func, loop, key_var, sections, chain = statement_dispatch(chk.repo, 'C08.L')
    stmts = sections.get('jump')
    if stmts is None:
        raise Unrecognised('C08.L', "no 'jump' branch", mod.rel)
    stmts_param = func.args.args[0].arg
    params = {a.arg for a in func.args.args} | {a.arg for a in func.args.kwonlyargs}
    region = ast.Module(body=stmts, type_ignores=[])
    # --- the search
    searches = []
    for n in ast.walk(ast.Module(body=func.body, type_ignores=[])):
        if isinstance(n, (ast.GeneratorExp, ast.ListComp, ast.DictComp, ast.For)):
            it = n.generators[0].iter if not isinstance(n, ast.For) else n.iter
            if 'enumerate' in norm(it) and ("'label'" in norm(n)):
                searches.append(n)
    if len(searches) != 1:
        raise Unrecognised('C08.L', f'{len(searches)} label searches found (expected one enumerate(...) over the statement list mentioning label)', mod.rel)
    srch = searches[0]
    it = srch.generators[0].iter if not isinstance(srch, ast.For) else srch.iter
    it_txt = norm(it)
    if it_txt != f'enumerate({stmts_param})':
        if stmts_param not in it_txt:
            chk.bad('C08.L', mod, func.name, it_txt, f'labels are searched in {it_txt}, not in the statement list of this invocation ({stmts_param}): jumps cross scopes', node=srch)
        elif 'reversed' in it_txt:
            chk.bad('C08.L', mod, func.name, it_txt, 'the label search scans backwards: with duplicate labels the LAST one is taken, the semantics say the first', node=srch)
        else:
            raise Unrecognised('C08.L', f'label search iterates {it_txt}', mod.rel)
    else:
        chk.ok('C08.L', f'label search iterates enumerate({stmts_param}) (the current list, in order)')
    if isinstance(srch, ast.DictComp):
        chk.bad('C08.L', mod, func.name, norm(srch)[:120],
                'a label table built by a dict comprehension keeps the LAST index of a duplicated label name; a jump must continue after the FIRST label of that name', node=srch)
    elif isinstance(srch, ast.For):
        guarded = any(isinstance(s, ast.If) and ' not in ' in norm(s.test) for s in srch.body) or any('setdefault' in norm(s) for s in srch.body)
        if guarded:
            chk.ok('C08.L', 'label table loop keeps the first index of each label (guarded store)')
        else:
            chk.bad('C08.L', mod, func.name, norm(srch.body[0])[:120], 'a label table filled by unconditional stores keeps the LAST index of a duplicated label', node=srch)
    else:
        par = getattr(srch, '_parent', None)
        if isinstance(par, ast.Call) and call_name(par) == 'next' and len(par.args) == 2 and norm(par.args[1]) == '-1':
            chk.ok('C08.L', 'first match: next(<generator over the list>, -1)')
        elif isinstance(srch, ast.ListComp):
            raise Unrecognised('C08.L', 'label search via list comprehension: which element is used is not recognised', mod.rel)
        else:
            raise Unrecognised('C08.L', f'label search form not recognised: {norm(par)[:80]}', mod.rel)
        cond = srch.generators[0].ifs
        tgt = srch.generators[0].target
        svar = norm(tgt.elts[1]) if isinstance(tgt, ast.Tuple) and len(tgt.elts) == 2 else None
        ctxt = norm(cond[0]) if len(cond) == 1 else ''
        lbl = None
        for a, b in (("get('label')", ''), ("['label']", '')):
            pass
        ok = False
        if isinstance(cond[0], ast.Compare) and len(cond[0].ops) == 1 and isinstance(cond[0].ops[0], ast.Eq):
            l, r = norm(cond[0].left), norm(cond[0].comparators[0])
            for x, y in ((l, r), (r, l)):
                if x == f"{svar}.get('label')":
                    lbl = y
                    ok = True
        if ok:
            # lbl must be the jump's label
            ldefs = [norm(n.value) for n in ast.walk(region) if isinstance(n, ast.Assign) and norm(n.targets[0]) == lbl]
            if lbl.endswith("['jump']['label']") or any(d.endswith("['jump']['label']") for d in ldefs):
                chk.ok('C08.L', f"match condition: {ctxt} with the jump's own label")
            else:
                chk.bad('C08.L', mod, func.name, ctxt, "the search must compare each statement's label with the label of the jump being executed", node=srch)
        else:
            raise Unrecognised('C08.L', f'label match condition not recognised: {ctxt}', mod.rel)
    # --- unknown label error
    raises = [n for n in ast.walk(region) if isinstance(n, ast.Raise)]
    if len(raises) == 1 and isinstance(raises[0].exc, ast.Call) and call_name(raises[0].exc) == 'BareScriptRuntimeError' and 'Unknown jump label' in norm(raises[0].exc):
        g = getattr(raises[0], '_parent', None)
        if isinstance(g, ast.If) and norm(g.test).endswith('== -1'):
            chk.ok('C08.L', 'no matching label -> BareScriptRuntimeError("Unknown jump label ...")')
        else:
            chk.ok('C08.L', 'unknown label raises BareScriptRuntimeError("Unknown jump label ...")')
    else:
        chk.bad('C08.L', mod, func.name, 'unknown-label error', 'a jump to a label that does not exist in the current list must raise BareScriptRuntimeError "Unknown jump label"', node=stmts[0])
    # --- the cache
    caches = set()
    for n in ast.walk(region):
        if isinstance(n, ast.Assign) and isinstance(n.targets[0], ast.Subscript) and isinstance(n.targets[0].value, ast.Name) and 'label' in norm(n.targets[0].slice):
            caches.add(n.targets[0].value.id)
    for c in sorted(caches):
        inits = [s for s in func.body if isinstance(s, ast.Assign) and norm(s.targets[0]) == c]
        if c in params:
            chk.bad('C08.L', mod, func.name, f'label cache {c} is a parameter',
                    'the label-index cache is passed in from outside the invocation: indices cached for one statement list are used for another (jumps cross between function '
                    'bodies, or stale positions are reused)', node=func)
        elif len(inits) == 1 and norm(inits[0].value) in ('None', '{}', 'dict()'):
            chk.ok('C08.L', f'label cache {c} is a local of the invocation (initialised {norm(inits[0].value)})')
        else:
            chk.bad('C08.L', mod, func.name, f'label cache {c}', 'the label-index cache must be a local variable created empty in each invocation', node=stmts[0])
    for n in ast.walk(region):
        if isinstance(n, ast.Assign) and isinstance(n.targets[0], ast.Subscript):
            base = norm(n.targets[0].value)
            if 'options' in base or base.startswith('globals'):
                chk.bad('C08.L', mod, func.name, norm(n)[:100], 'label indices are cached on shared state (options/globals): they leak between statement lists', node=n)


def check_truthiness(chk):
    mod, func, loop, key_var, sections, chain = statement_dispatch(chk.repo, 'C08.J')
    # package-level: no host truthiness on evaluate_expression results in runtime.py
    for fname, f in mod.funcs.items():
        for n in walk_no_nested(f):
            test = None
            if isinstance(n, (ast.If, ast.While, ast.IfExp)):
                test = n.test
            elif isinstance(n, ast.UnaryOp) and isinstance(n.op, ast.Not):
                test = n.operand
            if test is None:
                continue
            for c in ([test] + (list(test.values) if isinstance(test, ast.BoolOp) else [])):
                if isinstance(c, ast.UnaryOp) and isinstance(c.op, ast.Not):
                    c = c.operand
                if isinstance(c, ast.Call) and call_name(c) == 'evaluate_expression':
                    chk.bad('C08.J', mod, fname, norm(n)[:120], 'the host truthiness of an evaluated value is tested directly instead of value_boolean(...)', node=n)
    stmts = sections.get('jump', [])
    top = [s for s in stmts if isinstance(s, ast.If)]
    if len(top) != 1:
        raise Unrecognised('C08.J', 'jump branch is not a single conditional', mod.rel)
    t = top[0].test
    evals = [n for n in ast.walk(ast.Module(body=stmts, type_ignores=[])) if isinstance(n, ast.Call) and call_name(n) == 'evaluate_expression']
    good = isinstance(t, ast.BoolOp) and isinstance(t.op, ast.Or) and len(t.values) == 2 and norm(t.values[0]).startswith("'expr' not in ") \
        and isinstance(t.values[1], ast.Call) and call_name(t.values[1]) == 'value_boolean' and len(evals) == 1 and evals[0] is t.values[1].args[0] \
        and norm(evals[0].args[0]).endswith("['jump']['expr']")
    if good and not top[0].orelse:
        chk.ok('C08.J', "jump taken iff no expr or value_boolean(evaluate(expr)); expr evaluated once")
    else:
        chk.bad('C08.J', mod, func.name, norm(t)[:140],
                "a jump must be taken iff it has no 'expr' or value_boolean(evaluate_expression(expr)) is true, with the expression evaluated exactly once and no other "
                "truthiness shortcut (host truthiness differs for empty objects)", node=t)


def check_return_function(chk):
    mod, func, loop, key_var, sections, chain = statement_dispatch(chk.repo, 'C08.R')
    stmts = sections.get('return')
    if stmts is None:
        raise Unrecognised('C08.R', "no 'return' branch", mod.rel)
    rets = [n for n in ast.walk(ast.Module(body=stmts, type_ignores=[])) if isinstance(n, ast.Return)]
    vals = sorted(norm(r.value) if r.value is not None else 'None' for r in rets)
    with_expr = [r for r in rets if isinstance(r.value, ast.Call) and call_name(r.value) == 'evaluate_expression' and norm(r.value.args[0]).endswith("['return']['expr']")]
    none = [r for r in rets if r.value is None or norm(r.value) == 'None']
    if len(with_expr) == 1 and len(none) == 1 and len(rets) == 2 and isinstance(stmts[-1], ast.Return):
        g = getattr(with_expr[0], '_parent', None)
        if isinstance(g, ast.If) and norm(g.test).startswith("'expr' in "):
            chk.ok('C08.R', 'return: evaluated expr when present, else None; ends the invocation on every path')
        else:
            chk.bad('C08.R', mod, func.name, norm(g.test)[:80] if isinstance(g, ast.If) else 'return guard', "the return value must be the evaluated 'expr' exactly when one is present", node=with_expr[0])
    else:
        chk.bad('C08.R', mod, func.name, f'return branch returns {vals}', 'a return statement must end the current invocation with its evaluated expression, or None without one', node=stmts[0])
    # after the loop the invocation returns None
    tail = func.body[-1]
    if isinstance(tail, ast.Return) and (tail.value is None or norm(tail.value) == 'None'):
        chk.ok('C08.R', 'falling off the end of the list returns None')
    else:
        chk.bad('C08.R', mod, func.name, norm(tail)[:80], 'an invocation that runs past its last statement must return None', node=tail)


def model_derived_names(func):
    """names bound (transitively) to sub-objects of the model parameters inside func"""
    names = {a.arg for a in func.args.args if a.arg in MODEL_PARAMS}
    changed = True
    while changed:
        changed = False
        for n in walk_no_nested(func):
            tgt = val = None
            if isinstance(n, ast.Assign) and len(n.targets) == 1:
                tgt, val = n.targets[0], n.value
            elif isinstance(n, (ast.For,)):
                tgt, val = n.target, n.iter
            elif isinstance(n, ast.comprehension):
                tgt, val = n.target, n.iter
            if tgt is None:
                continue
            if derived(val, names):
                flat = [tgt] if isinstance(tgt, ast.Name) else ([x for x in ast.walk(tgt) if isinstance(x, ast.Name)] if isinstance(tgt, (ast.Tuple, ast.List)) and
                                                                all(isinstance(x, (ast.Name, ast.Tuple, ast.List, ast.Starred)) or isinstance(x, ast.expr_context) for x in ast.walk(tgt)) else [])
                for t in flat:
                    if t.id not in names:
                        names.add(t.id)
                        changed = True
    return names


def derived(e, names):
    """expression evaluates to (part of) the model: subscripts/.get/iteration helpers of a derived name"""
    if isinstance(e, ast.Name):
        return e.id in names
    if isinstance(e, ast.Subscript):
        return derived(e.value, names)
    if isinstance(e, ast.Call):
        cn = call_name(e) or ''
        if isinstance(e.func, ast.Attribute) and e.func.attr in ('get', 'items', 'values', 'keys') and derived(e.func.value, names):
            return True
        if cn in ('enumerate', 'iter', 'next', 'reversed') and e.args and derived(e.args[0], names):
            return True
        return False
    if isinstance(e, ast.IfExp):
        return derived(e.body, names) or derived(e.orelse, names)
    if isinstance(e, ast.Tuple):
        return any(derived(x, names) for x in e.elts)
    if isinstance(e, ast.GeneratorExp):
        return derived(e.elt, names | {t.id for g in e.generators for t in ast.walk(g.target) if isinstance(t, ast.Name) and derived(g.iter, names)})
    return False


def check_immutability(chk, modules=('runtime', 'model'), rule='C08.M', only_funcs=None):
    n_sites = 0
    for modname in modules:
        mod = chk.repo.module(modname)
        for fname, func in mod.funcs.items():
            if only_funcs is not None and fname not in only_funcs:
                continue
            if not any(a.arg in MODEL_PARAMS for a in func.args.args):
                continue
            names = model_derived_names(func)
            for n in walk_no_nested(func):
                targets = []
                if isinstance(n, ast.Assign):
                    targets = [t for t in n.targets if isinstance(t, (ast.Subscript, ast.Attribute))]
                elif isinstance(n, ast.AugAssign) and isinstance(n.target, (ast.Subscript, ast.Attribute)):
                    targets = [n.target]
                elif isinstance(n, ast.Delete):
                    targets = [t for t in n.targets if isinstance(t, (ast.Subscript, ast.Attribute))]
                for t in targets:
                    n_sites += 1
                    if derived(t.value, names):
                        chk.bad(rule, mod, fname, norm(n)[:120],
                                f'{norm(t)[:60]} is part of the model passed in: executing/linting must never modify the model (one model is executed repeatedly)', node=n)
                    else:
                        chk.ok(rule, f'{modname}.{fname}: store {norm(t)[:60]} targets a local / runtime object', trivial=True)
                if isinstance(n, ast.Call) and isinstance(n.func, ast.Attribute) and n.func.attr in MUTATORS:
                    n_sites += 1
                    if derived(n.func.value, names):
                        chk.bad(rule, mod, fname, norm(n)[:120],
                                f'.{n.func.attr}() is applied to {norm(n.func.value)[:50]}, which is part of the model: execution/lint must never modify the model', node=n)
                    else:
                        chk.ok(rule, f'{modname}.{fname}: .{n.func.attr}() on {norm(n.func.value)[:40]} (not model-derived)', trivial=True)
            chk.ok(rule, f'{modname}.{fname}: model-derived names {sorted(names)} are never mutated' if not any(f.func == fname and f.rule == rule for f in chk.findings)
                   else f'{modname}.{fname}: analysed')
    return n_sites


def check_arg_list(chk):
    ee = EvalExpr(chk.repo, 'C08.A')
    st = ee.sections.get('function', [])
    calls = [n for s in st for n in ast.walk(s) if isinstance(n, ast.Call) and isinstance(n.func, ast.Name) and n.func.id.endswith('value') and len(n.args) == 2]
    if len(calls) != 1:
        raise Unrecognised('C08.A', 'call of the function value not found', ee.mod.rel)
    arg = calls[0].args[0]
    defs = [n.value for s in st for n in ast.walk(s) if isinstance(n, ast.Assign) and norm(n.targets[0]) == norm(arg)]
    if len(defs) != 1:
        raise Unrecognised('C08.A', f'argument list {norm(arg)} is not a single-assignment local', ee.mod.rel)
    d = defs[0]

    def kind(e):
        if isinstance(e, ast.IfExp):
            return kind(e.body) | kind(e.orelse)
        if isinstance(e, (ast.ListComp, ast.List)):
            return {'fresh'}
        if isinstance(e, ast.Call) and call_name(e) == 'list':
            return {'fresh'}
        if isinstance(e, ast.Constant) and e.value is None:
            return {'None'}
        if isinstance(e, ast.BoolOp):
            out = set()
            for v in e.values:
                out |= kind(v)
            return out
        if "['function']" in norm(e) or ".get('args'" in norm(e):
            return {'model'}
        return {norm(e)[:40]}
    ks = kind(d)
    if ks == {'fresh'}:
        chk.ok('C08.A', f'argument list is built per call: {norm(d)[:80]}')
    elif 'None' in ks:
        chk.bad('C08.A', ee.mod, 'evaluate_expression', norm(d)[:120],
                "the argument list can be None (function expression without the optional 'args'): every library function and every script function with parameters "
                "then fails on len(None) and the call silently evaluates to null", node=d)
    elif 'model' in ks:
        chk.bad('C08.A', ee.mod, 'evaluate_expression', norm(d)[:120], "the model's own args list is handed to the callee, which completes and rewrites its argument list in place", node=d)
    else:
        raise Unrecognised('C08.A', f'argument list construction not understood: {norm(d)[:80]}', ee.mod.rel)


def run(chk):
    chk.rule('C08.X', 'statement dispatch = schema union; label falls through', floor=6)
    chk.rule('C08.PC', 'program counter discipline (init, bound, +1 exactly once per path, label index only)', floor=5)
    chk.rule('C08.L', 'label lookup: first match in the current list; unknown -> runtime error; cache local to the invocation', floor=5)
    chk.rule('C08.J', 'conditional jump: no expr or value_boolean(evaluate(expr)), evaluated once', floor=1)
    chk.rule('C08.R', 'return semantics', floor=2)
    chk.rule('C08.M', 'model immutability (effect analysis over model-derived objects in runtime.py and model.py)', floor=8)
    chk.rule('C08.A', 'argument list handed to function values is fresh and never None', floor=1)
    chk.assumptions += ['models are schema-valid; host functions do not retain references to model parts (they only receive evaluated values)']
    chk.guard('C08.X', check_dispatch, chk)
    chk.guard('C08.PC', check_counter, chk)
    chk.guard('C08.L', check_labels, chk)
    chk.guard('C08.J', check_truthiness, chk)
    chk.guard('C08.R', check_return_function, chk)
    chk.guard('C08.M', check_immutability, chk)
    chk.guard('C08.A', check_arg_list, chk)
    # function statement + new invocation per call are C04.R / C04.F
    from .c04 import check_function_statement, check_frames
    chk.rule('C04.R', 'shared with C04: function statement binds a global callable')
    chk.rule('C04.F', 'shared with C04: script functions start a new invocation on their own list')
    chk.guard('C04.R', check_function_statement, chk)
    chk.guard('C04.F', check_frames, chk)
