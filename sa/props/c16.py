"""C16 - datetime construction, arithmetic and ISO text."""
import ast

from ..core import Unrecognised, norm, call_name, walk_no_nested, const_str
from ..atoms import AtomEval, Unknown, ladder
from ..rx import Rx, Lang, included, parse_tree
from ..raises import Effects
from ..lib import library_functions

EXPLANATION = (
    'Calendar arithmetic over years x time zones is a runtime quantity: the quantifier over time zones is NOT '
    'addressed. Decided are the unit tables, sibling agreement and symmetry. C16.M: each carry block of datetimeNew is '
    'recognised by shape (if x out of range: extra = x // M; x -= extra * M; y += extra) and bound to parameter positions '
    'through the argument model; within a block the modulus is one constant, equal to the calendar constant of that '
    'unit (1000, 60, 60, 24; month: 12 with the 1-based shift), the carry goes to the next larger unit, blocks appear in '
    'increasing unit order, floor division is used, the month block precedes the day loops, the day loops step month '
    'and year with the 12<->1 wrap and recompute the month length from calendar.monthrange(year, month) AFTER every '
    'step; the constructor receives (year, month, day, hour, minute, second, millisecond*1000). C16.G: each getter '
    'returns the same-named attribute of the normalised value (millisecond from microsecond / 1000). C16.N: '
    'value_normalize_datetime maps aware -> local naive, date -> midnight, naive unchanged. C16.I: formatter and parser '
    'both go through the local zone with .astimezone(), both truncate to milliseconds with factor 1000, and the '
    'formatter\'s output language is included in the parser\'s patterns (automata inclusion over all ten digits). '
    'C16.P: no ValueError/OverflowError escapes value_parse_datetime (effect analysis). Operator units are C03.T.')
ENUMERATION = 'carry blocks, day-loop steps, constructor fields, 7 getters, normalisation branches, formatter/parser facts, raising primitives of the ISO parser'

UNITS = ['year', 'month', 'day', 'hour', 'minute', 'second', 'millisecond']
MODULUS = {'millisecond': 1000, 'second': 60, 'minute': 60, 'hour': 24, 'month': 12}
CARRY_TO = {'millisecond': 'second', 'second': 'minute', 'minute': 'hour', 'hour': 'day', 'month': 'year'}


def check_datetime_new_sim(chk, rule='C16.M'):
    """primary: datetimeNew evaluated (E6l) on concrete component lists against proleptic-Gregorian calendar arithmetic -> True when every run agrees"""
    from .. import libsim
    libfuncs = {f.name: f for f in library_functions(chk.repo, rule)}
    cache = getattr(chk, '_dtnew_sim', None)
    if cache is None:
        cache = chk._dtnew_sim = libsim.run_datetime_new(chk.repo, libfuncs, chk.tier, rule)
    n, problems = cache
    lf = libfuncs['datetimeNew']
    if problems:
        kinds = sorted({p[0] for p in problems})
        first = problems[0]
        chk.bad(rule, lf.mod, lf.pyname, first[1][:110], f'evaluation of datetimeNew on {n} component lists: {first[1]} ({len(problems)} runs deviate; kinds: {", ".join(kinds)})', node=lf.func)
        return False
    chk.ok(rule, f'datetimeNew evaluated on {n} component lists (months -13..25, days -10000..10000, hours / minutes / seconds / milliseconds far out of range, leap and '
           f'non-leap years, each spelled with host ints and with floats): the constructed datetime is what proleptic-Gregorian calendar arithmetic gives', count=n)
    return True


def check_carry(chk):
    lf = next(f for f in library_functions(chk.repo, 'C16.M') if f.name == 'datetimeNew')
    func = lf.func
    if not lf.targets or not lf.model:
        raise Unrecognised('C16.M', 'datetimeNew argument model not found', lf.mod.rel)
    unit_of = {t: e['name'] for t, e in zip(lf.targets, lf.model)}
    if sorted(unit_of.values()) != sorted(UNITS):
        raise Unrecognised('C16.M', f'datetimeNew parameters are {list(unit_of.values())}', lf.mod.rel)
    var_of = {u: v for v, u in unit_of.items()}
    blocks = []
    for s in func.body:
        if isinstance(s, ast.If) and not isinstance(s.body[0], ast.While):
            b = parse_carry_block(s, unit_of)
            if b:
                blocks.append(b)
    seen = [b['unit'] for b in blocks]
    for b in blocks:
        u = b['unit']
        want = MODULUS.get(u)
        s = b['node']
        if want is None:
            chk.bad('C16.M', lf.mod, lf.pyname, f'carry block on {u}', f'unexpected carry block for unit {u}', node=s)
            continue
        probs = []
        if len(set(b['moduli'])) != 1:
            probs.append(f'the block uses different moduli {b["moduli"]} (range test / division / subtraction disagree)')
        elif b['moduli'][0] != want:
            probs.append(f'modulus {b["moduli"][0]} is not the calendar constant {want} of {u}')
        if b['carry_to'] != CARRY_TO[u]:
            probs.append(f'the carry is added to {b["carry_to"]}, not to {CARRY_TO[u]}')
        if not b['floor']:
            probs.append('true division / other operator instead of floor division (negative components do not borrow correctly)')
        if u == 'month' and not b['shift']:
            probs.append('month is 1-based: the number of extra years must be (month - 1) // 12')
        if b['range'] is False:
            probs.append('the range test does not cover both sides (x < lower or x >= modulus)')
        for p in probs:
            chk.bad('C16.M', lf.mod, lf.pyname, f'{u} block: {p.split(":")[0][:60]}', f'datetimeNew {u} normalisation: {p}', node=s)
        if not probs:
            chk.ok('C16.M', f'{u}: if out of range: extra = {"(x - 1)" if b["shift"] else "x"} // {want}; x -= extra * {want}; {CARRY_TO[u]} += extra')
    reassigned = set()
    for n in walk_no_nested(func):
        if isinstance(n, (ast.Assign, ast.AugAssign)):
            for t in (n.targets if isinstance(n, ast.Assign) else [n.target]):
                for x in ast.walk(t):
                    if isinstance(x, ast.Name):
                        reassigned.add(x.id)
    var_of = {u: v for v, u in unit_of.items()} if isinstance(unit_of, dict) else {}
    for u in MODULUS:
        if u not in seen:
            v = var_of.get(u, u)
            if v in reassigned or u in reassigned:
                chk.unrec('C16.M', f'the normalisation of {u} is not an inline carry block (the variable is reassigned some other way, e.g. through a helper): not decided', lf.mod.rel)
            else:
                chk.bad('C16.M', lf.mod, lf.pyname, f'no carry block for {u}', f'out-of-range {u} values are not normalised', node=func)
    order = [u for u in seen if u in ('millisecond', 'second', 'minute', 'hour')]
    if order == ['millisecond', 'second', 'minute', 'hour']:
        chk.ok('C16.M', 'time carry blocks run in increasing unit order (each carry is seen by the next block)')
    elif set(order) == {'millisecond', 'second', 'minute', 'hour'}:
        chk.bad('C16.M', lf.mod, lf.pyname, f'block order {order}', 'carry blocks must run from the smallest unit upwards, otherwise a carry into an already processed unit is lost', node=func)
    # day loops
    loops = [n for n in walk_no_nested(func) if isinstance(n, ast.While)]
    day, month, year = var_of['day'], var_of['month'], var_of['year']
    top_ix = {id(s): i for i, s in enumerate(func.body)}
    month_block = next((b['node'] for b in blocks if b['unit'] == 'month'), None)
    hour_block = next((b['node'] for b in blocks if b['unit'] == 'hour'), None)
    if len(loops) != 2:
        raise Unrecognised('C16.M', f'{len(loops)} day-adjustment loops found (expected 2)', lf.mod.rel)

    def top_of(n):
        while getattr(n, '_parent', None) is not func:
            n = n._parent
        return n
    for lp in loops:
        t = top_of(lp)
        for name, blk in (('month', month_block), ('hour', hour_block)):
            if blk is not None and top_ix[id(top_of(blk))] > top_ix[id(t)]:
                chk.bad('C16.M', lf.mod, lf.pyname, f'{name} block after the day loop', f'the {name} carry must be applied before the day loops ({"monthrange needs a month in 1..12" if name == "month" else "the hour carry changes the day"})', node=blk)
        body = lp.body
        back = norm(lp.test) == f'{day} < 1'
        steps = [s for s in body if isinstance(s, ast.Assign) and norm(s.targets[0]) in (month, year)]
        mr = [s for s in body if any(isinstance(c, ast.Call) and call_name(c) == 'calendar.monthrange' for c in ast.walk(s))]
        if not steps or not mr:
            chk.bad('C16.M', lf.mod, lf.pyname, f'day loop `{norm(lp.test)}`: month length not recomputed',
                    'inside the day loop the month length must be taken from calendar.monthrange(year, month) after every month/year step: a length computed once (or from the starting year) '
                    'is wrong when the roll-over crosses a month with a different length or a February of a year with different leap status', node=lp)
            continue
        last_step = max(body.index(s) for s in steps)
        mr_ix = body.index(mr[-1])
        args_ok = all(norm(c.args[0]) in (f'int({year})', year) and norm(c.args[1]) in (f'int({month})', month) for s in mr for c in ast.walk(s)
                      if isinstance(c, ast.Call) and call_name(c) == 'calendar.monthrange')
        wrap_m = any(norm(s.targets[0]) == month and isinstance(s.value, ast.IfExp) for s in steps)
        wrap_y = any(norm(s.targets[0]) == year and isinstance(s.value, ast.IfExp) for s in steps)
        wrap_ok = False
        for s in steps:
            if norm(s.targets[0]) == month and isinstance(s.value, ast.IfExp):
                txt = norm(s.value)
                wrap_ok = txt in (f'{month} - 1 if {month} != 1 else 12', f'{month} + 1 if {month} != 12 else 1')
        ystep = next((norm(s.value) for s in steps if norm(s.targets[0]) == year), '')
        y_ok = ystep in (f'{year} if {month} != 1 else {year} - 1', f'{year} if {month} != 12 else {year} + 1')
        # year must be stepped before month (it tests the old month)
        y_ix = next((body.index(s) for s in steps if norm(s.targets[0]) == year), -1)
        m_ix = next((body.index(s) for s in steps if norm(s.targets[0]) == month), -1)
        if mr_ix > last_step and args_ok and wrap_ok and y_ok and y_ix < m_ix:
            chk.ok('C16.M', f'day loop `{norm(lp.test)}`: year/month stepped with the 12<->1 wrap, then month length = calendar.monthrange(year, month)')
        else:
            why = []
            if not (mr_ix > last_step and args_ok):
                why.append('the month length is not recomputed from monthrange(int(year), int(month)) after the step')
            if not wrap_ok:
                why.append('the month does not wrap 12 <-> 1')
            if not y_ok or not y_ix < m_ix:
                why.append('the year is not stepped together with the month wrap (before the month changes)')
            chk.bad('C16.M', lf.mod, lf.pyname, f'day loop `{norm(lp.test)}`: ' + why[0][:50], 'datetimeNew day roll-over: ' + '; '.join(why), node=lp)
    # constructor
    rets = [r for r in walk_no_nested(func) if isinstance(r, ast.Return) and isinstance(r.value, ast.Call) and (call_name(r.value) or '').endswith('datetime')]
    if len(rets) != 1:
        raise Unrecognised('C16.M', 'datetimeNew does not return datetime.datetime(...)', lf.mod.rel)
    args = [norm(a) for a in rets[0].value.args]
    want_args = [f'int({var_of[u]})' for u in UNITS[:-1]] + [f'int({var_of["millisecond"]}) * 1000']
    if args == want_args:
        chk.ok('C16.M', 'constructor: (year, month, day, hour, minute, second, millisecond * 1000), each through int()')
    else:
        chk.bad('C16.M', lf.mod, lf.pyname, f'datetime({", ".join(args)})'[:120], f'the normalised components must be passed as datetime({", ".join(want_args)})', node=rets[0])


def parse_carry_block(s, unit_of):
    """recognise `if x < lo or x >= M: extra = x // M; x -= extra * M; y += extra`"""
    body = s.body
    if len(body) != 3 or not (isinstance(body[0], ast.Assign) and isinstance(body[1], ast.AugAssign) and isinstance(body[2], ast.AugAssign)):
        return None
    extra = norm(body[0].targets[0])
    div = body[0].value
    if not isinstance(div, ast.BinOp):
        return None
    x = None
    shift = False
    if isinstance(div.left, ast.Name):
        x = div.left.id
    elif isinstance(div.left, ast.BinOp) and isinstance(div.left.op, ast.Sub) and isinstance(div.left.left, ast.Name) and norm(div.left.right) == '1':
        x, shift = div.left.left.id, True
    if x not in unit_of or not isinstance(div.right, ast.Constant):
        return None
    moduli = [div.right.value]
    sub = body[1]
    if not (norm(sub.target) == x and isinstance(sub.op, ast.Sub) and isinstance(sub.value, ast.BinOp) and isinstance(sub.value.op, ast.Mult)):
        return None
    consts = [c.value for c in (sub.value.left, sub.value.right) if isinstance(c, ast.Constant)]
    names = [norm(c) for c in (sub.value.left, sub.value.right) if not isinstance(c, ast.Constant)]
    if names != [extra] or len(consts) != 1:
        return None
    moduli.append(consts[0])
    add = body[2]
    if not (isinstance(add.op, ast.Add) and norm(add.value) == extra and norm(add.target) in unit_of):
        return None
    # range test
    rng = None
    t = s.test
    if isinstance(t, ast.BoolOp) and isinstance(t.op, ast.Or) and len(t.values) == 2 and all(isinstance(v, ast.Compare) for v in t.values):
        lo, hi = t.values
        if norm(lo.left) == x and norm(hi.left) == x and isinstance(lo.ops[0], ast.Lt) and isinstance(lo.comparators[0], ast.Constant) and isinstance(hi.comparators[0], ast.Constant):
            lov, hiv = lo.comparators[0].value, hi.comparators[0].value
            if isinstance(hi.ops[0], ast.GtE):
                moduli.append(hiv - lov)
                rng = True
            elif isinstance(hi.ops[0], ast.Gt):
                moduli.append(hiv - lov + 1)
                rng = True
    return {'unit': unit_of[x], 'moduli': moduli, 'carry_to': unit_of[norm(add.target)], 'floor': isinstance(div.op, ast.FloorDiv), 'shift': shift,
            'range': rng if rng is not None else False, 'node': s}


def check_getters(chk):
    libfuncs = {lf.name: lf for lf in library_functions(chk.repo, 'C16.G')}
    for unit in ('year', 'month', 'day', 'hour', 'minute', 'second'):
        name = 'datetime' + unit.capitalize()
        lf = libfuncs.get(name)
        if lf is None or not lf.targets:
            raise Unrecognised('C16.G', f'{name} not found', None)
        rets = [r for r in walk_no_nested(lf.func) if isinstance(r, ast.Return)]
        want = f'value_normalize_datetime({lf.targets[0]}).{unit}'
        if len(rets) == 1 and norm(rets[0].value) == want:
            chk.ok('C16.G', f'{name} = {want}')
        else:
            chk.bad('C16.G', lf.mod, lf.pyname, norm(rets[0].value)[:80] if rets else 'no return', f'{name} must return the {unit} of the normalised datetime ({want})', node=lf.func)
    lf = libfuncs.get('datetimeMillisecond')
    rets = [r for r in walk_no_nested(lf.func) if isinstance(r, ast.Return)]
    txt = norm(rets[0].value) if rets else ''
    if f'value_normalize_datetime({lf.targets[0]}).microsecond / 1000' in txt or f'value_normalize_datetime({lf.targets[0]}).microsecond // 1000' in txt:
        chk.ok('C16.G', f'datetimeMillisecond derives from .microsecond with divisor 1000')
    else:
        chk.bad('C16.G', lf.mod, lf.pyname, txt[:80], 'datetimeMillisecond must be the microsecond of the normalised datetime divided by 1000', node=lf.func)


def check_normalize(chk):
    vmod = chk.repo.module('value')
    func = vmod.func('value_normalize_datetime', 'C16.N')
    p = func.args.args[0].arg
    dt_if = [s for s in func.body if isinstance(s, ast.If)]
    if len(dt_if) != 1 or norm(dt_if[0].test) != f'isinstance({p}, datetime.datetime)':
        raise Unrecognised('C16.N', 'value_normalize_datetime does not start with the datetime.datetime test', vmod.rel)
    inner = dt_if[0].body
    aware = [s for s in inner if isinstance(s, ast.If)]
    ok1 = len(aware) == 1 and norm(aware[0].test) == f'{p}.tzinfo is not None' and norm(aware[0].body[0]) == f'return {p}.astimezone().replace(tzinfo=None)'
    ok2 = isinstance(inner[-1], ast.Return) and norm(inner[-1].value) == p
    tail = func.body[-1]
    ok3 = isinstance(tail, ast.Return) and norm(tail.value) == f'datetime.datetime({p}.year, {p}.month, {p}.day)'
    for ok, desc, what in ((ok1, 'aware datetime -> local naive (.astimezone().replace(tzinfo=None))', 'a zone-aware datetime must be converted to the local zone and made naive'),
                           (ok2, 'naive datetime -> unchanged', 'a naive datetime must be returned unchanged'),
                           (ok3, 'date -> midnight datetime', 'a plain date must become the datetime at midnight of that day')):
        if ok:
            chk.ok('C16.N', 'value_normalize_datetime: ' + desc)
        else:
            chk.bad('C16.N', vmod, 'value_normalize_datetime', desc, what, node=func)
    # every datetime consumer normalises
    n = 0
    for modname in ('runtime', 'library', 'value'):
        mod = chk.repo.module(modname)
        for c in ast.walk(mod.tree):
            if isinstance(c, ast.Call) and call_name(c) == 'value_normalize_datetime':
                n += 1
    chk.extra['value_normalize_datetime_call_sites'] = n
    if n < 12:
        chk.bad('C16.N', vmod, 'value_normalize_datetime', f'{n} call sites', f'only {n} consumers normalise their datetime operand (15 on the reference tree): some operator / getter / formatter uses the raw value')


def check_iso(chk):
    vmod = chk.repo.module('value')
    # formatter: value_string's datetime branch
    func = vmod.func('value_string', 'C16.I')
    p = func.args.args[0].arg
    from ..atoms import select_branch
    try:
        stmts = select_branch(chk.repo, vmod, func, {p: 'datetime'})
        stmts_date = select_branch(chk.repo, vmod, func, {p: 'date'})
    except Unknown as exc:
        raise Unrecognised('C16.I', f'value_string ladder: {exc}', vmod.rel)
    if not stmts or stmts is not stmts_date:
        raise Unrecognised('C16.I', 'value_string has no common branch for date and datetime values', vmod.rel)
    txt = ' ; '.join(norm(s) for s in stmts)
    facts = {
        'formats the local-zone instant: value_normalize_datetime(value).astimezone().isoformat()': f'value_normalize_datetime({p}).astimezone().isoformat()' in txt,
        'microseconds truncated (not rounded) to milliseconds: // 1000': '// 1000' in txt and 'round(' not in txt,
        'three millisecond digits': ':0{3}d' in txt or ':03d' in txt,
    }
    def wrong_idioms(text, func_node):
        """positively wrong ways of converting between an instant and local text"""
        out = []
        if 'round(' in text:
            out.append('rounds the sub-millisecond part (round(...)): 12:00:00.9996 becomes the next second / millisecond, so the text denotes another instant than the value')
        if '.timestamp()' in text or 'fromtimestamp(' in text:
            out.append('goes through a float POSIX timestamp (timestamp() / fromtimestamp()): a double cannot hold microseconds for years far from 1970, so the millisecond is off by one')
        for nm in {x.id for x in ast.walk(func_node) if isinstance(x, ast.Name)}:
            if nm in vmod.assigns and any(k in norm(v) for v in vmod.assigns[nm] for k in ('tzinfo', 'astimezone(', 'timezone(', 'utcoffset')):
                out.append(f'uses the module-level time zone object {nm}, computed once at import: the offset of another season (DST) or of a later TZ setting is wrong for other instants')
        if 'utcoffset' in text and 'astimezone' not in text:
            out.append('applies one UTC offset to every instant instead of the offset in effect at that instant (astimezone())')
        return out
    wrong = wrong_idioms(txt, func)
    if 'isoformat(' in txt and 'astimezone' not in txt:
        wrong.append('formats the value without attaching the local zone (no astimezone()): the text carries no UTC offset, which the ISO parser pattern requires, and denotes no definite instant')
    for w in wrong:
        chk.bad('C16.I', vmod, 'value_string', 'formatter: ' + w[:60], f'the ISO formatter {w}', node=stmts[0])
    for desc, ok in facts.items():
        if ok:
            chk.ok('C16.I', 'formatter ' + desc)
        elif not wrong:
            alt = "timespec='milliseconds'" in txt and '.astimezone()' in txt and 'isoformat(' in txt
            if alt:
                chk.ok('C16.I', f"formatter {desc.split(':')[0]} (isoformat(timespec='milliseconds') of the astimezone() value: truncation by the host formatter)")
            else:
                chk.unrec('C16.I', f'value_string: formatter feature not recognised: {desc}', vmod.rel)
    # parser
    pf = vmod.func('value_parse_datetime', 'C16.I')
    ptxt = ' ; '.join(norm(s) for s in walk_no_nested(pf) if isinstance(s, (ast.Assign, ast.Return)))
    pfacts = {
        'converts through the local zone: fromisoformat(...).astimezone().replace(tzinfo=None)': '.astimezone().replace(tzinfo=None)' in ptxt and 'fromisoformat(' in ptxt,
        'truncates to whole milliseconds: (microsecond // 1000) * 1000': 'microsecond // 1000 * 1000' in ptxt.replace('(', '').replace(')', ''),
        'date-only text -> local midnight datetime(year, month, day)': 'datetime.datetime(year, month, day)' in ptxt,
    }
    pwrong = wrong_idioms(' ; '.join(norm(s) for s in walk_no_nested(pf) if isinstance(s, ast.stmt)), pf)
    for w in pwrong:
        chk.bad('C16.I', vmod, 'value_parse_datetime', 'parser: ' + w[:60], f'the ISO parser {w}', node=pf)
    alt_local = 'value_normalize_datetime(' in ptxt and 'fromisoformat(' in ptxt
    alt_trunc = any(k in ptxt.replace('(', '').replace(')', '') for k in ('microsecond - local.microsecond % 1000', 'microsecond % 1000'))
    alt_date = 'datetime.datetime(year, month, day)' in ' ; '.join(norm(s) for s in walk_no_nested(pf) if isinstance(s, ast.stmt))
    for (desc, ok), alt in zip(pfacts.items(), (alt_local, alt_trunc, alt_date)):
        if ok:
            chk.ok('C16.I', 'parser ' + desc)
        elif alt and not pwrong:
            chk.ok('C16.I', f'parser {desc.split(":")[0]} (equivalent form)')
        elif not pwrong:
            chk.unrec('C16.I', f'value_parse_datetime: parser feature not recognised: {desc}', vmod.rel)
    # language inclusion: formatter output ⊆ parser pattern
    digits = list('0123456789')
    alphabet = digits + ['-', '+', ':', 'T', '.', 'Z', 'x']
    rg = vmod.const('_R_DATETIME', 'C16.I')
    parser_lang = Lang(Rx(rg.pattern, rg.flags).tree, alphabet)
    fmt = Lang(parse_tree(r'(?:000[1-9]|00[1-9]\d|0[1-9]\d\d|[1-9]\d{3})-(?:0[1-9]|1[0-2])-(?:0[1-9]|[12]\d|3[01])T(?:[01]\d|2[0-3]):[0-5]\d:[0-5]\d\.\d{3}'
                          r'[+-](?:[01]\d|2[0-3]):[0-5]\d'), alphabet)
    if not parser_lang.accepts('2024-01-02T03:04:05.678+13:45') and False:
        pass
    neg, _ = included(Lang(parse_tree(r'\d{4}-\d\d-\d\dT\d\d:\d\d'), alphabet), parser_lang)
    if neg:
        raise Unrecognised('C16.I', 'automata self-check failed (truncated datetime accepted by the parser pattern?)', vmod.rel)
    ok, cex = included(fmt, parser_lang)
    if ok:
        chk.ok('C16.I', 'every text the formatter can produce (yyyy-mm-ddThh:mm:ss.mmm+hh:mm, any offset 00:00..23:59) matches the parser pattern (automata inclusion)')
    else:
        chk.bad('C16.I', vmod, '_R_DATETIME', f'parser pattern rejects {cex!r}',
                f'the ISO parser pattern {rg.pattern!r} rejects {cex!r}, a text datetimeISOFormat produces in some time zone: datetimeISOParse(datetimeISOFormat(d)) is null there')
    rgd = vmod.const('_R_DATE', 'C16.I')
    okd, cexd = included(Lang(parse_tree(r'(?:000[1-9]|00[1-9]\d|0[1-9]\d\d|[1-9]\d{3})-(?:0[1-9]|1[0-2])-(?:0[1-9]|[12]\d|3[01])'), alphabet),
                         Lang(Rx(rgd.pattern, rgd.flags).tree, alphabet))
    if okd:
        chk.ok('C16.I', 'every date-only text yyyy-mm-dd matches the date pattern')
    else:
        chk.bad('C16.I', vmod, '_R_DATE', f'date pattern rejects {cexd!r}', f'the date pattern rejects {cexd!r}')


def check_parser_total(chk):
    vmod = chk.repo.module('value')
    func = vmod.func('value_parse_datetime', 'C16.P')

    def extra(mod, f, vv):
        out = []
        for n in walk_no_nested(f):
            if isinstance(n, ast.Call):
                cn = call_name(n) or ''
                if cn.endswith('fromisoformat'):
                    out.append((n, 'ValueError', 'fromisoformat: text matches the pattern but is not a real date/time (month 13, 30 February, hour 25)'))
                elif cn in ('datetime.datetime', 'datetime.date') and n.args:
                    out.append((n, 'ValueError', 'datetime(): component out of range (month 13, 30 February, year 0)'))
        return out
    eff = Effects(chk.repo, extra_primitives=extra)
    sites = eff.escapes(vmod, func)
    prims = eff.primitives(vmod, func)
    for node, exc, why in prims:
        if any(s.node is node and s.exc == exc for s in sites):
            chk.bad('C16.P', vmod, 'value_parse_datetime', f'{norm(node)[:80]} [{exc}]',
                    f'{exc} ({why}) escapes value_parse_datetime, which is documented to return None when parsing fails: datetimeISOParse fails with a host error and a single such CSV '
                    f'cell makes dataParseCSV return null for the whole table', node=node)
        else:
            chk.ok('C16.P', f'value_parse_datetime: {norm(node)[:60]} [{exc}] is handled')


def check_datetime_sim(chk, rule_of=None, only=None):
    """normalisation, ISO text and parser, getters and datetime arithmetic evaluated (E6d) on concrete datetimes under several local zones -> set of clauses decided OK"""
    from .. import dtsim
    rule_of = rule_of or {'normalise': 'C16.N', 'format': 'C16.I', 'parse': 'C16.I', 'getter': 'C16.G', 'arith': 'C16.E'}
    libfuncs = {f.name: f for f in library_functions(chk.repo, 'C16.E')}
    cache = getattr(chk, '_dt_sim', None)
    if cache is None:
        cache = chk._dt_sim = dtsim.run_datetime(chk.repo, libfuncs, chk.tier, 'C16.E')
    n, problems = cache
    vmod = chk.repo.module('value')
    where = {'normalise': (vmod, 'value_normalize_datetime'), 'format': (vmod, 'value_string'), 'parse': (vmod, 'value_parse_datetime'),
             'getter': (chk.repo.module('library'), 'datetime getters'), 'arith': (chk.repo.module('runtime'), 'evaluate_expression')}
    bad = set()
    for clause in ('normalise', 'format', 'parse', 'getter', 'arith'):
        if only and clause not in only:
            continue
        msgs = [m for c, m in problems if c == clause]
        if msgs:
            bad.add(clause)
            mod, fn = where[clause]
            chk.bad(rule_of[clause], mod, fn, msgs[0][:110], f'evaluation under several local zones: {msgs[0][:500]} ({len(msgs)} of {n} evaluations deviate in this clause)',
                    node=mod.funcs.get(fn))
    good = {c for c in rule_of if c not in bad and (not only or c in only)}
    # a wrong normalisation or text invalidates what depends on it
    if 'normalise' in bad:
        good -= {'format', 'parse', 'getter'}
    if 'format' in bad:
        good -= {'parse'}
    desc = {'normalise': 'aware -> local naive, date -> midnight, naive unchanged', 'format': 'value_string gives the ISO text of the instant in the local zone, truncated to milliseconds',
            'parse': 'value_parse_datetime inverts it to the millisecond, reads Z / other offsets / 1-6 fraction digits / date-only text, and gives null for invalid text',
            'getter': 'the seven getters return the parts of the normalised instant', 'arith': 'd + n is n milliseconds later and (d + n) - d = n for int and float spellings'}
    for c in sorted(good):
        chk.ok(rule_of[c], f'{desc[c]} (part of {n} evaluations on naive / aware / date values with sub-millisecond parts in the zones UTC, +05:45, -03:30, +13:45)', count=max(1, n // 5))
    return good


def run(chk):
    chk.rule('C16.E', 'datetime + number / datetime - datetime by evaluation on concrete datetimes (E6d)', floor=1)
    chk.rule('C16.M', 'datetimeNew carry table, day-loop steps, constructor fields', floor=8)
    chk.rule('C16.G', 'component getters return the same-named part of the normalised value', floor=7)
    chk.rule('C16.N', 'normalisation: aware -> local naive, date -> midnight, naive unchanged', floor=3)
    chk.rule('C16.I', 'ISO formatter / parser symmetry and language inclusion', floor=8)
    chk.rule('C16.P', 'the ISO parser is total (returns None instead of raising)', floor=3)
    chk.assumptions += ['host calendar/datetime arithmetic (calendar.monthrange, datetime +/- timedelta, .astimezone()) is correct; the process zone has a whole-minute offset',
                        'the quantifier over time zones and correctness of roll-over for all component values are NOT decided']
    sim = chk.guard('C16.M', check_datetime_new_sim, chk)
    if sim:
        chk.advisory('C16.M', check_carry, chk)
    else:
        chk.guard('C16.M', check_carry, chk)
    good = chk.guard('C16.E', check_datetime_sim, chk) or set()
    (chk.advisory if 'getter' in good else chk.guard)('C16.G', check_getters, chk)
    (chk.advisory if 'normalise' in good else chk.guard)('C16.N', check_normalize, chk)
    (chk.advisory if {'format', 'parse'} <= good else chk.guard)('C16.I', check_iso, chk)
    chk.guard('C16.P', check_parser_total, chk)
    for clause, r in (('getter', 'C16.G'), ('normalise', 'C16.N'), ('format', 'C16.I')):
        if clause in good:
            chk.floors.pop(r, None)
    if 'parse' in good:
        chk.floors.pop('C16.P', None)
    # operator units: shared with C03.T (+ and - rows)
    from . import c03
    from ..rt import EvalExpr
    chk.rule('C03.T', 'shared with C03: datetime + number (milliseconds, normalised operand) and datetime - datetime (total_seconds * 1000)')
    c03.check_operator_table(chk, keep=lambda text: 'date' in text and ("'+'" in text or "'-'" in text))
