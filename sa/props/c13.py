"""C13 - numbers survive conversion to text and back; integers print without a fraction."""
import ast

from ..core import Unrecognised, norm, call_name, walk_no_nested, const_str, if_chain
from ..atoms import ATOMS, AtomEval, Unknown, ladder
from ..rx import Rx, Lang, included, parse_tree, MAXREPEAT
from ..lib import library_functions
from ..exprsim import classify_expr_regexes

EXPLANATION = (
    'The shortest-repr round trip of finite doubles is CPython\'s float.__repr__/float() contract and is assumed; what '
    'the repository adds around it is decided. C13.D: value_string\'s type ladder evaluated over host type atoms prints '
    'bool before int/float (true/false), int through str(), float through str() followed by exactly one substitution '
    'with the clean-up regex; every script-visible stringification site (string concatenation, stringNew, arrayJoin, '
    'systemLog, systemLogDebug) goes through value_string. C13.C: the clean-up regex is a literal dot, zeros only, '
    'anchored at the end, replaced by the empty string - it can only delete a fraction made of zeros that runs to the '
    'end of the text, so exponent forms are untouched and the printed text denotes the same number; host-string '
    'idioms that strip zeros elsewhere (rstrip) are rejected. C13.L: automata inclusion {cleaned repr of finite x >= 0} '
    '⊆ L(number literal regex) - digits, optional fraction, optional e[+-]digits with lower-case e and mandatory sign. '
    'C13.N: value_parse_number returns the converted value only behind an isnan/isinf (or isfinite) test and maps '
    'ValueError to None; value_parse_integer handles ValueError; numberParseInt coerces the radix. Decides these; '
    'round-tripping over all doubles is the trusted CPython base.')
ENUMERATION = 'type atoms of value_string, stringification sites, clean-up regex items, language inclusion queries, parser return sites'

REPR_NONNEG = r'(?:\d+|\d+\.\d+|\d(?:\.\d+)?e[+-]\d\d+)'      # cleaned repr of a finite double >= 0


def classify_number_print(e, param):
    """how a float/int is turned into text: ('str',) | ('cleanup', regexname) | ('rstrip',) | other text"""
    if isinstance(e, ast.Call) and call_name(e) in ('str', 'repr') and len(e.args) == 1 and norm(e.args[0]) == param:
        return ('str',)
    if isinstance(e, ast.Call) and isinstance(e.func, ast.Attribute) and e.func.attr == 'sub' and len(e.args) == 2 and isinstance(e.func.value, ast.Name):
        inner = classify_number_print(e.args[1], param)
        if inner == ('str',) and const_str(e.args[0]) == '':
            return ('cleanup', e.func.value.id)
        return ('sub-other', norm(e))
    if isinstance(e, ast.Call) and isinstance(e.func, ast.Attribute) and e.func.attr in ('rstrip', 'strip', 'replace', 'split', 'partition', 'rpartition'):
        return ('host-trim', e.func.attr)
    if isinstance(e, ast.JoinedStr) or (isinstance(e, ast.Call) and call_name(e) == 'format'):
        return ('format', norm(e))
    return ('other', norm(e)[:60])


def check_value_string(chk):
    vmod = chk.repo.module('value')
    func = vmod.func('value_string', 'C13.D')
    p = func.args.args[0].arg
    got = {}
    for atom in ('bool', 'int', 'float', 'None', 'str'):
        try:
            ret = ladder(chk.repo, vmod, func, {p: atom})
        except Unknown as exc:
            raise Unrecognised('C13.D', f'value_string ladder not understood for {atom}: {exc}', vmod.rel)
        got[atom] = ret
    # bool
    b = got['bool'].value if got['bool'] is not None else None
    if isinstance(b, ast.IfExp) and const_str(b.body) == 'true' and const_str(b.orelse) == 'false' and norm(b.test) == p:
        chk.ok('C13.D', "value_string(bool) -> 'true' / 'false' (tested before the int branch)")
    else:
        chk.bad('C13.D', vmod, 'value_string', f'bool -> {norm(b)[:60]}', "a boolean must print as 'true'/'false'; here it takes the number path (prints True/1)", node=got['bool'])
    i = classify_number_print(got['int'].value, p) if got['int'] is not None else None
    if i == ('str',):
        chk.ok('C13.D', 'value_string(int) -> str(value): no fraction')
    else:
        chk.bad('C13.D', vmod, 'value_string', f'int -> {i}', 'an int must print through str() (digits only)', node=got['int'])
    f = classify_number_print(got['float'].value, p) if got['float'] is not None else None
    regex_name = None
    if f and f[0] == 'cleanup':
        regex_name = f[1]
        chk.ok('C13.D', f'value_string(float) -> {regex_name}.sub("", str(value)): repr followed by exactly one clean-up substitution')
    elif f and f[0] == 'host-trim':
        chk.bad('C13.C', vmod, 'value_string', norm(got['float'].value)[:100],
                f"a float is printed by trimming characters with str.{f[1]}(): zeros that belong to the exponent or to the integer digits are removed too "
                f"(1e+20 prints as 1e+2), so the text no longer parses back to the number", node=got['float'])
    elif f == ('str',):
        chk.bad('C13.D', vmod, 'value_string', 'float -> str(value)', 'an integral float prints with a fraction (5.0) instead of 5', node=got['float'])
    else:
        raise Unrecognised('C13.D', f'float printing not recognised: {f}', vmod.rel)
    return regex_name


NUMBER_SAMPLES = [0, 5, -3, 10 ** 20, 123456789012345678901234567890, 0.0, -0.0, 5.0, -3.0, 10.0, 100.0, 1200.0, 1.5, -2.25, 0.1, 0.5, 100.5, 1000000.0, 123456789.125, 1e15, 1e16, 1e20, 1.5e20,
                  1.25e+30, 1e21, 1e22, 1e100, 1.7976931348623157e308, 1e-5, 1e-7, 1.5e-7, 2.25e-300, 1.5e-10, 5e-324, 2.5e-10, 1.05, 10.01, 1e+300, 3e+50, 7.0e-20]


def check_value_string_sim(chk):
    """C13.D/C13.C by evaluation: value_string applied to concrete sample numbers (host str()/repr() of a float is the shortest round-tripping text: the
    assumed CPython base); the printed text must denote the same number and an integral number below 1e15 must print as its integer digits"""
    from ..absint import Interp, RaiseSig
    vmod = chk.repo.module('value')
    func = vmod.func('value_string', 'C13.D')
    it = Interp(vmod, 'C13.D')
    it.repo = chk.repo
    n, probs = 0, []
    for v in NUMBER_SAMPLES + [True, False, float('inf'), float('-inf'), float('nan')]:
        it.depth = 0
        n += 1
        try:
            got = it.call_function(func, [v], func)
        except RaiseSig as sig:
            probs.append((v, f'raises {sig.cls}: a number produced by script arithmetic (1e308 * 10) cannot be stringified / concatenated any more'))
            continue
        if isinstance(v, float) and (v != v or v in (float('inf'), float('-inf'))):
            if not isinstance(got, str):
                raise Unrecognised('C13.D', f'value_string({v!r}) evaluates to the non-text value {got!r}', vmod.rel)
            continue
        if isinstance(v, bool):
            if got != ('true' if v else 'false'):
                probs.append((v, f'prints {got!r}; a boolean prints as true / false'))
            continue
        if not isinstance(got, str):
            raise Unrecognised('C13.D', f'value_string({v!r}) evaluates to the non-text value {got!r}', vmod.rel)
        try:
            back = float(got) if isinstance(v, float) else int(got)
        except ValueError:
            back = None
        import math as _math
        if back is not None and back == v and isinstance(v, float) and _math.copysign(1.0, back) != _math.copysign(1.0, v):
            probs.append((v, f'prints {got!r}: the sign of zero is lost (the text converts back to {back!r})'))
        elif back is None or back != v:
            probs.append((v, f'prints {got!r}, which {"is not a number" if back is None else f"denotes {back!r}"}: the text no longer converts back to the number'))
        elif float(v).is_integer() and abs(v) < 1e15 and got != str(int(v)) and not (v == 0 and isinstance(v, float) and _math.copysign(1.0, v) < 0):
            probs.append((v, f'prints {got!r}; an integral number prints as its integer digits {str(int(v))!r}'))
    return n, probs


def check_literals_concrete(chk):
    """C13.L by evaluation: the text value_string prints for a non-negative finite number, handed to parse_expression (both evaluated on the concrete value), is a number
    literal denoting that number"""
    from ..absint import Interp, RaiseSig, reify
    vmod = chk.repo.module('value')
    pmod = chk.repo.module('parser')
    f_str = vmod.func('value_string', 'C13.L')
    f_parse = pmod.func('parse_expression', 'C13.L')
    vit = Interp(vmod, 'C13.L')
    vit.repo = chk.repo
    pit = Interp(pmod, 'C13.L')
    pit.repo = chk.repo
    pit.max_depth = 60
    n = 0
    extra = [2.0 ** 53, 2.0 ** 53 + 2, 9999999999999998.0, 4503599627370497.0, 9007199254740991.0, 2 ** 53, 2 ** 53 + 2, 123456789012.0, 1e15 - 1, 3.0e15]
    for v in [x for x in NUMBER_SAMPLES + extra if x >= 0 and not (isinstance(x, int) and x > 2 ** 60) and str(x) != '-0.0']:
        vit.depth = pit.depth = 0
        try:
            text = vit.call_function(f_str, [v], f_str)
        except RaiseSig:
            continue            # C13.D's business
        if not isinstance(text, str):
            raise Unrecognised('C13.L', f'value_string({v!r}) evaluates to the non-text value {text!r}', vmod.rel)
        n += 1
        try:
            got = reify(pit.call_function(f_parse, [text], f_parse))
        except RaiseSig as sig:
            chk.bad('C13.L', pmod, 'parse_expression', f'printed number rejected: {sig.cls}', f'the number {v!r} prints as {text!r}, and parse_expression({text!r}) raises {sig.cls}{tuple(sig.args_)[:1]!r}: '
                    f'text the runtime prints for a number is not accepted back as a literal', node=f_parse)
            return
        num = got.get('number') if isinstance(got, dict) and set(got) == {'number'} else None
        if isinstance(num, bool) or not isinstance(num, (int, float)):
            if isinstance(got, Sym) or (isinstance(got, dict) and any(isinstance(x, Sym) for x in got.values())):
                raise Unrecognised('C13.L', f'parse_expression({text!r}) evaluates to {got!r}', pmod.rel)
            chk.bad('C13.L', pmod, 'parse_expression', 'printed number is not a number literal', f'the number {v!r} prints as {text!r}, and parse_expression({text!r}) gives {got!r}, not a number literal', node=f_parse)
            return
        if num != v:
            chk.bad('C13.L', pmod, 'parse_expression', 'printed number denotes another number', f'the number {v!r} prints as {text!r}, and parse_expression({text!r}) gives the number {num!r}', node=f_parse)
            return
    chk.ok('C13.L', f'{n} non-negative sample numbers (incl. integral doubles around 2**53 and up to 1e16 that print as plain digits): parse_expression(value_string(x)) is the number literal x (both evaluated)', count=n)


def report_value_string_sim(chk):
    sim = None
    try:
        sim = check_value_string_sim(chk)
    except Unrecognised as exc:
        chk.unrec('C13.D', f'value_string on concrete numbers: {exc.what}', exc.where)
    vmod = chk.repo.module('value')
    if sim is not None and sim[1]:
        v, msg = sim[1][0]
        rule = 'C13.C' if isinstance(v, float) and v == v and abs(v) != float('inf') else 'C13.D'
        chk.bad(rule, vmod, 'value_string', f'value_string({v!r}) {msg[:80]}', f'evaluation of value_string on {sim[0]} sample numbers: value_string({v!r}) {msg} '
                f'({len(sim[1])} samples deviate: {", ".join(repr(x[0]) for x in sim[1][:6])})', node=vmod.funcs.get('value_string'))
    elif sim is not None:
        chk.ok('C13.D', f'value_string evaluated on {sim[0]} sample numbers (ints, integral and fractional floats, exponent forms with and without fraction, booleans, non-finite '
               f'values): never raises; every text converts back to the number; integral numbers print as integer digits', count=sim[0])
        chk.ok('C13.C', 'the float clean-up removes only an all-zero fraction at the end of the text on every sample (exponent forms 1e+20, 1.5e+20, 2.25e-300 untouched)')
    return sim


def check_cleanup(chk, regex_name):
    vmod = chk.repo.module('value')
    rg = vmod.const(regex_name, 'C13.C')
    rx = Rx(rg.pattern, rg.flags, regex_name)
    items = rx.tree.kids
    good = len(items) == 3 and Rx.literal_of(items[0]) == '.' and items[1].kind == 'rep' and items[1].a == 0 and Rx.literal_of(items[1].kids[0]) == '0' \
        and items[2].kind == 'at' and items[2].a in ('AT_END', 'AT_END_STRING')
    if good:
        chk.ok('C13.C', f'{regex_name} = literal dot, zeros only, end anchor: it can only delete an all-zero fraction that runs to the end of the text')
    else:
        why = []
        if not items or items[-1].kind != 'at':
            why.append('it is not anchored at the end (zeros in the middle of a fraction or before an exponent are removed)')
        if not items or Rx.literal_of(items[0]) != '.':
            why.append('it does not start at the decimal point (trailing zeros of integers / fractions are removed)')
        chk.bad('C13.C', vmod, regex_name, rg.pattern, f'the number clean-up pattern {rg.pattern!r} can change the value of the printed number: ' + '; '.join(why or ['unexpected shape']))
    # thorough: apply the abstract effect to the repr language: texts of the form D.0 lose ".0", everything else is unchanged
    if chk.tier == 'thorough' and good:
        alphabet = ['0', '5', '.', 'e', '+', '-']
        # strings of the repr language that contain a match: exactly those ending in ".0...0"
        lang_match = Lang(parse_tree(r'(?:\d+\.0+)'), alphabet)
        lang_repr = Lang(parse_tree(r'(?:\d+\.\d+|\d(?:\.\d+)?e[+-]\d\d+)'), alphabet)
        ok1, _ = included(lang_match, lang_repr)
        exp_forms = Lang(parse_tree(r'\d(?:\.\d+)?e[+-]\d\d+'), alphabet)
        tail = Lang(parse_tree(r'.*\.0*'), alphabet)
        ok2, cex = included(exp_forms, tail)
        if ok1 and not ok2:
            chk.ok('C13.C', 'automata: no exponent-form repr ends in ".0*", so the clean-up never touches an exponent form')
        else:
            chk.bad('C13.C', vmod, regex_name, 'exponent forms', f'an exponent-form repr can match the clean-up pattern (counter-example {cex!r})')


def check_sites(chk):
    libfuncs = {lf.name: lf for lf in library_functions(chk.repo, 'C13.D')}
    for name in ('stringNew', 'arrayJoin', 'systemLog', 'systemLogDebug'):
        lf = libfuncs.get(name)
        if lf is None:
            raise Unrecognised('C13.D', f'{name} not registered', None)
        calls = [n for n in ast.walk(lf.func) if isinstance(n, ast.Call) and call_name(n) == 'value_string']
        host = [n for n in ast.walk(lf.func) if isinstance(n, ast.Call) and call_name(n) in ('str', 'repr', 'format') and n.args and isinstance(n.args[0], ast.Name)]
        if calls and not host:
            chk.ok('C13.D', f'{name} stringifies through value_string')
        else:
            chk.bad('C13.D', lf.mod, lf.pyname, f'{name}: {norm(host[0]) if host else "no value_string"}',
                    f'{name} does not stringify its value(s) through value_string: numbers print with the host formatting (5.0, True, 1e+16 variants)', node=lf.func)


def check_literal_language(chk):
    pmod = chk.repo.module('parser')
    rxs = classify_expr_regexes(pmod)
    num = [r for n, (k, r) in rxs.items() if k == 'number']
    if len(num) != 1:
        raise Unrecognised('C13.L', 'number literal regex not identified', pmod.rel)
    g = num[0].group_node(1)
    alphabet = ['0', '5', '.', 'e', 'E', '+', '-', 'x']
    lit = Lang(g.kids[0], alphabet)
    printed = Lang(parse_tree(REPR_NONNEG), alphabet)
    if not printed.accepts('5.5e+05') or not printed.accepts('50') or included(Lang(parse_tree(r'\d+E\d+'), alphabet), printed)[0]:
        raise Unrecognised('C13.L', 'automata engine self-check failed', pmod.rel)
    ok, cex = included(printed, lit)
    if ok:
        chk.ok('C13.L', 'every cleaned repr of a finite double >= 0 (digits | digits.digits | d[.d+]e[+-]dd+) is a numeric literal of the language (automata inclusion)')
    else:
        chk.bad('C13.L', pmod, num[0].name, f'literal regex rejects {cex!r}',
                f'the number literal pattern {num[0].pattern!r} does not accept the printed form {cex!r} (representative digits): a number stringified by the runtime is not a valid '
                f'literal in source text')
    # number literal built by float()
    return num[0]


def check_parsers(chk):
    vmod = chk.repo.module('value')
    func = vmod.func('value_parse_number', 'C13.N')
    # abstract execution: float(text) is an oracle with four outcomes; math.isnan / isinf / isfinite answer from the outcome
    from ..absint import Interp, Sym, RaiseSig

    class NumInterp(Interp):
        outcome = 'finite'

        def builtin_hook(self, name, args, e):
            if name == 'float' and args and isinstance(args[0], Sym) and args[0].kind == 'text':
                if self.outcome == 'ValueError':
                    raise RaiseSig('ValueError', ('could not convert string to float',), e)
                return Sym('num', self.outcome)
            return NotImplemented

        def method_hook(self, base, m, args, e):
            if isinstance(base, tuple) and base and base[0] == 'module' and base[1] == 'math' and args and isinstance(args[0], Sym) and args[0].kind == 'num':
                k = args[0].args[0]
                if m == 'isnan':
                    return k == 'nan'
                if m == 'isinf':
                    return k == 'inf'
                if m == 'isfinite':
                    return k == 'finite'
            if isinstance(base, Sym) and base.kind == 'text' and m in ('strip', 'lower'):
                return base
            return NotImplemented

        def compare(self, op, a, b, node):
            for x, y in ((a, b), (b, a)):
                if isinstance(x, Sym) and x.kind == 'num' and isinstance(op, (ast.Eq, ast.NotEq)):
                    if isinstance(y, Sym) and y.kind == 'num':
                        r = x.args[0] != 'nan'         # x != x is the NaN idiom
                        return r if isinstance(op, ast.Eq) else not r
            return super().compare(op, a, b, node)
    # concrete texts first (the host float() is exact on them): printed forms convert to their number, non-finite / overflowing / malformed text gives null
    cit = Interp(vmod, 'C13.N')
    cit.repo = chk.repo
    texts = [('1', 1.0), ('-2.5', -2.5), ('100', 100.0), ('0.1', 0.1), ('1e+20', 1e20), ('1.5e-07', 1.5e-7), ('2.25e-300', 2.25e-300), ('1.7976931348623157e+308', 1.7976931348623157e308),
             ('nan', None), ('NaN', None), ('-nan', None), ('inf', None), ('-inf', None), ('Infinity', None), ('+infinity', None), ('1e309', None), ('-2.5E+400', None),
             ('9' * 320, None), ('abc', None), ('', None), ('1,5', None), ('--1', None), ('1e', None)]
    concrete_ok = True
    try:
        for text, want in texts:
            cit.depth = 0
            try:
                got = ('value', cit.call_function(func, [text], func))
            except RaiseSig as sig:
                got = ('raise', sig.cls)
            if got == ('value', want) and (want is None or isinstance(got[1], float)):
                continue
            if got[0] == 'value' and isinstance(got[1], Sym):
                raise Unrecognised('C13.N', f'value_parse_number({text[:30]!r}) evaluates to the unmodelled value {got[1]!r}', vmod.rel)
            concrete_ok = False
            chk.bad('C13.N', vmod, 'value_parse_number', f'value_parse_number({text[:30]!r}) -> {got[1]!r}' if got[0] == 'value' else f'value_parse_number({text[:30]!r}) raises {got[1]}',
                    f'evaluation on concrete text: value_parse_number({text[:30]!r}) ' + (f'raises {got[1]}' if got[0] == 'raise' else f'returns {got[1]!r}') +
                    f'; it must return {"the number " + repr(want) if want is not None else "null (non-finite numbers are not BareScript numbers; malformed text is null)"}', node=func)
            break
        else:
            chk.ok('C13.N', f'value_parse_number evaluated on {len(texts)} concrete texts: printed number forms convert to the number; NaN / infinity spellings, text beyond the double '
                   f'range and malformed text give null', count=len(texts))
    except Unrecognised as exc:
        concrete_ok = None
        chk.note(f'C13.N: value_parse_number on concrete text not evaluated ({exc.what}); the four-outcome oracle below decides')
    it = NumInterp(vmod, 'C13.N')
    it.repo = chk.repo
    if concrete_ok is not None:
        # the evaluation on concrete text decided (either way): the four-outcome oracle is a coarser model of the same function and only adds OK instances
        chk.advisory('C13.N', _parse_oracle_runs, chk, it, func, vmod)
    else:
        _parse_oracle_runs(chk, it, func, vmod)
    _parse_integer_runs(chk, vmod, Interp, Sym, RaiseSig)


def _parse_oracle_runs(chk, it, func, vmod):
    from ..absint import Sym, RaiseSig
    for outcome, want in (('finite', Sym('num', 'finite')), ('nan', None), ('inf', None), ('ValueError', None)):
        it.outcome = outcome
        it.depth = 0
        try:
            got = ('value', it.call_function(func, [Sym('text')], func))
        except RaiseSig as sig:
            got = ('raise', sig.cls)
        desc = {'finite': 'text that float() converts to a finite number', 'nan': 'a NaN spelling', 'inf': 'an infinity spelling or text beyond the double range ("1e999")',
                'ValueError': 'text float() rejects'}[outcome]
        if got == ('value', want):
            chk.ok('C13.N', f'value_parse_number: {desc} -> {"the number" if want is not None else "null"} (abstract execution)')
        elif outcome == 'nan' and any(isinstance(x, ast.Call) and isinstance(x.func, ast.Attribute) and x.func.attr in ('match', 'fullmatch', 'search') for x in ast.walk(func)):
            chk.unrec('C13.N', 'value_parse_number pre-validates the text with a regex: whether NaN spellings reach float() is not decided', vmod.rel)
        else:
            chk.bad('C13.N', vmod, 'value_parse_number', f'{outcome}: {got}',
                    f'value_parse_number given {desc} ' + (f'raises {got[1]}' if got[0] == 'raise' else f'returns {got[1]!r}') + f'; it must return {"the number" if want is not None else "null"} '
                    '(non-finite numbers are not BareScript numbers; malformed text is null)', node=func)


def _parse_integer_runs(chk, vmod, Interp, Sym, RaiseSig):
    func = vmod.func('value_parse_integer', 'C13.N')

    class IntInterp(Interp):
        outcome = 'ok'

        def builtin_hook(self, name, args, e):
            if name == 'int' and args and isinstance(args[0], Sym) and args[0].kind == 'text':
                if self.outcome == 'ValueError':
                    raise RaiseSig('ValueError', ('invalid literal',), e)
                return Sym('int', args[1] if len(args) > 1 else 10)
            return NotImplemented
    it2 = IntInterp(vmod, 'C13.N')
    it2.repo = chk.repo
    for outcome in ('ok', 'ValueError'):
        for radix in (10, 16):
            it2.outcome = outcome
            it2.depth = 0
            try:
                got = ('value', it2.call_function(func, [Sym('text'), radix], func))
            except RaiseSig as sig:
                got = ('raise', sig.cls)
            want = ('value', Sym('int', radix) if outcome == 'ok' else None)
            if got == want:
                chk.ok('C13.N', f'value_parse_integer (radix {radix}): {"int(text, radix)" if outcome == "ok" else "text int() rejects -> null"} (abstract execution)')
            else:
                chk.bad('C13.N', vmod, 'value_parse_integer', f'{outcome}, radix {radix}: {got}',
                        f'value_parse_integer with radix {radix} ' + (f'raises {got[1]}' if got[0] == 'raise' else f'returns {got[1]!r}') + f'; it must return {"int(text, radix)" if outcome == "ok" else "null"}', node=func)
    # library wrappers return the helper results unchanged
    libfuncs = {lf.name: lf for lf in library_functions(chk.repo, 'C13.N')}
    for name, helper in (('numberParseFloat', 'value_parse_number'), ('numberParseInt', 'value_parse_integer')):
        lf = libfuncs[name]
        rets = [n for n in walk_no_nested(lf.func) if isinstance(n, ast.Return)]
        if len(rets) == 1 and isinstance(rets[0].value, ast.Call) and call_name(rets[0].value) == helper:
            chk.ok('C13.N', f'{name} returns {helper}(...) unchanged')
        else:
            chk.bad('C13.N', lf.mod, lf.pyname, norm(rets[0])[:80] if rets else 'no return', f'{name} must return the result of {helper} (null for text that is not a number)', node=lf.func)


def run(chk):
    chk.rule('C13.D', 'stringifier dispatch (bool before number; int via str; float via str + one clean-up) and stringification sites', floor=6)
    chk.rule('C13.C', 'number clean-up can only delete an all-zero fraction at the end of the text', floor=1)
    chk.rule('C13.L', 'printed non-negative numbers are literals of the language (automata inclusion)', floor=1)
    chk.rule('C13.N', 'parsers return null for non-finite / non-numeric text', floor=5)
    chk.assumptions += ['CPython: repr(float) is the shortest string that float() maps back to the same double; its forms are digits.digits or d[.d+]e[+-]dd+']
    # primary: evaluation of value_string on concrete numbers; the shape rules below explain a deviation and are advisory once the evaluation decided
    sim = report_value_string_sim(chk)
    name = None
    if sim is not None and not sim[1]:
        name = chk.advisory('C13.D', check_value_string, chk)
        if name:
            chk.advisory('C13.C', check_cleanup, chk, name)
    else:
        name = chk.guard('C13.D', check_value_string, chk)
        if name:
            chk.guard('C13.C', check_cleanup, chk, name)
    chk.guard('C13.D', check_sites, chk)
    chk.guard('C13.L', check_literals_concrete, chk)
    chk.guard('C13.L', check_literal_language, chk)
    chk.guard('C13.N', check_parsers, chk)
    from .c02 import check_number_literals
    chk.guard('C13.L', check_number_literals, chk, 'C13.L', True)
    # string concatenation goes through value_string: shared with C03.T
    from . import c03
    from ..rt import EvalExpr
    chk.rule('C03.T', 'shared with C03: + with a string operand stringifies the other side with value_string')
    c03.check_operator_table(chk, keep=lambda text: "'+'" in text)
