"""C11 - value comparison is a total preorder and every consumer agrees with it."""
import ast
from ..absint import Sym

from ..core import Unrecognised, call_name, const_str, norm, walk_no_nested, is_name, if_chain
from ..atoms import ATOMS, BARE_TYPE, AtomEval, Unknown
from ..lib import library_functions

EXPLANATION = (
    'C11.P: the isinstance ladders of value_type and value_compare are evaluated symbolically over 13 host type atoms '
    '(with bool<:int, datetime<:date); for all 169 ordered pairs value_compare must select a null branch iff an operand '
    'is None, a same-type branch iff both atoms have the same BareScript type among string/boolean/number/datetime/'
    'array/object, and the type-name fallback otherwise; value_type must give each atom its BareScript type. '
    'C11.F: every scalar branch is a three-way comparison that is evaluated over the three possible orderings of its '
    'two operands and must yield (-1, 0, 1), with both operands derived from (left, right) by the same function, so '
    'swapping arguments negates the result. C11.C: containers compare element-wise through recursive calls in '
    '(left[i], right[i]) order, first non-zero wins, then lengths; objects over sorted items, key then value; no host '
    'comparison operator touches a container operand. C11.S: the six relational operators are value_compare(left, '
    'right) <own sign test> 0. C11.U: consumers (systemCompare, arraySort, arrayIndexOf/LastIndexOf, mathMin/mathMax, '
    'dataSort) call value_compare with the confirmed argument order and polarity and use no host ordering on script '
    'values. Decides these structural clauses; transitivity inside one host type is the host\'s.')
ENUMERATION = ('169 atom pairs (C11.P) + 13 atoms of value_type + one instance per comparison branch (C11.F/C), per '
               'relational operator (C11.S) and per consumer site (C11.U); distinct by (rule, construct)')

SAME_TYPE = {'string', 'boolean', 'number', 'datetime', 'array', 'object'}
ORDERINGS = ('lt', 'eq', 'gt')


def cmp_truth(op, ordering, swapped):
    if swapped:
        ordering = {'lt': 'gt', 'gt': 'lt', 'eq': 'eq'}[ordering]
    return {
        ast.Lt: ordering == 'lt', ast.LtE: ordering in ('lt', 'eq'), ast.Gt: ordering == 'gt',
        ast.GtE: ordering in ('gt', 'eq'), ast.Eq: ordering == 'eq', ast.NotEq: ordering != 'eq',
    }[type(op)]


def eval_sign(e, a, b, ordering):
    """Evaluate an int-valued expression built from constants, conditional expressions and comparisons of the operand
    texts a, b under one of the three orderings."""
    if isinstance(e, ast.Constant) and isinstance(e.value, (int, bool)):
        return int(e.value)
    if isinstance(e, ast.UnaryOp) and isinstance(e.op, ast.USub):
        return -eval_sign(e.operand, a, b, ordering)
    if isinstance(e, ast.UnaryOp) and isinstance(e.op, ast.Not):
        return int(not eval_sign(e.operand, a, b, ordering))
    if isinstance(e, ast.IfExp):
        return eval_sign(e.body if eval_sign(e.test, a, b, ordering) else e.orelse, a, b, ordering)
    if isinstance(e, ast.BinOp) and isinstance(e.op, (ast.Sub, ast.Add)):
        l, r = eval_sign(e.left, a, b, ordering), eval_sign(e.right, a, b, ordering)
        return l - r if isinstance(e.op, ast.Sub) else l + r
    if isinstance(e, ast.BoolOp):
        vals = [eval_sign(v, a, b, ordering) for v in e.values]
        return int(all(vals)) if isinstance(e.op, ast.And) else int(any(vals))
    if isinstance(e, ast.Compare) and len(e.ops) == 1 and type(e.ops[0]) in (ast.Lt, ast.LtE, ast.Gt, ast.GtE, ast.Eq, ast.NotEq):
        l, r = norm(e.left), norm(e.comparators[0])
        if (l, r) == (a, b):
            return int(cmp_truth(e.ops[0], ordering, False))
        if (l, r) == (b, a):
            return int(cmp_truth(e.ops[0], ordering, True))
    raise Unknown(f'not a three-way expression over ({a}, {b}): {norm(e)}')


def three_way_operands(e):
    """Find the operand pair of a three-way expression: the first ordering comparison inside it."""
    for n in ast.walk(e):
        if isinstance(n, ast.Compare) and len(n.ops) == 1 and type(n.ops[0]) in (ast.Lt, ast.LtE, ast.Gt, ast.GtE, ast.Eq, ast.NotEq):
            return norm(n.left), norm(n.comparators[0])
    return None


def is_three_way(e):
    ops = three_way_operands(e)
    if ops is None:
        return None
    a, b = ops
    try:
        if tuple(eval_sign(e, a, b, o) for o in ORDERINGS) == (-1, 0, 1):
            return a, b
        if tuple(eval_sign(e, b, a, o) for o in ORDERINGS) == (-1, 0, 1):
            return b, a
    except Unknown:
        return None
    return False


def local_defs(stmts):
    """single-assignment locals defined in a statement list: name -> value node"""
    out = {}
    for s in stmts:
        if isinstance(s, ast.Assign) and len(s.targets) == 1 and isinstance(s.targets[0], ast.Name):
            out[s.targets[0].id] = None if s.targets[0].id in out else s.value
    return out


def derivation(text_or_node, defs, params):
    """Express an operand as (function-name, param) e.g. ('value_normalize_datetime', 'left'), ('', 'left'), ('len', ..)."""
    node = text_or_node
    seen = 0
    while isinstance(node, ast.Name) and node.id in defs and defs[node.id] is not None and seen < 5:
        node = defs[node.id]
        seen += 1
    if isinstance(node, ast.Name) and node.id in params:
        return ('', node.id)
    if isinstance(node, ast.Call) and len(node.args) == 1 and not node.keywords:
        inner = derivation(node.args[0], defs, params)
        if inner is not None:
            return ((call_name(node) or '?') + ('.' + inner[0] if inner[0] else ''), inner[1])
    if isinstance(node, ast.Call) and isinstance(node.func, ast.Attribute) and all(isinstance(a, ast.Constant) for a in node.args) and not node.keywords:
        inner = derivation(node.func.value, defs, params)
        if inner is not None:
            return ('.' + node.func.attr + '(' + ', '.join(repr(a.value) for a in node.args) + ')' + inner[0], inner[1])
    if isinstance(node, ast.IfExp):
        a = derivation(node.body, defs, params)
        b = derivation(node.orelse, defs, params)
        used = {n.id for n in ast.walk(node.test) if isinstance(n, ast.Name)} & set(params)
        if a is not None and b is not None and a[1] == b[1] and used <= {a[1]}:
            return (f'({a[0] or "raw"} | {b[0] or "raw"} depending on its own type)', a[1])
    if isinstance(node, ast.BoolOp) and isinstance(node.op, ast.Or) and len(node.values) == 2 and isinstance(node.values[1], ast.Constant):
        inner = derivation(node.values[0], defs, params)
        if inner is not None:
            return (inner[0] + f' or {node.values[1].value!r}', inner[1])
    return None


def check_value_type(chk):
    vmod = chk.repo.module('value')
    ev = AtomEval(chk.repo, vmod, {})
    for atom in ATOMS:
        try:
            got = ev.value_type(atom)
        except Unknown as exc:
            raise Unrecognised('C11.P', f'value_type ladder not understood for {atom}: {exc}', vmod.rel)
        want = BARE_TYPE[atom]
        if got == want:
            chk.ok('C11.P', f'value_type({atom}) = {got!r}')
        else:
            chk.bad('C11.P', vmod, 'value_type', f'value_type({atom}) -> {got!r}',
                    f'value_type classifies a host {atom} as {got!r}; the language defines it as {want!r} '
                    f'(every consumer of the type partition - comparison fallback, systemType, argument checks - follows)')


def check_value_compare(chk):
    """C11.P/F/C: primary verdict by abstract execution of value_compare over all ordered pairs of 32 sample values (E6l); the ladder read-back below adds
    per-atom detail when it recognises the code, and its 'not recognised' outcomes are only notes when the semantic run decided"""
    from .. import libsim
    vmod = chk.repo.module('value')
    try:
        n_pairs, problems = libsim.run_value_compare(chk.repo, 'C11.P')
        decided = True
    except Unrecognised as exc:
        chk.unrec('C11.P', f'abstract execution of value_compare not possible: {exc.what}', exc.where)
        n_pairs, problems, decided = 0, [], False
    by_kind = {}
    for kind, msg in problems:
        by_kind.setdefault(kind, []).append(msg)
    for kind, msgs in by_kind.items():
        rule = {'host': 'C11.F', 'order': 'C11.P', 'antisymmetry': 'C11.F'}[kind]
        chk.bad(rule, vmod, 'value_compare', f'[{kind}] {msgs[0][:110]}', f'abstract execution of value_compare: {msgs[0]} ({len(msgs)} of {n_pairs} ordered pairs deviate this way)', node=vmod.funcs.get('value_compare'))
    if decided and not problems:
        chk.ok('C11.P', f'value_compare on all {n_pairs} ordered pairs of 32 sample values (null, booleans, numbers incl. 1 / 1.0, strings, datetimes and a date, functions, a regex, nested arrays and objects): '
               f'null first, then by type name, natural order within a type (dates and datetimes compared after normalisation), containers element-wise then by length; never a host exception', count=n_pairs)
        chk.ok('C11.F', f'antisymmetry: value_compare(a, b) = -value_compare(b, a) on all {n_pairs} pairs', count=n_pairs)
        chk.ok('C11.C', 'arrays compare element-wise then by length; objects by sorted (key, value) pairs then by size (part of the runs above)', count=64)
    before_unrec = len(chk.unrecognised)
    before_find = len(chk.findings)
    before_inst = len(chk.instances)
    try:
        _check_value_compare_ladder(chk)
    except Unrecognised as exc:
        chk.unrec(exc.rule or 'C11.P', exc.what, exc.where)
    if decided and not problems:
        # the semantic run decided (all ordered pairs agree with the total value order): what the shape read-back could not recognise, or reads differently,
        # is informational only - a differently spelled but equivalent comparison must not raise an alarm
        for u in chk.unrecognised[before_unrec:]:
            chk.note(f"ladder read-back: {u['rule']} {u['what']}")
        del chk.unrecognised[before_unrec:]
        for f in chk.findings[before_find:]:
            chk.note(f'ladder read-back (not confirmed by the semantic run, ignored): {f.rule} {f.what[:160]}')
        del chk.findings[before_find:]
        chk.instances[before_inst:] = [i for i in chk.instances[before_inst:] if i['verdict'] == 'OK']


def _check_value_compare_ladder(chk):
    vmod = chk.repo.module('value')
    func = vmod.func('value_compare', 'C11.P')
    params = [a.arg for a in func.args.args]
    if len(params) != 2:
        raise Unrecognised('C11.P', 'value_compare does not take two parameters', vmod.rel)
    L, R = params
    body = [s for s in func.body if not (isinstance(s, ast.Expr) and isinstance(s.value, ast.Constant))]
    if not body or not isinstance(body[0], ast.If):
        raise Unrecognised('C11.P', 'value_compare does not start with an if/elif ladder', vmod.rel)
    chain = if_chain(body[0])
    fallback = body[1:]
    if chain[-1][0] is None:
        raise Unrecognised('C11.P', 'value_compare ladder has an else branch (fallback expected after the ladder)', vmod.rel)
    ev_cache = {}
    selected = {}   # branch index -> list of (a, b)
    for a in ATOMS:
        for b in ATOMS:
            ev = AtomEval(chk.repo, vmod, {L: a, R: b})
            sel = None
            try:
                for ix, (test, _stmts) in enumerate(chain):
                    if ev.test(test):
                        sel = ix
                        break
            except Unknown as exc:
                raise Unrecognised('C11.P', f'value_compare branch test not a pure type test: {exc}', vmod.rel)
            selected.setdefault(sel, []).append((a, b))
            ta, tb = BARE_TYPE[a], BARE_TYPE[b]
            if a == 'None' or b == 'None':
                want = 'null'
            elif ta is not None and ta == tb and ta in SAME_TYPE:
                want = 'same:' + ta
            else:
                want = 'fallback'
            ev_cache[(a, b)] = (sel, want)
    # classify branches by what selects them
    branch_kind = {}
    for sel, pairs in selected.items():
        kinds = {ev_cache[p][1] for p in pairs}
        if sel is None:
            bad = [p for p in pairs if ev_cache[p][1] != 'fallback']
            for p in bad[:6]:
                chk.bad('C11.P', vmod, 'value_compare', f'({p[0]}, {p[1]}) -> type-name fallback',
                        f'operands of host types {p[0]} and {p[1]} have the same BareScript type ({BARE_TYPE[p[0]]}) or are null but are '
                        f'compared by type name (compare equal / wrong order regardless of value)')
            continue
        if len(kinds) != 1:
            offenders = sorted(pairs)[:4]
            chk.bad('C11.P', vmod, 'value_compare', norm(chain[sel][0]),
                    f'one comparison branch is selected for operand pairs of different kinds {sorted(kinds)} e.g. {offenders}: '
                    f'values of different BareScript types (e.g. boolean vs number, or a non-null vs null) are compared by a host operator',
                    node=chain[sel][0])
            branch_kind[sel] = None
        else:
            branch_kind[sel] = kinds.pop()
            if branch_kind[sel] == 'fallback':
                chk.bad('C11.P', vmod, 'value_compare', norm(chain[sel][0]),
                        f'a typed comparison branch is selected for operands of different BareScript types, e.g. {sorted(pairs)[:3]}',
                        node=chain[sel][0])
    for (a, b), (sel, want) in sorted(ev_cache.items()):
        if sel is None or branch_kind.get(sel) == want:
            if not (sel is None and want != 'fallback'):
                chk.ok('C11.P', f'value_compare({a}, {b}) -> {"fallback" if sel is None else "branch %d" % sel} [{want}]',
                       trivial=(want == 'fallback'))
    covered = {k for k in branch_kind.values() if k}
    for ty in sorted(SAME_TYPE):
        if 'same:' + ty not in covered:
            chk.bad('C11.P', vmod, 'value_compare', f'no branch for {ty}', f'no same-type branch compares two {ty} values (they fall to the type-name fallback and always compare equal)')

    # ---- C11.F / C11.C per branch
    for sel, (test, stmts) in enumerate(chain):
        kind = branch_kind.get(sel)
        if not kind:
            continue
        defs = local_defs(stmts)
        if kind == 'null':
            # evaluate the returned constant under the atoms that select the branch
            for (a, b) in selected[sel]:
                want = 0 if (a == 'None' and b == 'None') else (-1 if a == 'None' else 1)
                rets = [s for s in stmts if isinstance(s, ast.Return)]
                got = None
                if len(rets) == 1:
                    got = _eval_null_return(chk, vmod, rets[0].value, {L: a, R: b})
                if got == want:
                    chk.ok('C11.F', f'null branch {norm(test)}: ({a}, {b}) -> {got}', trivial=(a not in ('None', 'int') or b not in ('None', 'int')))
                else:
                    chk.bad('C11.F', vmod, 'value_compare', f'{norm(test)}: ({a}, {b}) -> {got}',
                            f'null must order before everything: compare({a}, {b}) should be {want}, the branch returns {got}', node=test)
            continue
        ty = kind.split(':', 1)[1]
        if ty in ('string', 'boolean', 'number', 'datetime'):
            _check_scalar_branch(chk, vmod, ty, test, stmts, defs, (L, R))
        elif ty == 'array':
            _check_array_branch(chk, vmod, test, stmts, defs, (L, R), func.name)
        elif ty == 'object':
            _check_object_branch(chk, vmod, test, stmts, defs, (L, R), func.name)
    # fallback: three-way on value_type names
    _check_fallback(chk, vmod, fallback, (L, R))


def _eval_null_return(chk, vmod, expr, env):
    if isinstance(expr, ast.Constant):
        return expr.value
    if isinstance(expr, ast.UnaryOp) and isinstance(expr.op, ast.USub) and isinstance(expr.operand, ast.Constant):
        return -expr.operand.value
    if isinstance(expr, ast.IfExp):
        try:
            t = AtomEval(chk.repo, vmod, env).test(expr.test)
        except Unknown:
            return None
        return _eval_null_return(chk, vmod, expr.body if t else expr.orelse, env)
    return None


def _check_scalar_branch(chk, vmod, ty, test, stmts, defs, params):
    rets = [s for s in stmts if isinstance(s, ast.Return)]
    others = [s for s in stmts if not isinstance(s, (ast.Return, ast.Assign))]
    for s in others:
        if isinstance(s, ast.If):
            used = {n.id for n in ast.walk(s.test) if isinstance(n, ast.Name)}
            assigned = {t.id for a in ast.walk(s) if isinstance(a, ast.Assign) for t in a.targets if isinstance(t, ast.Name)}
            if set(params) <= used and assigned:
                chk.bad('C11.F', vmod, 'value_compare', norm(s.test),
                        f'in the {ty} branch the representation compared for one operand ({", ".join(sorted(assigned))}) is chosen by a test on BOTH operands: '
                        f'compare(a, b) then depends on more than the values of a and b taken one at a time, which breaks transitivity '
                        f'(a == b and b == c no longer imply a == c)', node=s)
                return
    if len(rets) != 1 or others:
        raise Unrecognised('C11.F', f'{ty} branch of value_compare is not [assignments] + one return: {norm(test)}', vmod.rel)
    res = is_three_way(rets[0].value)
    where = f'value_compare {ty} branch: {norm(rets[0].value)}'
    if res is None:
        raise Unrecognised('C11.F', f'{ty} branch does not return a recognisable three-way expression: {norm(rets[0].value)}', vmod.rel)
    if res is False:
        chk.bad('C11.F', vmod, 'value_compare', norm(rets[0].value),
                f'the {ty} branch is not a three-way comparison: over the orderings (a<b, a==b, a>b) of its operands it does not yield (-1, 0, 1), '
                f'so compare(a, b) = -compare(b, a) fails', node=rets[0])
        return
    a, b = res
    da = derivation(ast.parse(a, mode='eval').body, defs, params)
    db = derivation(ast.parse(b, mode='eval').body, defs, params)
    want_fn = 'value_normalize_datetime' if ty == 'datetime' else ''
    if da is None or db is None:
        raise Unrecognised('C11.F', f'{ty} branch operands {a}, {b} are not derived from the parameters by a call chain', vmod.rel)
    if da[0] != db[0] or (da[1], db[1]) != tuple(params):
        chk.bad('C11.F', vmod, 'value_compare', norm(rets[0].value),
                f'the {ty} branch compares {da[0] or "id"}({da[1]}) with {db[0] or "id"}({db[1]}): the two sides are not the same function of '
                f'(left, right), so swapping the arguments does not negate the result', node=rets[0])
    elif da[0] != want_fn:
        chk.bad('C11.F', vmod, 'value_compare', norm(rets[0].value),
                f'the {ty} branch compares through {da[0] or "the raw values"} instead of {want_fn or "the values themselves"} '
                f'(date / datetime / zone-aware operands must be normalised to one representation before comparing; scalars compared as they are)',
                node=rets[0])
    else:
        chk.ok('C11.F', where)


def _host_compares_on(node, names):
    """host comparison operators applied directly to one of `names` (not through len()/value_compare results)"""
    out = []
    for n in ast.walk(node):
        if isinstance(n, ast.Compare):
            for side in [n.left] + list(n.comparators):
                if isinstance(side, ast.Name) and side.id in names and not all(isinstance(o, (ast.Is, ast.IsNot, ast.In, ast.NotIn)) for o in n.ops):
                    out.append(n)
                    break
    return out


def _rec_calls(node, fname):
    return [n for n in ast.walk(node) if isinstance(n, ast.Call) and call_name(n) == fname]


def _check_array_branch(chk, vmod, test, stmts, defs, params, fname):
    L, R = params
    for c in _host_compares_on(ast.Module(body=stmts, type_ignores=[]), {L, R}):
        chk.bad('C11.C', vmod, 'value_compare', norm(c),
                'a host comparison operator is applied to array operands: host == / < on lists compares elements with host semantics '
                '(1 == True, date vs datetime raise/unequal) instead of the value comparison', node=c)
    loops = [s for s in stmts if isinstance(s, ast.For)]
    rets = [s for s in stmts if isinstance(s, ast.Return)]
    if len(loops) != 1 or len(rets) != 1 or stmts[-1] is not rets[0]:
        raise Unrecognised('C11.C', 'array branch of value_compare is not [for-loop, return]', vmod.rel)
    loop = loops[0]
    it = norm(loop.iter)
    if it not in (f'range(min(len({L}), len({R})))', f'range(min(len({R}), len({L})))'):
        chk.bad('C11.C', vmod, 'value_compare', it, f'the element loop of the array branch does not range over min(len({L}), len({R})) positions', node=loop)
    ix = loop.target.id if isinstance(loop.target, ast.Name) else None
    calls = _rec_calls(loop, fname)
    if len(calls) != 1:
        raise Unrecognised('C11.C', 'array branch loop does not contain exactly one recursive comparison', vmod.rel)
    args = [norm(a) for a in calls[0].args]
    if args != [f'{L}[{ix}]', f'{R}[{ix}]']:
        chk.bad('C11.C', vmod, 'value_compare', norm(calls[0]),
                f'elements are compared as {norm(calls[0])}; the element-wise order requires {fname}({L}[{ix}], {R}[{ix}])', node=calls[0])
    else:
        chk.ok('C11.C', f'array branch: {norm(calls[0])} over {it}')
    _check_first_nonzero(chk, vmod, loop, calls[0], 'array')
    res = is_three_way(rets[0].value)
    if res in (None, False) or res != (f'len({L})', f'len({R})'):
        chk.bad('C11.C', vmod, 'value_compare', norm(rets[0].value),
                f'after equal common prefixes arrays must be ordered by a three-way comparison of (len({L}), len({R}))', node=rets[0])
    else:
        chk.ok('C11.C', f'array branch tail: three-way on lengths {res}')


def _check_first_nonzero(chk, vmod, loop, call, what):
    """the result of `call` is returned from inside the loop iff it is non-zero"""
    parent = getattr(call, '_parent', None)
    var = None
    if isinstance(parent, ast.Assign) and isinstance(parent.targets[0], ast.Name):
        var = parent.targets[0].id
    ok = False
    for n in ast.walk(loop):
        if isinstance(n, ast.If) and var and isinstance(n.test, ast.Compare) and len(n.test.ops) == 1 \
                and isinstance(n.test.ops[0], ast.NotEq) and norm(n.test.left) == var and norm(n.test.comparators[0]) == '0':
            if any(isinstance(s, ast.Return) and norm(s.value) == var for s in n.body):
                ok = True
        if isinstance(n, ast.If) and var and isinstance(n.test, ast.Name) and n.test.id == var:
            if any(isinstance(s, ast.Return) and norm(s.value) == var for s in n.body):
                ok = True
    if ok:
        chk.ok('C11.C', f'{what} branch: first non-zero result of {norm(call)} is returned')
    else:
        chk.bad('C11.C', vmod, 'value_compare', f'{what}: result of {norm(call)}',
                f'the {what} branch does not return the first non-zero element comparison (if r != 0: return r)', node=call)


def _check_object_branch(chk, vmod, test, stmts, defs, params, fname):
    L, R = params
    for c in _host_compares_on(ast.Module(body=stmts, type_ignores=[]), {L, R}):
        chk.bad('C11.C', vmod, 'value_compare', norm(c),
                'a host comparison operator is applied to object operands: host == / < on dicts compares values with host semantics '
                'instead of the value comparison', node=c)
    loops = [s for s in stmts if isinstance(s, ast.For)]
    rets = [s for s in stmts if isinstance(s, ast.Return)]
    if len(loops) != 1 or len(rets) != 1 or stmts[-1] is not rets[0]:
        raise Unrecognised('C11.C', 'object branch of value_compare is not [assignments, for-loop, return]', vmod.rel)
    # the two item lists
    lists = {}
    for name, val in defs.items():
        if val is not None and isinstance(val, ast.Call) and call_name(val) == 'sorted' and len(val.args) == 1 and not val.keywords:
            inner = norm(val.args[0])
            if inner == f'{L}.items()':
                lists['L'] = name
            elif inner == f'{R}.items()':
                lists['R'] = name
    if set(lists) != {'L', 'R'}:
        chk.bad('C11.C', vmod, 'value_compare', norm(test),
                'the object branch does not compare sorted(left.items()) with sorted(right.items()): key order of insertion would leak into the comparison',
                node=test)
        return
    lk, rk = lists['L'], lists['R']
    loop = loops[0]
    ix = loop.target.id if isinstance(loop.target, ast.Name) else None
    if norm(loop.iter) not in (f'range(min(len({lk}), len({rk})))', f'range(min(len({rk}), len({lk})))'):
        chk.bad('C11.C', vmod, 'value_compare', norm(loop.iter), 'the object loop does not range over min(len(items)) positions', node=loop)
    calls = _rec_calls(loop, fname)
    texts = [[norm(a) for a in c.args] for c in calls]
    want = [[f'{lk}[{ix}][0]', f'{rk}[{ix}][0]'], [f'{lk}[{ix}][1]', f'{rk}[{ix}][1]']]
    if texts != want:
        chk.bad('C11.C', vmod, 'value_compare', '; '.join(norm(c) for c in calls),
                f'object items must be compared key first, then value, each as {fname}(left_item, right_item); found {texts}', node=loop)
    else:
        chk.ok('C11.C', f'object branch: keys then values of sorted items, ({lk}, {rk}) order')
        for c in calls:
            _check_first_nonzero(chk, vmod, loop, c, 'object')
    res = is_three_way(rets[0].value)
    if res in (None, False) or res != (f'len({lk})', f'len({rk})'):
        chk.bad('C11.C', vmod, 'value_compare', norm(rets[0].value),
                'after equal common items objects must be ordered by a three-way comparison of the item counts (left, right)', node=rets[0])
    else:
        chk.ok('C11.C', f'object branch tail: three-way on item counts {res}')


def _check_fallback(chk, vmod, stmts, params):
    defs = local_defs(stmts)
    rets = [s for s in stmts if isinstance(s, ast.Return)]
    if len(rets) != 1:
        raise Unrecognised('C11.F', 'type-name fallback of value_compare is not [assignments] + one return', vmod.rel)
    res = is_three_way(rets[0].value)
    if res is None:
        raise Unrecognised('C11.F', f'fallback does not return a three-way expression: {norm(rets[0].value)}', vmod.rel)
    if res is False:
        chk.bad('C11.F', vmod, 'value_compare', norm(rets[0].value), 'the type-name fallback is not a three-way comparison yielding (-1, 0, 1)', node=rets[0])
        return
    da = derivation(ast.parse(res[0], mode='eval').body, defs, params)
    db = derivation(ast.parse(res[1], mode='eval').body, defs, params)
    if da is None or db is None or da[0] != db[0] or (da[1], db[1]) != tuple(params) or not da[0].startswith('value_type'):
        chk.bad('C11.F', vmod, 'value_compare', norm(rets[0].value),
                f'values of different types must be ordered by their type names value_type(left) vs value_type(right); found {da} vs {db}', node=rets[0])
    else:
        chk.ok('C11.F', f'fallback: three-way on {da[0]}(left/right)')


# --------------------------------------------------------------------------- C11.S

REL = {'==': ast.Eq, '!=': ast.NotEq, '<=': ast.LtE, '<': ast.Lt, '>=': ast.GtE, '>': ast.Gt}


def binary_branches(chk, rule):
    """(mod, func, {op: [stmts]}, left_var, right_var, op_var) for the binary section of evaluate_expression."""
    mod = chk.repo.module('runtime')
    func = mod.func('evaluate_expression', rule)
    branches = {}
    opvar = None
    for node in walk_no_nested(func):
        if isinstance(node, ast.If):
            chain = if_chain(node)
            consts = []
            var = None
            for test, body in chain:
                if test is None:
                    consts.append(None)
                    continue
                c = None
                if isinstance(test, ast.Compare) and len(test.ops) == 1 and isinstance(test.ops[0], ast.Eq) and isinstance(test.left, ast.Name) \
                        and const_str(test.comparators[0]) is not None:
                    c = const_str(test.comparators[0])
                    var = var or test.left.id
                    if test.left.id != var:
                        c = False
                consts.append(c)
            if var and sum(1 for c in consts if c in REL or c in ('+', '-', '*', '/', '%', '**', '&&', '||')) >= 2 and all(c is not False for c in consts):
                parent = getattr(node, '_parent', None)
                if isinstance(parent, ast.If) and node in parent.orelse:
                    continue   # inner part of a chain already handled
                opvar = var
                for c, (test, body) in zip(consts, chain):
                    branches.setdefault(c, []).append(body)
    if not branches:
        raise Unrecognised(rule, 'binary operator dispatch (if bin_op == ... chain) not found in evaluate_expression', mod.rel)
    return mod, func, branches, opvar


def operand_vars(func, rule, mod):
    """names of the locals holding the evaluated left/right operands of a binary node"""
    left = right = None
    for node in walk_no_nested(func):
        if isinstance(node, ast.Assign) and len(node.targets) == 1 and isinstance(node.targets[0], ast.Name) and isinstance(node.value, ast.Call) \
                and call_name(node.value) == func.name and node.value.args:
            arg = norm(node.value.args[0])
            if arg.endswith("['binary']['left']"):
                left = node.targets[0].id
            elif arg.endswith("['binary']['right']"):
                right = node.targets[0].id
    if not left or not right:
        raise Unrecognised(rule, 'locals holding the evaluated left/right operands not found', mod.rel)
    return left, right


def check_sign_tests(chk):
    from .. import evalsim
    try:
        _check_sign_tests_concrete(chk)
    except Unrecognised as exc:
        chk.unrec('C11.S', f'relational operators on concrete operands: {exc.what}', exc.where)
    evalsim.report(chk, {'relational': 'C11.S'}, {'relational': '6 relational operators x value_compare result in {-1, 0, 1} x 3 operand type pairs: the result is the sign test of ONE call of '
                                                               'value_compare on (left, right) (or the mirrored test on (right, left))'})


def _check_sign_tests_concrete(chk):
    from .. import evalsim
    n, problems = evalsim.relational_concrete(chk.repo, 'C11.S')
    mod = chk.repo.module('runtime')
    hard = [p for p in problems if p[0] == 'relational']
    soft = [p for p in problems if p[0] == 'undecided']
    if hard:
        chk.bad('C11.S', mod, 'evaluate_expression', hard[0][1][:110], f'abstract evaluation on concrete operand pairs: {hard[0][1]} ({len(hard)} of {n} evaluations deviate)',
                node=mod.funcs.get('evaluate_expression'))
    elif soft:
        chk.unrec('C11.S', f'relational operators on concrete operands: {soft[0][1]} ({len(soft)} of {n} undecided)', mod.rel)
    else:
        chk.ok('C11.S', f'{n} evaluations: 6 relational operators on every ordered pair of {round((n / 6) ** 0.5)} concrete sample values (null, booleans, numbers, strings, nested arrays '
               f'and objects incl. [1] vs [true]) give the sign test of the total value order', count=n)


# --------------------------------------------------------------------------- C11.U

def check_consumers(chk):
    libfuncs = {lf.name: lf for lf in library_functions(chk.repo, 'C11.U')}
    lib = chk.repo.module('library')

    def calls_in(func, name):
        return [n for n in walk_no_nested(func) if isinstance(n, ast.Call) and call_name(n) == name]

    # systemCompare
    lf = libfuncs.get('systemCompare')
    if lf is None:
        raise Unrecognised('C11.U', 'systemCompare not registered', lib.rel)
    rets = [n for n in walk_no_nested(lf.func) if isinstance(n, ast.Return)]
    good = len(rets) == 1 and isinstance(rets[0].value, ast.Call) and call_name(rets[0].value) == 'value_compare' and lf.targets \
        and [norm(a) for a in rets[0].value.args] == lf.targets[:2]
    if good:
        chk.ok('C11.U', f'systemCompare returns value_compare({", ".join(lf.targets[:2])})')
    else:
        chk.bad('C11.U', lib, lf.pyname, norm(rets[0].value) if rets else 'no return', 'systemCompare must return value_compare(left, right) with the arguments in order', node=rets[0] if rets else None)

    # arrayIndexOf / arrayLastIndexOf: matching by the value comparison, decided by abstract execution (E6l, the index-function runs shared with C15.B)
    from .. import libsim
    cache = getattr(chk, '_index_sim', None)
    if cache is None:
        try:
            cache = chk._index_sim = (libfuncs,) + libsim.run_index_functions(chk.repo, libfuncs, 'C11.U')
        except Unrecognised as exc:
            chk.unrec('C11.U', f'arrayIndexOf / arrayLastIndexOf: abstract execution not possible: {exc.what}', exc.where)
            cache = None
    if cache is not None:
        _lfs, _n, per_fn, problems = cache
        for name in ('arrayIndexOf', 'arrayLastIndexOf'):
            mine = [p for p in problems if p[0] == name and p[1] in ('host', 'result')]
            lf = libfuncs.get(name)
            if mine:
                chk.bad('C11.U', lib, lf.pyname if lf else name, f'{name}: {mine[0][2][:100]}', f'abstract execution of {name}: {mine[0][2]} ({len(mine)} of {per_fn.get(name, 0)} runs deviate)', node=lf.func if lf else None)
            else:
                chk.ok('C11.U', f'{name}: {per_fn.get(name, 0)} abstract calls - elements are matched by value_compare(element, value) == 0 (opaque values: a host == would be reported), '
                       f'first / last match from the start index', count=per_fn.get(name, 1))

    # mathMax / mathMin
    for name, cls, sym in (('mathMax', ast.Gt, '>'), ('mathMin', ast.Lt, '<')):
        lf = libfuncs.get(name)
        if lf is None:
            raise Unrecognised('C11.U', f'{name} not registered', lib.rel)
        _check_minmax(chk, lib, lf, name, cls, sym)

    # arraySort and dataSort: stable sort under the value comparison (or the script comparison function), decided by abstract execution (E6l)
    dmod = chk.repo.module('data')
    try:
        counts, sproblems = libsim.run_sort_functions(chk.repo, libfuncs, 'C11.U')
        decided = True
    except Unrecognised as exc:
        chk.unrec('C11.U', f'arraySort / sort_data: abstract execution not possible: {exc.what}', exc.where)
        decided = False
    if decided:
        for fname, mod_, pyname in (('arraySort', lib, libfuncs['arraySort'].pyname if 'arraySort' in libfuncs else 'arraySort'), ('sort_data', dmod, 'sort_data')):
            mine = [p for p in sproblems if p[0] == fname]
            if mine:
                kinds = {}
                for p_ in mine:
                    kinds.setdefault(p_[1], []).append(p_[2])
                for kind, msgs in kinds.items():
                    chk.bad('C11.U', mod_, pyname, f'{fname} [{kind}]: {msgs[0][:100]}', f'abstract execution: {msgs[0]} ({len(msgs)} of {counts.get(fname, 0)} runs deviate this way). '
                            'Sorting script values must use the value comparison (or the script comparison function, whose result may be any number) and be stable', node=mod_.funcs.get(pyname))
            else:
                chk.ok('C11.U', f'{fname}: {counts.get(fname, 0)} abstract calls - the result is the stable sort under value_compare'
                       + (' / under a script comparison function returning int or float' if fname == 'arraySort' else ' per key, reversed for descending keys') + ', in place; no host ordering', count=counts.get(fname, 1))
    else:
        lf = libfuncs.get('arraySort')
        if lf is None:
            raise Unrecognised('C11.U', 'arraySort not registered', lib.rel)
        _check_sorts(chk, lib, lf.pyname, lf.func, compare_names={'value_compare'}, allow_param_fn=True)
        sd = dmod.func('sort_data', 'C11.U')
        _check_sorts(chk, dmod, 'sort_data', sd, compare_names={'_sort_data_fn'}, allow_param_fn=False)
    def direct_comparator():
        fn = dmod.func('_sort_data_fn', 'C11.U')
        # abstract execution (E6l) of the row comparator over opaque values a < b < c (null lowest): sign of the first differing key, flipped for descending keys
        from .. import libsim
        it = libsim.LibInterp(chk.repo, dmod, 'C11.U')
        rank, cases = libsim.sort_fn_scenarios()
        it.rank = rank
        n_cases = 0
        wrong = None
        for spec, r1, r2, want in cases:
            n_cases += 1
            try:
                got = it.run(fn, [libsim._abs(spec), libsim._abs(r1), libsim._abs(r2)])
            except libsim.HostOrdering as ho:
                chk.bad('C11.U', dmod, '_sort_data_fn', 'host comparison of row values',
                        'the data sort comparator compares row values with a host operator (==, <, min ...) instead of value_compare: Python equality identifies true with 1 and false with 0 '
                        '(and [true] with [1]), so such rows tie although the value comparison orders them; the sorted output is then not ordered under the comparison every other consumer uses',
                        node=ho.node if ho.node is not None else fn)
                wrong = 'reported'
                break
            sgn = None
            if got[0] == 'value' and isinstance(got[1], (int, float)) and not isinstance(got[1], bool):
                sgn = (got[1] > 0) - (got[1] < 0)
            if sgn != want and wrong is None:
                wrong = (spec, r1, r2, got, want)
        if wrong is None:
            chk.ok('C11.U', f'_sort_data_fn: {n_cases} abstract calls (0-2 keys, ascending / descending, missing and null fields): sign of the first key on which the rows differ under value_compare, '
                   f'reversed for descending keys, 0 when all keys tie', count=n_cases)
        elif wrong != 'reported':
            spec, r1, r2, got, want = wrong
            chk.bad('C11.U', dmod, '_sort_data_fn', f'sorts={spec!r}: {got[1] if got[0] == "value" else got[:2]!r} instead of sign {want}',
                    f'abstract execution: _sort_data_fn({spec!r}, {libsim.show_arg(list(r1.items()))}, {libsim.show_arg(list(r2.items()))}) gives {got[1] if got[0] == "value" else got[:2]!r}; the rows differ first on a key whose '
                    f'value comparison (reversed for a descending key) has sign {want}', node=fn)

    # the sort evaluation above runs sort_data as a whole; the direct calls of its comparator helper (under its present name and signature) are a read-back of it
    sort_data_ok = (not [p for p in sproblems if p[0] == 'sort_data']) if decided else None
    chk.readback(sort_data_ok)('C11.U', direct_comparator)


def _row_of(node, fn):
    """1 if node derives from the 2nd parameter (row1), 2 if from the 3rd (row2) of _sort_data_fn(sorts, row1, row2)"""
    params = [a.arg for a in fn.args.args]
    if len(params) < 3:
        return None
    names = {n.id for n in ast.walk(node) if isinstance(n, ast.Name)}
    defs = {}
    for s in ast.walk(fn):
        if isinstance(s, ast.Assign) and len(s.targets) == 1 and isinstance(s.targets[0], ast.Name):
            defs.setdefault(s.targets[0].id, []).append(s.value)
    for _ in range(3):
        more = set()
        for nm in names:
            for v in defs.get(nm, []):
                more |= {n.id for n in ast.walk(v) if isinstance(n, ast.Name)}
        names |= more
    if params[-2] in names and params[-1] not in names:
        return 1
    if params[-1] in names and params[-2] not in names:
        return 2
    return None


def _check_minmax(chk, lib, lf, name, cls, sym):
    """abstract execution (E6l): the function applied to every argument list of length <= 3 over {null, a < b < c} returns the greatest / least
    argument under the value order (null first), using only value_compare"""
    from .. import libsim
    it = libsim.LibInterp(chk.repo, lib, 'C11.U')
    rank, lists = libsim.minmax_scenarios()
    it.rank = rank
    n = 0
    bad = None
    for values in lists:
        if len({id(v) if v is not None else None for v in values}) != len(values) and any(values.count(v) > 1 for v in values if v is not None):
            continue        # ties between equal opaque values: which one is returned is not observable
        n += 1
        try:
            got = it.run(lf.func, [libsim.AList(list(values)), libsim.ADict({})])
        except libsim.HostOrdering as ho:
            chk.bad('C11.U', lib, lf.pyname, norm(ho.node)[:100] if ho.node is not None else name,
                    f'{name} orders script values with a host operator / builtin ({norm(ho.node)[:60] if ho.node is not None else "?"}) instead of the value comparison: '
                    f'null, booleans among numbers and mixed types are ordered differently or raise', node=ho.node)
            return
        rk = lambda v: -1 if v is None else rank[v.args[0]]
        want = None
        if values:
            want = values[0]
            for v in values[1:]:
                if (rk(v) > rk(want)) if name == 'mathMax' else (rk(v) < rk(want)):
                    want = v
        if got[0] != 'value' or got[1] != want:
            if bad is None:
                bad = (values, got, want)
    # concrete arguments of every plain type, one and two at a time (the comparison itself evaluated, no oracle): a single argument is the least and the greatest argument
    if bad is None:
        it2 = libsim.LibInterp(chk.repo, lib, 'C11.U')
        it2.oracles.pop('value_compare', None)
        mk = [lambda: libsim.AList([3.0, 1.0, 2.0]), lambda: libsim.AList([]), lambda: libsim.AList([libsim.AList([1.0]), libsim.AList([0.0, 5.0])]), lambda: 'abc', lambda: '',
              lambda: libsim.ADict({'a': 1.0}), lambda: libsim.ADict({}), lambda: None, lambda: 5.0, lambda: 0, lambda: True, lambda: False, lambda: libsim.AList([None])]
        for m in mk:
            v = m()
            n += 1
            got1 = it2.run(lf.func, [libsim.AList([v]), libsim.ADict({})])
            same = got1[0] == 'value' and (got1[1] is v if isinstance(v, (libsim.AList, libsim.ADict)) else (type(got1[1]) is type(v) and got1[1] == v))
            if not same:
                from ..absint import reify
                chk.bad('C11.U', lib, lf.pyname, f'{name}(one argument)', f'{name} applied to the single argument {reify(v)!r} gives {reify(got1[1]) if got1[0] == "value" else got1[:2]!r}; '
                        f'the {"greatest" if name == "mathMax" else "least"} of one argument is that argument')
                return
        pairs = [(lambda: libsim.AList([1.0, 2.0]), lambda: libsim.AList([1.0, 3.0]), 1), (lambda: libsim.AList([2.0]), lambda: libsim.AList([1.0, 5.0]), 0), (lambda: 'a', lambda: 'b', 1),
                 (lambda: libsim.AList([]), lambda: libsim.AList([None]), 1), (lambda: False, lambda: True, 1), (lambda: 2, lambda: 10.5, 1)]
        for ma, mb, hi in pairs:
            for swap in (False, True):
                a, b = ma(), mb()
                args = [b, a] if swap else [a, b]
                want2 = (b if hi else a) if name == 'mathMax' else (a if hi else b)
                n += 1
                got2 = it2.run(lf.func, [libsim.AList(args), libsim.ADict({})])
                ok2 = got2[0] == 'value' and (got2[1] is want2 if isinstance(want2, (libsim.AList, libsim.ADict)) else (type(got2[1]) is type(want2) and got2[1] == want2))
                if not ok2:
                    from ..absint import reify
                    chk.bad('C11.U', lib, lf.pyname, f'{name}(two arguments)', f'{name}({reify(args[0])!r}, {reify(args[1])!r}) gives {reify(got2[1]) if got2[0] == "value" else got2[:2]!r}; '
                            f'the {"greatest" if name == "mathMax" else "least"} argument under the value order is {reify(want2)!r}')
                    return
    if bad:
        values, got, want = bad
        show = lambda v: 'null' if v is None else v.args[0] if isinstance(v, Sym) else repr(v)
        chk.bad('C11.U', lib, lf.pyname, f'{name}({", ".join(show(v) for v in values)})',
                f'abstract execution with null < a < b < c: {name}({", ".join(show(v) for v in values)}) gives {show(got[1]) if got[0] == "value" else got[:2]}; '
                f'the {"greatest" if name == "mathMax" else "least"} argument under the value order is {show(want)} (null orders before everything and is a legitimate result)')
    else:
        chk.ok('C11.U', f'{name}: {n} argument lists of length <= 3 over {{null, a < b < c}}: the result is the {"greatest" if name == "mathMax" else "least"} argument under '
               f'value_compare (null included), no host ordering (E6l)', count=n)


def _check_sorts(chk, mod, fname, func, compare_names, allow_param_fn):
    """every .sort()/sorted() in the function uses key=cmp_to_key(<value_compare | the script comparator>)"""
    n_sorts = 0
    for n in walk_no_nested(func):
        if not isinstance(n, ast.Call):
            continue
        cn = call_name(n) or ''
        is_sort = (isinstance(n.func, ast.Attribute) and n.func.attr == 'sort') or cn == 'sorted'
        if cn in ('min', 'max'):
            chk.bad('C11.U', mod, fname, norm(n), f'host {cn}() on script values instead of the value comparison', node=n)
        if not is_sort:
            continue
        n_sorts += 1
        key = next((kw.value for kw in n.keywords if kw.arg == 'key'), None)
        good = False
        if isinstance(key, ast.Call) and (call_name(key) or '').endswith('cmp_to_key') and key.args:
            cmp = key.args[0]
            if isinstance(cmp, ast.Name) and cmp.id in compare_names:
                good = True
            elif isinstance(cmp, ast.Call) and (call_name(cmp) or '').endswith('partial') and cmp.args and isinstance(cmp.args[0], ast.Name) \
                    and cmp.args[0].id in compare_names:
                good = True
            elif allow_param_fn and isinstance(cmp, ast.Lambda):
                good = True
        if any(kw.arg == 'reverse' for kw in n.keywords):
            good = False
        if good:
            chk.ok('C11.U', f'{mod.name}.{fname}: {norm(n)}')
        else:
            chk.bad('C11.U', mod, fname, norm(n),
                    'sorting script values without key=cmp_to_key(value comparison): the host ordering differs from the value order '
                    '(booleans among numbers, null, mixed types raise) and is not the comparison every other consumer uses', node=n)
    if n_sorts == 0:
        raise Unrecognised('C11.U', f'{mod.name}.{fname}: no sort call found', mod.rel)
    # the None-comparator branch of arraySort must use value_compare itself
    if allow_param_fn:
        keys = [norm(kw.value) for n in walk_no_nested(func) if isinstance(n, ast.Call) for kw in n.keywords if kw.arg == 'key']
        if not any('value_compare' in k for k in keys):
            chk.bad('C11.U', mod, fname, '; '.join(keys), 'the default ordering of arraySort is not the value comparison')


def run(chk):
    chk.rule('C11.P', 'type partition agreement of value_type / value_compare over 13 host type atoms (169 pairs)', floor=150)
    chk.rule('C11.F', 'canonical three-way form with symmetric operand derivation (antisymmetry by construction)', floor=5)
    chk.rule('C11.C', 'containers: element-wise recursive comparison in (left, right) order, first non-zero, then lengths', floor=5)
    chk.rule('C11.S', 'relational operators are the sign tests of value_compare(left, right)', floor=6)
    chk.rule('C11.U', 'consumers use value_compare with the confirmed argument order / polarity; no host ordering', floor=8)
    chk.assumptions += ['host orders on str, bool, real numbers (no NaN) and naive datetimes are total orders',
                        'values are acyclic containers']
    chk.guard('C11.P', check_value_type, chk)
    chk.guard('C11.P', check_value_compare, chk)
    chk.guard('C11.S', check_sign_tests, chk)
    chk.guard('C11.U', check_consumers, chk)
