"""C17 - includes resolve relative to the including file and run in global scope."""
import ast

from ..core import Unrecognised, norm, call_name, walk_no_nested, const_str, if_chain
from ..rt import statement_dispatch
from ..lowering import ParserModel, Shape
from ..absint import reify, Sym

EXPLANATION = (
    'Dataflow on the include branch of the statement loop. C17.R: for each include the location is resolved once - '
    'system include with a system prefix -> url_file_relative(prefix, url); else a configured urlFn -> urlFn(url); else '
    'unchanged - and the SAME variable (the resolved location) is what fetchFn receives, what the failure messages name, '
    'and what the nested run\'s urlFn is re-based on (partial(url_file_relative, U)): level n+1 resolves against the '
    'resolved location of level n. C17.I: the re-based urlFn is stored only into the options copy handed to the nested '
    'run; no store to the includer\'s options[urlFn] exists package-wide. C17.O: inside the loop over includes: resolve '
    '-> fetch -> parse -> (lint when debugging) -> execute, each once per element, in list order, the nested execution a '
    'plain call whose result is discarded. C17.G: the nested invocation gets locals None. C17.F: fetchFn raising or '
    'returning None -> BareScriptRuntimeError naming U; the handler that prefixes parser errors with the location '
    'encloses ONLY the parse of this include\'s text (so a deeper include\'s error keeps its own location). C17.P (E6): '
    'the parser merges adjacent includes in order, marks system iff the delimiter is <, un-escapes quoted URLs. C17.U: '
    'url_file_relative\'s case table in order: URL unchanged; absolute path unchanged; URL base -> base up to its last / '
    '+ the relative reference UNMODIFIED; otherwise dirname(base) joined with it. C17.C: the CLI passes the system '
    'prefix and a fetchFn that serves exactly that prefix from the package include directory. Behaviour of '
    'os.path/pathlib on exotic paths is the host\'s.')
ENUMERATION = 'uses of the resolved-location variable, stores of urlFn, ordered steps of the include loop, handler scopes, url_file_relative branches, E6 include scenarios, CLI options'


def include_scenarios():
    """(rule, description, model, options, fetch behaviour, scripts, warnings, limit)"""
    HF, HU, HL = Sym('hostfn', 'fetch'), Sym('hostfn', 'urlfn'), Sym('hostfn', 'log')
    two = [{'include': {'includes': [{'url': 'a.bare'}, {'url': 'b.bare', 'system': True}]}}, {'expr': {'expr': Sym('e', 'after')}}]
    one = [{'include': {'includes': [{'url': 'a.bare'}]}}]
    sys1 = [{'include': {'includes': [{'url': 'lib.bare', 'system': True}]}}]
    nested = {"'a.bare'": {'statements': [{'expr': {'expr': Sym('e', 'a#0')}}, {'include': {'includes': [{'url': 'sub/c.bare'}]}}, {'expr': {'expr': Sym('e', 'a#2')}}]}}
    nested_r = {"resolved('a.bare')": nested["'a.bare'"]}
    deep = dict(nested)
    deep["rel('a.bare', 'sub/c.bare')"] = {'statements': [{'include': {'includes': [{'url': 'd.bare'}, {'url': 'e.bare', 'system': True}]}}]}
    out = [
        ('C17.R', 'plain + system include with systemPrefix, urlFn and fetchFn', two, {'systemPrefix': 'SP', 'urlFn': HU, 'fetchFn': HF}, {}, {}, {}, 50),
        ('C17.R', 'system include WITHOUT systemPrefix falls back to urlFn', two, {'urlFn': HU, 'fetchFn': HF}, {}, {}, {}, 50),
        ('C17.R', 'system include with systemPrefix None falls back to urlFn', two, {'systemPrefix': None, 'urlFn': HU, 'fetchFn': HF}, {}, {}, {}, 50),
        ('C17.R', 'no urlFn and no systemPrefix: the location is used unchanged', two, {'fetchFn': HF}, {}, {}, {}, 50),
        ('C17.R', 'systemPrefix only: plain include unchanged, system include relative to the prefix', two, {'systemPrefix': 'SP', 'fetchFn': HF}, {}, {}, {}, 50),
        ('C17.O', 'an include inside an included script resolves against the resolved location of its includer (no top-level urlFn)', one, {'fetchFn': HF}, {}, nested, {}, 50),
        ('C17.O', 'an include inside an included script resolves against the resolved location of its includer (host urlFn at top level)', one, {'urlFn': HU, 'fetchFn': HF}, {}, nested_r, {}, 50),
        ('C17.O', 'three levels, system include below the top level', one, {'systemPrefix': 'SP', 'fetchFn': HF}, {}, deep, {}, 50),
        ('C17.F', 'no fetchFn configured', one, {}, {}, {}, {}, 50),
        ('C17.F', 'fetchFn raises', one, {'fetchFn': HF}, {"'a.bare'": 'raise'}, {}, {}, 50),
        ('C17.F', 'fetchFn returns null', one, {'fetchFn': HF, 'urlFn': HU}, {"resolved('a.bare')": 'none'}, {}, {}, 50),
        ('C17.F', 'fetch of a system include fails', sys1, {'fetchFn': HF, 'systemPrefix': 'SP'}, {"rel('SP', 'lib.bare')": 'raise'}, {}, {}, 50),
        ('C17.F', 'syntax error in the included text', one, {'fetchFn': HF, 'urlFn': HU}, {}, {"resolved('a.bare')": 'syntax-error'}, {}, 50),
        ('C17.F', 'syntax error in a text included by an included script names the broken file only', one, {'fetchFn': HF}, {}, dict(nested, **{"rel('a.bare', 'sub/c.bare')": 'syntax-error'}), {}, 50),
        ('C17.F', 'fetch failure two levels down names the deepest location', one, {'fetchFn': HF}, {"rel('a.bare', 'sub/c.bare')": 'none'}, nested, {}, 50),
        ('C17.O', 'debug + logFn: the included script is linted, warnings are logged (header + one line each)', two, {'fetchFn': HF, 'logFn': HL, 'debug': True}, {}, {}, {"'a.bare'": ['w1', 'w2']}, 50),
        ('C17.O', 'debug without logFn / logFn without debug: no lint', two, {'fetchFn': HF, 'debug': True}, {}, {}, {"'a.bare'": ['w1']}, 50),
        ('C17.O', 'logFn without debug: no lint', two, {'fetchFn': HF, 'logFn': HL}, {}, {}, {"'a.bare'": ['w1']}, 50),
        ('C17.G', 'statement limit reached inside an included script aborts the run; the count is carried back', one, {'fetchFn': HF}, {}, nested, {}, 3),
        ('C17.G', 'statement limit reached right after an include', two, {'fetchFn': HF}, {}, {}, {}, 3),
    ]
    return out


def check_include_sim(chk):
    """C17.R / O / G / F / I by abstract execution of the include branch (E6s)"""
    from .. import stepsim
    mod = chk.repo.module('runtime')
    func = mod.func('_execute_script_helper', 'C17.R')
    it = stepsim.IncludeInterp(chk.repo, mod, 'C17.R')
    n = 0
    for rule, desc, model, opts, fetch, scripts, warnings, limit in include_scenarios():
        it.fetch, it.scripts, it.warnings = fetch, scripts, warnings
        got = it.run_include(func, model, opts, limit)
        want = stepsim.include_reference(model, opts, fetch, scripts, warnings, limit)
        diff = stepsim.include_compare(got, want)
        n += 1
        if diff is not None and sum(1 for f in chk.findings if f.rule.startswith('C17.') and 'abstract execution' in f.what) >= 3:
            continue
        if diff is None:
            chk.ok(rule, f'{desc}: resolution, fetch, parse, lint, nested execution (options copy re-based on the resolved location, same globals, global scope), '
                   f'diagnostics and statement count agree with the documented semantics (E6s)')
        else:
            r = 'C17.I' if 'includer\'s own options' in diff else 'C17.G' if 'locals frame' in diff else rule
            chk.bad(r, mod, func.name, f'include scenario: {desc}', f'abstract execution of the include statement ({desc}): {diff}')
    # an include statement inside a function body still runs the included script in global scope
    it.fetch, it.scripts, it.warnings = {}, {}, {}
    locals_ = it.prepare('function', 50)
    it.parsed, it.keep = {}, []
    it.options.d.update({'fetchFn': Sym('hostfn', 'fetch')})
    it.schedule = [True]
    try:
        it.call_function(func, [stepsim.build([{'include': {'includes': [{'url': 'a.bare'}]}}, {'expr': {'expr': Sym('e', 'in-function')}}]), it.options, locals_], func)
        scopes = [(e[1], e[2]) for e in it.events if e[0] == 'eval']
        if scopes == [("'a.bare'#0", 'globals'), ('in-function', 'locals')]:
            chk.ok('C17.G', 'an include statement executed inside a function body runs the included script in global scope; the function continues with its locals')
        else:
            chk.bad('C17.G', mod, func.name, f'include inside a function: scopes {scopes}', f'an included script must run in global scope also when the include statement sits in a function body; observed {scopes}')
    except stepsim.RaiseSig as sig:
        chk.bad('C17.G', mod, func.name, f'include inside a function raises {sig.cls}', f'an include statement inside a function body raises {sig.cls}{sig.args_!r}')


def _local_defs(func):
    out = {}
    for n in walk_no_nested(func):
        if isinstance(n, ast.Assign) and len(n.targets) == 1 and isinstance(n.targets[0], ast.Name):
            out.setdefault(n.targets[0].id, norm(n.value))
    return out


def check_isolation(chk):
    n = 0
    for modname in chk.repo.all_module_names():
        mod = chk.repo.module(modname)
        for node in ast.walk(mod.tree):
            if isinstance(node, ast.Assign):
                for t in node.targets:
                    if isinstance(t, ast.Subscript) and const_str(t.slice) == 'urlFn':
                        n += 1
                        base = norm(t.value)
                        fn = None
                        cur = node
                        while cur is not None and not isinstance(cur, ast.FunctionDef):
                            cur = getattr(cur, '_parent', None)
                        params = [a.arg for a in cur.args.args] if cur is not None else []
                        if base in params:
                            chk.bad('C17.I', mod, cur.name if cur is not None else '<module>', norm(node)[:100],
                                    f'the includer\'s own options object ({base}) gets a new urlFn: after the include, the includer resolves its later relative paths against the included file', node=node)
                        else:
                            defs = [norm(a.value) for a in walk_no_nested(cur) if isinstance(a, ast.Assign) and norm(a.targets[0]) == base] if cur is not None else []
                            if any('.copy()' in d or d.startswith('dict(') for d in defs):
                                chk.ok('C17.I', f'{modname}: {norm(node)[:70]} stores into a copy of the options')
                            else:
                                chk.bad('C17.I', mod, cur.name if cur is not None else '<module>', norm(node)[:100], f'urlFn is stored into {base}, which is not a copy of the options', node=node)
    if n == 0:
        raise Unrecognised('C17.I', 'no store of urlFn found (the nested run is not re-based?)', None)


def check_parser_side_sim(chk):
    """C17.P primary: parse_script evaluated (E6p) on a text with quoted and system includes -> True when decided OK"""
    from ..parsesim import ParseInterp
    mod = chk.repo.module('parser')
    func = mod.func('parse_script', 'C17.P')
    it = ParseInterp(chk.repo, mod, 'C17.P')
    text = "include 'a.bare'\ninclude <b.bare>\n  include  'it\\'s here.bare'  \ninclude <sub/c d.bare>\ninclude 'a.bare'\ninclude <b.bare>\nx = 1\ninclude <d.bare>\ninclude 'http://h.example/e.bare'\n"
    got = it.parse(func, text)
    if got[0] != 'ok':
        chk.bad('C17.P', mod, 'parse_script', 'include statements rejected', f'well-formed include statements are rejected: {got[1]}{got[2][:1]!r}', node=func)
        return False
    stmts = got[1].get('statements') if isinstance(got[1], dict) else None
    want = [[('a.bare', False), ('b.bare', True), ("it's here.bare", False), ('sub/c d.bare', True), ('a.bare', False), ('b.bare', True)], None, [('d.bare', True), ('http://h.example/e.bare', False)]]
    shape = []
    for s in stmts or []:
        if isinstance(s, dict) and 'include' in s:
            incs = s['include'].get('includes') if isinstance(s['include'], dict) else None
            if not isinstance(incs, list) or not all(isinstance(i, dict) and set(i) <= {'url', 'system'} for i in incs):
                raise Unrecognised('C17.P', f'include statement of unexpected shape: {s!r}'[:160], mod.rel)
            shape.append([(i.get('url'), bool(i.get('system', False))) for i in incs])
        else:
            shape.append(None)
    if shape != want:
        chk.bad('C17.P', mod, 'parse_script', f'includes parsed as {shape!r}'[:120],
                f'evaluation of parse_script on seven include lines around an assignment gives {shape!r}; adjacent include lines merge into one statement in program order (a file included twice is included twice), a later '
                f'include starts a new statement, <...> sets the system flag, quoted locations lose their quote escapes: {want!r}', node=func)
        return False
    chk.ok('C17.P', 'parse_script evaluated on quoted / system includes: adjacent lines merge in program order, separated ones do not, system flag from <...>, quote escapes removed', count=7)
    return True


def check_parser_side(chk):
    pm = ParserModel(chk.repo, 'C17.P')
    rnames = pm.kind_regex.get('include', [])
    if len(rnames) != 2:
        raise Unrecognised('C17.P', f'{len(rnames)} include regexes', pm.mod.rel)
    kinds = {}
    for i, rn in enumerate(rnames):
        kinds[i] = pm.regexes[rn].group_literal('delim')
    sh = Shape(pm)
    order = [0, 1, 0, 1]
    for rix in order:
        sh.add('include', 'include', (), regex_ix=rix)
    sh.add('expr', 'x()')
    sh.add('include', 'include', (), regex_ix=0)
    st, val, it = pm.lower(sh.lines)
    if st != 'ok':
        chk.bad('C17.P', pm.mod, 'parse_script', 'include statements rejected', f'well-formed include statements are rejected: {val.cls}', node=val.node)
        return
    stmts = reify(val)['statements']
    if len(stmts) == 3 and 'include' in stmts[0] and 'include' in stmts[2] and len(stmts[0]['include']['includes']) == 4:
        chk.ok('C17.P', 'adjacent include lines merge into one include statement; a later include after another statement starts a new one')
    else:
        chk.bad('C17.P', pm.mod, 'parse_script', f'{len(stmts)} statements for 4 adjacent includes + expr + include', 'adjacent includes must merge into one statement (order kept), separated ones must not')
        return
    incs = stmts[0]['include']['includes']
    for rix, inc in zip(order, incs):
        is_sys = kinds[rix] == '<'
        url = inc.get('url')
        lid_ok = isinstance(url, Sym)
        if is_sys:
            good = inc.get('system') is True and isinstance(url, Sym) and url.kind == 'group' and url.args[1] == 'url'
        else:
            good = 'system' not in inc and isinstance(url, Sym) and url.kind == 'unescaped'
        if good:
            chk.ok('C17.P', f'{"system" if is_sys else "quoted"} include -> {"url as written, system: true" if is_sys else "url with quote escapes removed, no system flag"}')
        else:
            chk.bad('C17.P', pm.mod, 'parse_script', f'{"system" if is_sys else "quoted"} include emits {inc!r}'[:120],
                    'include <x> must be marked system with its url as written; include \'x\' must not be marked system and must have its quote escapes removed')
    urls = [inc['url'].args[-1] if inc['url'].kind == 'group' else inc['url'].args[0].args[-1] for inc in incs]
    if urls == sorted(urls):
        chk.ok('C17.P', 'merged includes keep program order')
    else:
        chk.bad('C17.P', pm.mod, 'parse_script', f'include order {urls}', 'merged includes must keep program order')


def _inline_locals(func):
    """single-assignment locals -> their defining expression text (one level), tuple targets of rpartition kept apart"""
    defs, rpart = {}, {}
    counts = {}
    for n in walk_no_nested(func):
        if isinstance(n, ast.Assign) and len(n.targets) == 1:
            t = n.targets[0]
            if isinstance(t, ast.Name):
                counts[t.id] = counts.get(t.id, 0) + 1
                defs[t.id] = norm(n.value)
            elif isinstance(t, ast.Tuple) and isinstance(n.value, ast.Call) and isinstance(n.value.func, ast.Attribute) and n.value.func.attr == 'rpartition' \
                    and len(t.elts) == 3 and all(isinstance(e, ast.Name) for e in t.elts) and n.value.args and const_str(n.value.args[0]) == '/':
                rpart[(t.elts[0].id, t.elts[1].id)] = norm(n.value.func.value)
    return {k: v for k, v in defs.items() if counts[k] == 1}, rpart


def check_url_file_relative_sim(chk):
    """C17.U primary: url_file_relative evaluated on (including file, reference) pairs - URL and path bases, absolute and relative references -> True when decided OK"""
    import posixpath
    import pathlib
    import re as _re
    from ..absint import Interp, RaiseSig
    mod = chk.repo.module('options')
    func = mod.func('url_file_relative', 'C17.U')
    it = Interp(mod, 'C17.U')
    it.repo = chk.repo
    files = ['http://h.example/a/b/main.bare', 'https://h.example/main.bare', 'dir/sub/main.bare', '/abs/dir/main.bare', 'main.bare', 'file:///x/y.bare', 'a/b.c/d',
             'vfs://root/app/main.bare', 'mem:app/main.bare']
    urls = ['http://o.example/x.bare', 'https://o.example/p/x.bare?q=1', '/abs/x.bare', 'x.bare', 'sub/x.bare', '../x.bare', './x.bare', 'lib/../x.bare', 'x y.bare', 'mailto:x',
            'sub\\util.bare', 'v\\1.bare', 'a\\g<0>.bare', 'x$1&.bare', 'q?a=b#c/d']
    is_url = _re.compile(r'^[a-z]+:')
    n = 0
    for f in files:
        for u in urls:
            n += 1
            if is_url.match(u):
                want = u
            elif u.startswith('/'):
                want = str(pathlib.PurePosixPath(u))
            elif is_url.match(f):
                want = f[:f.rfind('/') + 1] + u
            else:
                want = posixpath.join(posixpath.dirname(f), str(pathlib.PurePosixPath(u)))
            it.depth = 0
            try:
                got = it.call_function(func, [f, u], func)
            except RaiseSig as sig:
                chk.bad('C17.U', mod, func.name, f'url_file_relative({f!r}, {u!r}) raises {sig.cls}', f'url_file_relative({f!r}, {u!r}) raises {sig.cls}', node=func)
                return False
            if not isinstance(got, str):
                raise Unrecognised('C17.U', f'url_file_relative({f!r}, {u!r}) evaluates to the unmodelled value {got!r}', mod.rel)
            if got != want:
                chk.bad('C17.U', mod, func.name, f'url_file_relative({f!r}, {u!r}) = {got!r}',
                        f'evaluation: url_file_relative({f!r}, {u!r}) gives {got!r}; resolving the reference against the file that contains the include gives {want!r} (absolute URLs and absolute '
                        f'paths unchanged; otherwise the directory of the including file / URL followed by the reference)', node=func)
                return False
    chk.ok('C17.U', f'url_file_relative evaluated on {n} (including file, reference) pairs: absolute URLs and absolute paths are returned unchanged, relative references are appended to the '
           f'directory of the including URL / path', count=n)
    return True


def check_url_file_relative(chk):
    mod = chk.repo.module('options')
    func = mod.func('url_file_relative', 'C17.U')
    params = [a.arg for a in func.args.args]
    base, ref = params
    defs, rpart = _inline_locals(func)

    def text(e):
        t = norm(e)
        if isinstance(e, ast.Name) and e.id in defs:
            return defs[e.id]
        return t
    # positively wrong: the reference is altered / normalised before it is appended
    for n in ast.walk(func):
        if isinstance(n, ast.Call) and isinstance(n.func, ast.Attribute) and isinstance(n.func.value, ast.Name) and n.func.value.id == ref \
                and n.func.attr in ('lstrip', 'rstrip', 'strip', 'replace', 'removeprefix', 'removesuffix', 'split', 'lower', 'upper'):
            chk.bad('C17.U', mod, func.name, norm(n)[:80],
                    f'the relative reference is altered with .{n.func.attr}() before it is appended to the base: references such as ../x or .hidden resolve to a different location', node=n)
            return
        if isinstance(n, ast.Call) and (call_name(n) or '').split('.')[-1] in ('urljoin', 'normpath', 'urlsplit', 'urlparse', 'resolve'):
            chk.bad('C17.U', mod, func.name, norm(n)[:80],
                    f'{call_name(n)} normalises the location (collapses ../, drops the base for unknown schemes): with a URL base the result must be the base up to its last slash '
                    f'followed by the reference, unmodified', node=n)
            return
    steps = [s for s in func.body if not (isinstance(s, ast.Expr) and isinstance(s.value, ast.Constant)) and not isinstance(s, ast.Assign)]
    if len(steps) != 4 or not all(isinstance(s, ast.If) for s in steps[:3]) or not isinstance(steps[3], ast.Return):
        raise Unrecognised('C17.U', 'url_file_relative is not a 3-test case table followed by a return', mod.rel)

    def is_url_test(t, var):
        return isinstance(t, ast.Call) and (norm(t) in (f're.match(_R_URL, {var})', f'_R_URL.match({var})'))
    rets = []
    for s in steps:
        if isinstance(s, ast.If):
            r = [x for x in s.body if isinstance(x, ast.Return)]
            if len(r) != 1 or s.orelse or any(not isinstance(x, (ast.Return, ast.Assign)) for x in s.body):
                raise Unrecognised('C17.U', 'case without a single return', mod.rel)
            rets.append(r[0])
        else:
            rets.append(s)
    t0, t1, t2 = steps[0].test, steps[1].test, steps[2].test
    c0 = is_url_test(t0, ref) and norm(rets[0].value) == ref
    c1 = norm(t1) == f"{ref}.startswith('/')" and text(rets[1].value) == f'str(Path({ref}))'
    v2 = rets[2].value
    parts2 = []
    if isinstance(v2, ast.JoinedStr) and all(isinstance(x, ast.FormattedValue) for x in v2.values):
        parts2 = [text(x.value) for x in v2.values]
    elif isinstance(v2, ast.BinOp) and isinstance(v2.op, ast.Add):
        parts2 = [text(v2.left), text(v2.right)]
    c2 = is_url_test(t2, base) and (parts2 == [f"{base}[:{base}.rfind('/') + 1]", ref] or
                                    (len(parts2) == 3 and parts2[2] == ref and rpart.get((parts2[0], parts2[1])) == base))
    v3 = rets[3].value
    c3 = isinstance(v3, ast.Call) and norm(v3.func) == 'os.path.join' and len(v3.args) == 2 and text(v3.args[0]) == f'os.path.dirname({base})' and text(v3.args[1]) == f'str(Path({ref}))'
    results = ((c0, 'URL reference -> unchanged'), (c1, 'absolute POSIX path -> unchanged (as an OS path)'),
               (c2, 'URL base -> base up to and including its last "/" + reference'), (c3, 'path base -> dirname(base) joined with the reference'))
    for ok, desc in results:
        if ok:
            chk.ok('C17.U', 'url_file_relative: ' + desc)
        else:
            chk.unrec('C17.U', f'url_file_relative: case `{desc}` not recognised', mod.rel)
    rg = mod.const('_R_URL', 'C17.U')
    if rg.pattern == '^[a-z]+:':
        chk.ok('C17.U', 'URL test: scheme regex ^[a-z]+:')
    else:
        chk.note(f'_R_URL = {rg.pattern}')


def check_fetch_include_sim(chk):
    """C17.C primary (loader part): _fetch_include evaluated on requests with and without the system prefix -> True when decided OK"""
    from ..absint import Interp, ADict, Sym, RaiseSig
    mod = chk.repo.module('bare')
    func = mod.func('_fetch_include', 'C17.C')
    it = Interp(mod, 'C17.C')
    it.repo = chk.repo
    it.oracles['fetch_read_write'] = lambda args, node: Sym('fetched', args[0])
    try:
        prefix = it.eval(ast.Name(id='_FETCH_INCLUDE_PREFIX', ctx=ast.Load()), {})
    except Unrecognised:
        prefix = None
    if not isinstance(prefix, str) or not prefix:
        raise Unrecognised('C17.C', f'the system include prefix is not a text constant ({prefix!r})', mod.rel)

    def names_file(v, path):
        """the value is the decoded content of <package include dir>/<path>"""
        txt = repr(v)
        return isinstance(v, Sym) and "pkgdir('bare_script.include')" in txt and repr(path) in txt and 'fetched' not in txt
    cases = [(prefix + 'diff.bare', 'diff.bare'), (prefix + 'sub/x.bare', 'sub/x.bare'), ('http://h.example/' + 'diff.bare', None), ('lib/diff.bare', None),
             ('x' + prefix + 'diff.bare', None), (prefix[:-1], None), ('diff.bare', None)]
    for url, path in cases:
        req = ADict({'url': url})
        it.depth = 0
        try:
            got = it.call_function(func, [req], func)
        except RaiseSig as sig:
            chk.bad('C17.C', mod, '_fetch_include', f'{url!r}: raises {sig.cls}', f'_fetch_include for the location {url!r} raises {sig.cls}', node=func)
            return False
        if path is not None:
            if not names_file(got, path):
                chk.bad('C17.C', mod, '_fetch_include', f'{url!r} -> {got!r}'[:110], f'_fetch_include for the system location {url!r} gives {got!r}; it must read {path!r} from the package include '
                        f'directory (the system prefix removed)', node=func)
                return False
        elif got != Sym('fetched', req):
            chk.bad('C17.C', mod, '_fetch_include', f'{url!r} -> {got!r}'[:110], f'_fetch_include for the location {url!r}, which does not start with the system prefix, gives {got!r}; it must '
                    f'delegate the unchanged request to fetch_read_write', node=func)
            return False
    chk.ok('C17.C', f'_fetch_include evaluated on {len(cases)} requests: locations starting with the system prefix are read from the package include directory with the prefix removed, '
           f'every other request is delegated unchanged', count=len(cases))
    return True


def check_cli(chk):
    mod = chk.repo.module('bare')
    main = mod.func('main', 'C17.C')
    dicts = [n for n in ast.walk(main) if isinstance(n, ast.Dict) and any(const_str(k) == 'fetchFn' for k in n.keys if k is not None)]
    if len(dicts) != 1:
        raise Unrecognised('C17.C', 'options dict of the CLI not found', mod.rel)
    d = {const_str(k): v for k, v in zip(dicts[0].keys, dicts[0].values)}
    ok = norm(d.get('systemPrefix')) == '_FETCH_INCLUDE_PREFIX' and norm(d.get('fetchFn')) == '_fetch_include' and 'url_file_relative' in norm(d.get('urlFn'))
    if ok:
        chk.ok('C17.C', f'CLI: systemPrefix = _FETCH_INCLUDE_PREFIX, fetchFn = _fetch_include, urlFn = {norm(d.get("urlFn"))[:60]}')
    else:
        chk.bad('C17.C', mod, 'main', norm(dicts[0])[:140], 'the CLI must configure the system prefix, the include-aware fetch function and a urlFn relative to the script file', node=dicts[0])
    if chk.guard('C17.C', check_fetch_include_sim, chk):
        chk.advisory('C17.C', _check_fetch_include_shape, chk, mod)
    else:
        _check_fetch_include_shape(chk, mod)


def _check_fetch_include_shape(chk, mod):
    f = mod.func('_fetch_include', 'C17.C')
    P = '_FETCH_INCLUDE_PREFIX'
    tests = [s for s in f.body if isinstance(s, ast.If)]
    prefix_tests = [s for s in tests if P in norm(s.test)]
    if len(prefix_tests) != 1:
        raise Unrecognised('C17.C', f'_fetch_include: {len(prefix_tests)} tests of the system prefix', mod.rel)
    t = prefix_tests[0]
    tt = norm(t.test)
    uvar = next((k for k in ('url',) if k in tt), None)
    pos = tt == f'url.startswith({P})'
    neg = tt == f'not url.startswith({P})'
    if not (pos or neg):
        if 'startswith' not in tt:
            chk.bad('C17.C', mod, '_fetch_include', tt[:80], 'the CLI fetch function must serve exactly the URLs that START WITH the system prefix from the package include directory', node=t)
        else:
            chk.unrec('C17.C', f'_fetch_include: prefix test {tt[:80]} not recognised', mod.rel)
        return
    rest = f.body[f.body.index(t) + 1:]
    sys_branch, other_branch = (t.body, (t.orelse or rest)) if pos else ((t.orelse or rest), t.body)
    sys_txt = ' '.join(norm(s) for s in sys_branch)
    other_txt = ' '.join(norm(s) for s in other_branch)
    strip_ok = f'url[len({P}):]' in sys_txt or f'url.removeprefix({P})' in sys_txt
    if "files('bare_script.include')" in sys_txt and strip_ok and 'return fetch_read_write(request)' in other_txt and 'fetch_read_write' not in sys_txt:
        chk.ok('C17.C', '_fetch_include serves exactly the URLs starting with the system prefix from the package include directory (prefix removed) and delegates the rest')
    elif "files('bare_script.include')" in other_txt or 'fetch_read_write' in sys_txt:
        chk.bad('C17.C', mod, '_fetch_include', tt[:80], 'the CLI fetch function serves the wrong branch: system-prefix URLs must come from the package include directory, all others from fetch_read_write', node=t)
    else:
        chk.unrec('C17.C', '_fetch_include: branches not recognised', mod.rel)


def check_include_whole(chk):
    """C17.R (E9r): the whole pipeline evaluated on include trees with same-named files in different directories"""
    from .. import progsim
    n, problems = progsim.run_include_whole(chk.repo, 'C17.R')
    mod = chk.repo.module('runtime')
    for desc, msg in problems:
        chk.bad('C17.R', mod, 'execute_script', f'include program: {desc[:80]}', f'whole-program evaluation (E9r) of include trees: {msg}', node=mod.funcs.get('_execute_script_helper'))
    if not problems:
        chk.ok('C17.R', f'{n} include trees with same-named files in two directories evaluated whole: every include statement runs the file next to its includer (or under the prefix)', count=n)
    return not problems


def run(chk):
    chk.rule('C17.R', 'resolution table: system+prefix -> relative to the prefix; urlFn; unchanged (abstract execution, E6s)', floor=4)
    chk.rule('C17.I', 're-based urlFn only in the copy handed to the nested run', floor=1)
    chk.rule('C17.O', 'per include, in order: resolve, fetch, parse, lint, execute; nested includes re-based on the resolved location', floor=5)
    chk.rule('C17.G', 'included scripts run in global scope; statements counted on the run\'s counter', floor=2)
    chk.rule('C17.F', 'failure reporting names the resolved location of the failing file only', floor=6)
    chk.rule('C17.P', 'parser side: merge adjacent includes, system flag, URL un-escaping (E6)', floor=5)
    chk.rule('C17.U', 'url_file_relative case table; the reference is appended unmodified', floor=4)
    chk.rule('C17.C', 'CLI include loader configuration', floor=2)
    chk.assumptions += ['os.path / pathlib behave as documented; fetchFn/urlFn are host functions']
    chk.guard('C17.R', check_include_sim, chk)
    chk.guard('C17.R', check_include_whole, chk)
    chk.guard('C17.I', check_isolation, chk)
    if chk.guard('C17.P', check_parser_side_sim, chk):
        chk.advisory('C17.P', check_parser_side, chk)
        chk.floors['C17.P'] = 1
    else:
        chk.guard('C17.P', check_parser_side, chk)
    if chk.guard('C17.U', check_url_file_relative_sim, chk):
        chk.advisory('C17.U', check_url_file_relative, chk)
    else:
        chk.guard('C17.U', check_url_file_relative, chk)
    chk.guard('C17.C', check_cli, chk)
