"""C17 - includes resolve relative to the including file and run in global scope."""
import ast

from ..core import Unrecognised, norm, call_name, walk_no_nested, const_str, if_chain
from ..rt import statement_dispatch
from ..lowering import ParserModel, Shape
from ..absint import reify, Sym

EXPLANATION = (
    'Dataflow on the include branch of the statement loop. C17.R: for each include the location is resolved once - '
    'system include with a system prefix -> url_file_relative(prefix, url); else a configured urlFn -> urlFn(url); else '
    'unchanged - and the SAME variable (the resolved location) is what fetchFn receives, what the failure messages name, '
    'and what the nested run\'s urlFn is re-based on (partial(url_file_relative, U)): level n+1 resolves against the '
    'resolved location of level n. C17.I: the re-based urlFn is stored only into the options copy handed to the nested '
    'run; no store to the includer\'s options[urlFn] exists package-wide. C17.O: inside the loop over includes: resolve '
    '-> fetch -> parse -> (lint when debugging) -> execute, each once per element, in list order, the nested execution a '
    'plain call whose result is discarded. C17.G: the nested invocation gets locals None. C17.F: fetchFn raising or '
    'returning None -> BareScriptRuntimeError naming U; the handler that prefixes parser errors with the location '
    'encloses ONLY the parse of this include\'s text (so a deeper include\'s error keeps its own location). C17.P (E6): '
    'the parser merges adjacent includes in order, marks system iff the delimiter is <, un-escapes quoted URLs. C17.U: '
    'url_file_relative\'s case table in order: URL unchanged; absolute path unchanged; URL base -> base up to its last / '
    '+ the relative reference UNMODIFIED; otherwise dirname(base) joined with it. C17.C: the CLI passes the system '
    'prefix and a fetchFn that serves exactly that prefix from the package include directory. Behaviour of '
    'os.path/pathlib on exotic paths is the host\'s.')
ENUMERATION = 'uses of the resolved-location variable, stores of urlFn, ordered steps of the include loop, handler scopes, url_file_relative branches, E6 include scenarios, CLI options'


def include_branch(chk):
    mod, func, loop, key_var, sections, chain = statement_dispatch(chk.repo, 'C17.R')
    stmts = sections.get('include')
    if stmts is None:
        raise Unrecognised('C17.R', "no 'include' branch in the statement dispatch", mod.rel)
    fors = [s for s in stmts if isinstance(s, ast.For) and norm(s.iter).endswith("['include']['includes']")]
    if len(fors) != 1:
        raise Unrecognised('C17.O', 'the loop over the includes list was not found', mod.rel)
    return mod, func, stmts, fors[0]


def check_resolution(chk):
    mod, func, stmts, loop = include_branch(chk)
    inc = loop.target.id
    body = loop.body
    opt = func.args.args[1].arg
    # U: the variable assigned from include['url']
    first = [s for s in body if isinstance(s, ast.Assign) and norm(s.value) == f"{inc}['url']"]
    if len(first) != 1 or not isinstance(first[0].targets[0], ast.Name):
        raise Unrecognised('C17.R', "assignment from include['url'] not found", mod.rel)
    U0 = first[0].targets[0].id
    U = U0
    # resolution chain
    res = [s for s in body if isinstance(s, ast.If) and any(isinstance(x, ast.Assign) and 'url_file_relative' in norm(x.value) for x in s.body)]
    if len(res) != 1:
        raise Unrecognised('C17.R', 'resolution conditional (system prefix / urlFn) not found', mod.rel)
    chain = if_chain(res[0])
    sp = next((k for k in _local_defs(func) if _local_defs(func)[k] == f"{opt}.get('systemPrefix')"), None)
    uf = next((k for k in _local_defs(func) if _local_defs(func)[k] == f"{opt}.get('urlFn')"), None)
    if len(chain) not in (2, 3) or chain[1][0] is None or any(len(bd) != 1 or not isinstance(bd[0], ast.Assign) or not isinstance(bd[0].targets[0], ast.Name) for _t, bd in chain) \
            or (len(chain) == 3 and chain[2][0] is not None):
        raise Unrecognised('C17.R', 'resolution conditional is not `if system & prefix: U = ...  elif urlFn: U = ... [else: U = url]`', mod.rel)
    t0, b0 = chain[0]
    t1, b1 = chain[1]
    targets = {bd[0].targets[0].id for _t, bd in chain}
    if len(targets) != 1:
        raise Unrecognised('C17.R', f'the resolution branches assign different variables {sorted(targets)}', mod.rel)
    U = targets.pop()
    srcs = {U0} | ({U} if (U == U0 or any(isinstance(x, ast.Assign) and norm(x.targets[0]) == U and norm(x.value) == U0 for x in body)) else set())
    if len(chain) == 2 and U not in srcs:
        raise Unrecognised('C17.R', f'{U} is not initialised from the include url when neither resolution applies', mod.rel)
    shape = ("'system'" in norm(t0) and sp is not None and sp in norm(t0) and isinstance(b0[0].value, ast.Call) and call_name(b0[0].value) == 'url_file_relative'
             and uf is not None and norm(t1) == f'{uf} is not None' and isinstance(b1[0].value, ast.Call) and norm(b1[0].value.func) == uf)
    if not shape:
        raise Unrecognised('C17.R', f'resolution conditional has an unrecognised shape: {norm(t0)[:60]} / {norm(t1)[:40]}', mod.rel)
    a0 = [norm(x) for x in b0[0].value.args]
    a1 = [norm(x) for x in b1[0].value.args]
    ok = len(a0) == 2 and a0[0] == sp and a0[1] in srcs and len(a1) == 1 and a1[0] in srcs and (len(chain) == 2 or norm(chain[2][1][0].value) in srcs)
    if ok:
        chk.ok('C17.R', f'resolution: system include & prefix -> url_file_relative(prefix, {U}); else urlFn -> urlFn({U}); else unchanged; result stays in {U}')
    else:
        chk.bad('C17.R', mod, func.name, norm(res[0].test)[:100],
                'an include must be resolved as: system include with a system prefix -> against the prefix; otherwise through the configured urlFn (the including file); otherwise unchanged - '
                'and the result must be kept in the one location variable', node=res[0])
    # uses of the resolved location
    fetch = [n for s in body for n in ast.walk(s) if isinstance(n, ast.Call) and isinstance(n.func, ast.Name) and 'fetch' in n.func.id.lower()]
    if len(fetch) == 1 and norm(fetch[0].args[0]) == f"{{'url': {U}}}":
        chk.ok('C17.R', f'fetchFn receives the resolved location: {norm(fetch[0])}')
    else:
        chk.bad('C17.R', mod, func.name, '; '.join(norm(f)[:60] for f in fetch) or 'no fetch', f"the text must be fetched from the resolved location ({{'url': {U}}})", node=fetch[0] if fetch else loop)
    parts = [n for s in body for n in ast.walk(s) if isinstance(n, ast.Call) and (call_name(n) or '').endswith('partial') and n.args and norm(n.args[0]) == 'url_file_relative']
    if len(parts) == 1 and len(parts[0].args) == 2 and norm(parts[0].args[1]) == U:
        chk.ok('C17.R', f'the nested run resolves against the resolved location of this include: {norm(parts[0])}')
    else:
        chk.bad('C17.R', mod, func.name, '; '.join(norm(p)[:80] for p in parts) or 'no re-based urlFn',
                f'the included script\'s own includes must resolve against the RESOLVED location of the file that contains them (partial(url_file_relative, {U})); an unresolved or other path makes '
                f'nested relative includes load from the wrong directory', node=parts[0] if parts else loop)
    msgs = [n for s in body for n in ast.walk(s) if isinstance(n, ast.JoinedStr) and any(w in norm(n) for w in ('Include', 'failed', 'from'))]
    for m in msgs:
        names = {v.value.id for v in m.values if isinstance(v, ast.FormattedValue) and isinstance(v.value, ast.Name)}
        others = {x for x in names if x != U and ('url' in x.lower())}
        if U in names and not others:
            chk.ok('C17.F', f'message names the resolved location: {norm(m)[:60]}')
        elif others or ('url' in norm(m).lower() and U not in names):
            chk.bad('C17.F', mod, func.name, norm(m)[:80], f'an include diagnostic must name the resolved location {U}', node=m)
    return U


def _local_defs(func):
    out = {}
    for n in walk_no_nested(func):
        if isinstance(n, ast.Assign) and len(n.targets) == 1 and isinstance(n.targets[0], ast.Name):
            out.setdefault(n.targets[0].id, norm(n.value))
    return out


def check_isolation(chk):
    n = 0
    for modname in chk.repo.all_module_names():
        mod = chk.repo.module(modname)
        for node in ast.walk(mod.tree):
            if isinstance(node, ast.Assign):
                for t in node.targets:
                    if isinstance(t, ast.Subscript) and const_str(t.slice) == 'urlFn':
                        n += 1
                        base = norm(t.value)
                        fn = None
                        cur = node
                        while cur is not None and not isinstance(cur, ast.FunctionDef):
                            cur = getattr(cur, '_parent', None)
                        params = [a.arg for a in cur.args.args] if cur is not None else []
                        if base in params:
                            chk.bad('C17.I', mod, cur.name if cur is not None else '<module>', norm(node)[:100],
                                    f'the includer\'s own options object ({base}) gets a new urlFn: after the include, the includer resolves its later relative paths against the included file', node=node)
                        else:
                            defs = [norm(a.value) for a in walk_no_nested(cur) if isinstance(a, ast.Assign) and norm(a.targets[0]) == base] if cur is not None else []
                            if any('.copy()' in d or d.startswith('dict(') for d in defs):
                                chk.ok('C17.I', f'{modname}: {norm(node)[:70]} stores into a copy of the options')
                            else:
                                chk.bad('C17.I', mod, cur.name if cur is not None else '<module>', norm(node)[:100], f'urlFn is stored into {base}, which is not a copy of the options', node=node)
    if n == 0:
        raise Unrecognised('C17.I', 'no store of urlFn found (the nested run is not re-based?)', None)


def check_order(chk, U):
    mod, func, stmts, loop = include_branch(chk)
    body = loop.body

    def pos(pred):
        out = [i for i, s in enumerate(body) if any(pred(n) for n in ast.walk(s))]
        return out
    p_res = pos(lambda n: isinstance(n, ast.Call) and call_name(n) == 'url_file_relative' and not isinstance(getattr(n, '_parent', None), ast.Call))
    p_fetch = pos(lambda n: isinstance(n, ast.Call) and isinstance(n.func, ast.Name) and 'fetch' in n.func.id.lower())
    p_parse = pos(lambda n: isinstance(n, ast.Call) and call_name(n) == 'parse_script')
    p_lint = pos(lambda n: isinstance(n, ast.Call) and call_name(n) == 'lint_script')
    p_exec = pos(lambda n: isinstance(n, ast.Call) and call_name(n) == '_execute_script_helper')
    seq = [p_res, p_fetch, p_parse, p_lint, p_exec]
    if all(len(p) == 1 for p in seq) and [p[0] for p in seq] == sorted(p[0] for p in seq) and len({p[0] for p in seq}) == 5:
        chk.ok('C17.O', 'per include, in list order: resolve -> fetch -> parse -> lint (debug) -> execute, each exactly once')
    else:
        chk.bad('C17.O', mod, func.name, f'step positions {[p for p in seq]}', 'each include must be resolved, fetched, parsed, (linted) and executed exactly once, in that order, before the next one', node=loop)
    # nested execution: plain call, result discarded, locals None
    calls = [n for s in body for n in ast.walk(s) if isinstance(n, ast.Call) and call_name(n) == '_execute_script_helper']
    if len(calls) == 1:
        par = getattr(calls[0], '_parent', None)
        if isinstance(par, ast.Expr):
            chk.ok('C17.O', 'the nested execution is a plain call whose result is discarded (a return inside the included script ends only that script)')
        else:
            chk.bad('C17.O', mod, func.name, norm(par)[:100], 'the result of the nested execution must be discarded: returning it makes a return inside an included script end the includer', node=calls[0])
        if len(calls[0].args) >= 3 and isinstance(calls[0].args[2], ast.Constant) and calls[0].args[2].value is None:
            chk.ok('C17.G', 'the included script runs in global scope (locals None), also when the include statement sits inside a function')
        else:
            chk.bad('C17.G', mod, func.name, norm(calls[0])[:100], 'an included script must run in global scope (locals None)', node=calls[0])
        if norm(calls[0].args[0]).endswith("['statements']") and not norm(calls[0].args[0]).startswith('statement'):
            chk.ok('C17.O', f'executes the parsed include: {norm(calls[0].args[0])}')
    # the loop iterates the list in order
    if norm(loop.iter).endswith("['include']['includes']"):
        chk.ok('C17.O', 'includes are processed in list order')


def check_failures(chk, U):
    mod, func, stmts, loop = include_branch(chk)
    body = loop.body
    # fetch under catch-all -> None -> runtime error
    tries = [s for s in body if isinstance(s, ast.Try)]
    fetch_try = next((t for t in tries if any(isinstance(n, ast.Call) and isinstance(n.func, ast.Name) and 'fetch' in n.func.id.lower() for n in ast.walk(t))), None)
    parse_try = next((t for t in tries if any(isinstance(n, ast.Call) and call_name(n) == 'parse_script' for s in t.body for n in ast.walk(s))), None)
    if fetch_try is None:
        chk.bad('C17.F', mod, func.name, 'fetch not under try', 'a throwing fetch function must be turned into the include-failure runtime error', node=loop)
    else:
        h = fetch_try.handlers
        catch_all = len(h) >= 1 and (h[0].type is None or norm(h[0].type) in ('Exception', 'BaseException'))
        raises = [s for s in body if isinstance(s, ast.If) and any(isinstance(x, ast.Raise) and 'BareScriptRuntimeError' in norm(x) for x in s.body)]
        good = catch_all and len(raises) == 1 and norm(raises[0].test).endswith('is None') and f'{{{U}}}' in norm(raises[0].body[0])
        if good:
            chk.ok('C17.F', f'fetchFn raising or returning None -> BareScriptRuntimeError naming {U}')
        else:
            chk.bad('C17.F', mod, func.name, 'fetch failure handling', f'a location that cannot be fetched (exception or None) must raise BareScriptRuntimeError naming the resolved location {U}', node=fetch_try)
    if parse_try is None:
        chk.bad('C17.F', mod, func.name, 'parse not under try', 'a syntax error in an included text must be re-raised as a parser error that names the location', node=loop)
        return
    only_parse = len(parse_try.body) == 1 and isinstance(parse_try.body[0], ast.Assign) and isinstance(parse_try.body[0].value, ast.Call) and call_name(parse_try.body[0].value) == 'parse_script'
    hs = [h for h in parse_try.handlers if h.type is not None and 'BareScriptParserError' in norm(h.type)]
    if not hs:
        chk.bad('C17.F', mod, func.name, 'no BareScriptParserError handler', 'a syntax error in an included text must be re-raised as a parser error naming the location', node=parse_try)
        return
    rr = [s for s in hs[0].body if isinstance(s, ast.Raise) and isinstance(s.exc, ast.Call) and call_name(s.exc) == 'BareScriptParserError']
    e = hs[0].name
    good_args = False
    if len(rr) == 1 and len(rr[0].exc.args) == 5:
        a = [norm(x) for x in rr[0].exc.args]
        good_args = a[:4] == [f'{e}.error', f'{e}.line', f'{e}.column_number', f'{e}.line_number'] and f'{{{U}}}' in a[4]
    if good_args:
        chk.ok('C17.F', f'parser error of the included text re-raised with error/line/column/line number and a prefix naming {U}')
    else:
        chk.bad('C17.F', mod, func.name, norm(rr[0])[:120] if rr else 'no re-raise', f'the re-raised parser error must carry the original error, line, column, line number and a prefix naming {U}', node=hs[0])
    if only_parse:
        chk.ok('C17.F', 'the location-prefix handler encloses only the parse of this include\'s text')
    else:
        chk.bad('C17.F', mod, func.name, f'try body of the parser-error handler has {len(parse_try.body)} statements',
                'the handler that prefixes parser errors with this include\'s location also encloses other steps (e.g. the nested execution): a syntax error in a DEEPER include is re-wrapped '
                'at every level and ends up naming the outermost include instead of the broken file', node=parse_try)


def check_parser_side(chk):
    pm = ParserModel(chk.repo, 'C17.P')
    rnames = pm.kind_regex.get('include', [])
    if len(rnames) != 2:
        raise Unrecognised('C17.P', f'{len(rnames)} include regexes', pm.mod.rel)
    kinds = {}
    for i, rn in enumerate(rnames):
        kinds[i] = pm.regexes[rn].group_literal('delim')
    sh = Shape(pm)
    order = [0, 1, 0, 1]
    for rix in order:
        sh.add('include', 'include', (), regex_ix=rix)
    sh.add('expr', 'x()')
    sh.add('include', 'include', (), regex_ix=0)
    st, val, it = pm.lower(sh.lines)
    if st != 'ok':
        chk.bad('C17.P', pm.mod, 'parse_script', 'include statements rejected', f'well-formed include statements are rejected: {val.cls}', node=val.node)
        return
    stmts = reify(val)['statements']
    if len(stmts) == 3 and 'include' in stmts[0] and 'include' in stmts[2] and len(stmts[0]['include']['includes']) == 4:
        chk.ok('C17.P', 'adjacent include lines merge into one include statement; a later include after another statement starts a new one')
    else:
        chk.bad('C17.P', pm.mod, 'parse_script', f'{len(stmts)} statements for 4 adjacent includes + expr + include', 'adjacent includes must merge into one statement (order kept), separated ones must not')
        return
    incs = stmts[0]['include']['includes']
    for rix, inc in zip(order, incs):
        is_sys = kinds[rix] == '<'
        url = inc.get('url')
        lid_ok = isinstance(url, Sym)
        if is_sys:
            good = inc.get('system') is True and isinstance(url, Sym) and url.kind == 'group' and url.args[1] == 'url'
        else:
            good = 'system' not in inc and isinstance(url, Sym) and url.kind == 'unescaped'
        if good:
            chk.ok('C17.P', f'{"system" if is_sys else "quoted"} include -> {"url as written, system: true" if is_sys else "url with quote escapes removed, no system flag"}')
        else:
            chk.bad('C17.P', pm.mod, 'parse_script', f'{"system" if is_sys else "quoted"} include emits {inc!r}'[:120],
                    'include <x> must be marked system with its url as written; include \'x\' must not be marked system and must have its quote escapes removed')
    urls = [inc['url'].args[-1] if inc['url'].kind == 'group' else inc['url'].args[0].args[-1] for inc in incs]
    if urls == sorted(urls):
        chk.ok('C17.P', 'merged includes keep program order')
    else:
        chk.bad('C17.P', pm.mod, 'parse_script', f'include order {urls}', 'merged includes must keep program order')


def check_url_file_relative(chk):
    mod = chk.repo.module('options')
    func = mod.func('url_file_relative', 'C17.U')
    params = [a.arg for a in func.args.args]
    base, ref = params
    steps = [s for s in func.body if not (isinstance(s, ast.Expr) and isinstance(s.value, ast.Constant))]
    # expected shape: if URL(ref): return ref ; if ref.startswith('/'): return str(Path(ref)) ; if URL(base): return f'{base[:rfind+1]}{ref}' ; return os.path.join(dirname(base), str(Path(ref)))
    if len(steps) != 4 or not all(isinstance(s, ast.If) for s in steps[:3]) or not isinstance(steps[3], ast.Return):
        raise Unrecognised('C17.U', 'url_file_relative is not a 3-test case table followed by a return', mod.rel)

    def is_url_test(t, var):
        return isinstance(t, ast.Call) and (norm(t) in (f're.match(_R_URL, {var})', f'_R_URL.match({var})'))
    rets = [s.body[0] if isinstance(s, ast.If) else s for s in steps]
    # the relative reference must appear unmodified in every result
    for i, r in enumerate(rets):
        if not isinstance(r, ast.Return):
            raise Unrecognised('C17.U', 'case without a single return', mod.rel)
        for n in ast.walk(r.value):
            if isinstance(n, ast.Call) and isinstance(n.func, ast.Attribute) and isinstance(n.func.value, ast.Name) and n.func.value.id == ref \
                    and n.func.attr in ('lstrip', 'rstrip', 'strip', 'replace', 'removeprefix', 'removesuffix', 'split', 'lower', 'upper'):
                chk.bad('C17.U', mod, func.name, norm(n)[:80],
                        f'the relative reference is altered with .{n.func.attr}() before it is appended to the base: references such as ../x or .hidden resolve to a different location', node=n)
    t0, t1, t2 = steps[0].test, steps[1].test, steps[2].test
    c0 = is_url_test(t0, ref) and norm(rets[0].value) == ref
    c1 = norm(t1) == f"{ref}.startswith('/')" and norm(rets[1].value) == f'str(Path({ref}))'
    v2 = rets[2].value
    parts2 = []
    if isinstance(v2, ast.JoinedStr) and all(isinstance(x, ast.FormattedValue) for x in v2.values):
        parts2 = [norm(x.value) for x in v2.values]
    elif isinstance(v2, ast.BinOp) and isinstance(v2.op, ast.Add):
        parts2 = [norm(v2.left), norm(v2.right)]
    c2 = is_url_test(t2, base) and parts2 == [f"{base}[:{base}.rfind('/') + 1]", ref]
    c3 = norm(rets[3].value) == f'os.path.join(os.path.dirname({base}), str(Path({ref})))'
    for ok, desc, what in ((c0, 'URL reference -> unchanged', 'an absolute URL must be returned unchanged (tested first)'),
                           (c1, 'absolute POSIX path -> unchanged (as an OS path)', 'an absolute path must be returned unchanged'),
                           (c2, 'URL base -> base up to and including its last "/" + reference', 'with a URL base the result must be the base up to its last slash followed by the reference, unmodified'),
                           (c3, 'path base -> dirname(base) joined with the reference', 'with a path base the result must be dirname(base) joined with the reference')):
        if ok:
            chk.ok('C17.U', 'url_file_relative: ' + desc)
        elif not any(f.rule == 'C17.U' for f in chk.findings):
            chk.bad('C17.U', mod, func.name, desc, what, node=func)
    rg = mod.const('_R_URL', 'C17.U')
    if rg.pattern == '^[a-z]+:':
        chk.ok('C17.U', 'URL test: scheme regex ^[a-z]+:')
    else:
        chk.note(f'_R_URL = {rg.pattern}')


def check_cli(chk):
    mod = chk.repo.module('bare')
    main = mod.func('main', 'C17.C')
    dicts = [n for n in ast.walk(main) if isinstance(n, ast.Dict) and any(const_str(k) == 'fetchFn' for k in n.keys if k is not None)]
    if len(dicts) != 1:
        raise Unrecognised('C17.C', 'options dict of the CLI not found', mod.rel)
    d = {const_str(k): v for k, v in zip(dicts[0].keys, dicts[0].values)}
    ok = norm(d.get('systemPrefix')) == '_FETCH_INCLUDE_PREFIX' and norm(d.get('fetchFn')) == '_fetch_include' and 'url_file_relative' in norm(d.get('urlFn'))
    if ok:
        chk.ok('C17.C', f'CLI: systemPrefix = _FETCH_INCLUDE_PREFIX, fetchFn = _fetch_include, urlFn = {norm(d.get("urlFn"))[:60]}')
    else:
        chk.bad('C17.C', mod, 'main', norm(dicts[0])[:140], 'the CLI must configure the system prefix, the include-aware fetch function and a urlFn relative to the script file', node=dicts[0])
    f = mod.func('_fetch_include', 'C17.C')
    tests = [s for s in f.body if isinstance(s, ast.If)]
    if len(tests) == 1 and norm(tests[0].test) == "url.startswith(_FETCH_INCLUDE_PREFIX)" and 'url[len(_FETCH_INCLUDE_PREFIX):]' in norm(tests[0].body[0]) \
            and "files('bare_script.include')" in ' '.join(norm(s) for s in tests[0].body) and norm(f.body[-1]) == 'return fetch_read_write(request)':
        chk.ok('C17.C', '_fetch_include serves exactly the URLs starting with the system prefix from the package include directory and delegates the rest')
    else:
        chk.bad('C17.C', mod, '_fetch_include', norm(tests[0].test)[:80] if tests else 'no prefix test', 'the CLI fetch function must serve exactly the system-prefix URLs from the package include directory', node=f)


def run(chk):
    chk.rule('C17.R', 'resolution table; one resolved-location variable feeds fetch, messages and the nested urlFn', floor=3)
    chk.rule('C17.I', 're-based urlFn only in the copy handed to the nested run', floor=1)
    chk.rule('C17.O', 'per include: resolve, fetch, parse, lint, execute once, in order; nested call result discarded', floor=3)
    chk.rule('C17.G', 'included scripts run in global scope', floor=1)
    chk.rule('C17.F', 'failure reporting names the resolved location; prefix handler encloses only the parse', floor=4)
    chk.rule('C17.P', 'parser side: merge adjacent includes, system flag, URL un-escaping (E6)', floor=5)
    chk.rule('C17.U', 'url_file_relative case table; the reference is appended unmodified', floor=4)
    chk.rule('C17.C', 'CLI include loader configuration', floor=2)
    chk.assumptions += ['os.path / pathlib behave as documented; fetchFn/urlFn are host functions']
    U = chk.guard('C17.R', check_resolution, chk)
    chk.guard('C17.I', check_isolation, chk)
    if U:
        chk.guard('C17.O', check_order, chk, U)
        chk.guard('C17.F', check_failures, chk, U)
    chk.guard('C17.P', check_parser_side, chk)
    chk.guard('C17.U', check_url_file_relative, chk)
    chk.guard('C17.C', check_cli, chk)
