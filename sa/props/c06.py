"""C06 - the parser is total and its diagnostics point at the offending source."""
import ast

from ..core import Unrecognised, norm, call_name, walk_no_nested, const_str
from ..absint import Sym, ALine, reify, RaiseSig
from ..lowering import ParserModel, Shape, B
from ..rx import Rx, Lang, included, parse_tree, MAXREPEAT
from . import c01

EXPLANATION = (
    'Scenario analysis with the E6 abstract interpreter of parse_script (abstract lines: which statement regex matches, '
    'which groups participate, whether the physical line ends in a continuation, whether parse_expression fails on a given '
    'group) plus regex-structure reasoning. C06.P/C/N: for every handler that parses a sub-expression, a failing '
    'parse_expression must surface as BareScriptParserError carrying the inner error text, the FULL logical line, the '
    'line number start_line_number + index of the first physical line, and a column that - normalised to a linear form '
    'over len(line), len(group), match.start(group) and the inner column - equals (offset of the group in the line) + '
    '(inner column); the offset arithmetic is validated against the regex that produced the match (group runs to the '
    'end of its span, fixed gap k). C06.N: every error of every ill-formed shape names a line of the input and its '
    'first physical index (+ start); unterminated blocks name their opener. C06.U: a block (if/while/for/function) or '
    'a line continuation pending at end of input raises. C06.D: every statement form emits exactly one statement (or '
    'merges into the preceding include); continuation parts are joined into one logical line. C06.E: no scenario '
    'raises anything but BareScriptParserError (KeyError/IndexError/StopIteration of stack and dict accesses are '
    'evaluated exactly); every match.group(name) names a group of the regex that produced the match; the number regex '
    'is included in the language float() accepts (automata inclusion). C06.X: every error text of the expression parser '
    'is a suffix of the input, so the expression-relative column is exact. C06.A: the three elision branches of '
    'BareScriptParserError.__init__ are evaluated as linear forms over (len(line), column) and the caret identity '
    'line_error[line_column-1] == line[column-1] is checked algebraically. Decides these clauses; message wording and '
    'token-soup accept/reject agreement are not decided.')
ENUMERATION = ('parse sites x contexts, error shapes, continuation scenarios, statement forms x contexts, group() calls, caret branches')


def lin(v, out=None, sign=1):
    """linear normal form of a symbolic integer expression: {atom: coefficient}"""
    out = {} if out is None else out
    if isinstance(v, bool):
        out[('?', repr(v))] = out.get(('?', repr(v)), 0) + sign
    elif isinstance(v, int):
        out[1] = out.get(1, 0) + sign * v
    elif isinstance(v, Sym) and v.kind == 'binop' and v.args[0] in ('Add', 'Sub'):
        lin(v.args[1], out, sign)
        lin(v.args[2], out, sign if v.args[0] == 'Add' else -sign)
    elif isinstance(v, Sym) and v.kind == 'len':
        x = v.args[0]
        if isinstance(x, ALine):
            atom = ('len(line)',)
        elif isinstance(x, Sym) and x.kind == 'group':
            atom = ('len(group)', x.args[1])
        else:
            atom = ('len(?)', repr(x)[:40])
        out[atom] = out.get(atom, 0) + sign
    elif isinstance(v, Sym) and v.kind == 'start':
        atom = ('start(group)', v.args[1])
        out[atom] = out.get(atom, 0) + sign
    elif isinstance(v, Sym) and v.kind == 'inner-column':
        out['errcol'] = out.get('errcol', 0) + sign
    else:
        out[('?', repr(v)[:50])] = out.get(('?', repr(v)[:50]), 0) + sign
    return {k: c for k, c in out.items() if c != 0}


def lineno_index(v):
    """start_line_number + i  ->  i ; else None"""
    if isinstance(v, Sym) and v.kind == 'binop' and v.args[0] == 'Add':
        a, b = v.args[1], v.args[2]
        if a == Sym('start') and isinstance(b, int):
            return b
        if b == Sym('start') and isinstance(a, int):
            return a
    return None


PARSE_SITES = [
    # (kind, group parsed, present groups, prefix lines (kind, present))
    ('assign', 'expr', (), []),
    ('if', 'expr', (), []),
    ('elif', 'expr', (), [('if', ())]),
    ('while', 'expr', (), []),
    ('for', 'values', (), []),
    ('for', 'values', ('index',), []),
    ('jump', 'expr', ('expr',), []),
    ('return', 'expr', ('expr',), []),
    ('expr', None, (), []),
]


def check_positions(chk, pm):
    for kind, gname, present, prefix in PARSE_SITES:
        for ctx in ('global', 'function', 'continued'):
            sh = Shape(pm)
            sh.add('comment', '# comment')
            sh.add('expr', 'ok()')
            if ctx == 'function':
                sh.add('function', 'function f():')
            for pk, pp in prefix:
                sh.add(pk, pk, pp)
            if ctx == 'continued':
                # the statement is spread over three physical lines (with a comment in between): errors must name the FIRST one
                first = sh.add('expr', 'first part ' + chr(92))
                sh.lines[first].cont = 'text'
                sh.add('comment', '# inside')
                mid = sh.add('expr', 'second part ' + chr(92))
                sh.lines[mid].cont = 'text'
            lid = sh.add(kind, f'<{kind} with a syntax error in its expression>', present)
            target_line = sh.lines[lid]
            want_ix = first if ctx == 'continued' else lid

            def fail(x, lid=lid):
                return (isinstance(x, Sym) and x.kind == 'group' and x.args[2] == lid) or (isinstance(x, ALine) and x.lid == lid)
            if ctx == 'continued' and kind == 'elif':
                continue
            st, val, it = pm.lower(sh.lines, fail_parse=fail)
            where = f'{kind}{"(" + ",".join(present) + ")" if present else ""} [{ctx}]'
            if st != 'error':
                chk.bad('C06.P', pm.mod, 'parse_script', f'{kind}: syntax error in its expression is swallowed',
                        f'a {kind} statement whose expression does not parse is accepted', detail={'context': ctx})
                continue
            if val.cls != 'BareScriptParserError':
                chk.bad('C06.E', pm.mod, 'parse_script', f'{kind}: {val.cls}', f'a syntax error in the expression of a {kind} statement raises {val.cls}', node=val.node)
                continue
            a = val.args_
            problems = []
            if len(a) < 4:
                problems.append(('C06.P', f'{kind}: error not re-raised with line and line number',
                                 f'a syntax error inside the expression of a {kind} statement surfaces without the statement\'s line / line number '
                                 f'({len(a)} of 4 arguments: the inner error escapes with the bare sub-expression as text and a column relative to it)'))
            else:
                if a[0] != Sym('inner-error'):
                    problems.append(('C06.P', f'{kind}: error description replaced', 'the re-raised error does not carry the inner error description'))
                if not (isinstance(a[1], ALine) and a[1].lid == lid):
                    problems.append(('C06.P', f'{kind}: error line is not the statement line', f'the error text is {a[1]!r}, not the full logical line of the statement'))
                ix = lineno_index(a[3])
                if ix != want_ix:
                    problems.append(('C06.N', f'{kind}: line number' + (' of a continued statement' if ctx == 'continued' else ''),
                                     f'the reported line number is {a[3]!r}; expected start_line_number + {want_ix} (index of the FIRST physical line of the logical line)'))
                col = lin(a[2])
                problems += check_column(pm, target_line, gname, col, kind)
            for rule, cons, what in problems:
                chk.bad(rule, pm.mod, 'parse_script', cons, what + f' [context: {ctx}]', node=val.node)
            if not problems:
                chk.ok('C06.P', f'{where}: inner syntax error re-raised with the full line, line number start+{lid}, column {fmt_lin(lin(a[2]))}')


def fmt_lin(col):
    parts = []
    for k, c in sorted(col.items(), key=lambda kv: str(kv[0])):
        name = k if isinstance(k, (str, int)) else ''.join(str(x) if i == 0 else f'[{x}]' for i, x in enumerate(k))
        parts.append(f'{"+" if c > 0 else "-"}{"" if abs(c) == 1 or k == 1 else abs(c)}{"" if k == 1 and False else ""}{abs(c) if k == 1 else name}')
    return ' '.join(parts)


def check_column(pm, line, gname, col, kind):
    """validate the linear column form against the regex structure"""
    problems = []
    if col.get('errcol') != 1:
        return [('C06.C', f'{kind}: column ignores the inner column', f'the column {fmt_lin(col)} does not add the expression-relative column of the inner error')]
    rest = {k: c for k, c in col.items() if k != 'errcol'}
    if gname is None:
        if rest:
            problems.append(('C06.C', f'{kind}: column offset', f'for an expression statement the sub-expression is the line itself; the column must be passed through unchanged, found {fmt_lin(col)}'))
        return problems
    rx = pm.regexes[line.regex]
    unknown = [k for k in rest if isinstance(k, tuple) and k[0] in ('?', 'len(?)')]
    if unknown:
        raise Unrecognised('C06.C', f'{kind}: column expression not understood: {fmt_lin(col)}', pm.mod.rel)
    if rest == {('start(group)', gname): 1}:
        return problems                                   # match.start(group) + inner column: exact by definition
    starts = [k for k in rest if isinstance(k, tuple) and k[0] == 'start(group)']
    lens = {k: c for k, c in rest.items() if isinstance(k, tuple) and k[0] == 'len(group)'}
    const = rest.get(1, 0)
    if starts:
        problems.append(('C06.C', f'{kind}: column uses the start of another group', f'column {fmt_lin(col)} uses match.start of {starts}, not of the parsed group {gname!r}'))
        return problems
    if lens.get(('len(group)', gname)) != -1:
        problems.append(('C06.C', f'{kind}: column arithmetic', f'column {fmt_lin(col)}: expected len(span) - len({gname}) - k + inner column'))
        return problems
    span = None
    if rest.get(('len(line)',)) == 1:
        span = None
    else:
        spans = [k[1] for k, c in lens.items() if c == 1]
        if len(spans) != 1:
            problems.append(('C06.C', f'{kind}: column arithmetic', f'column {fmt_lin(col)}: no enclosing span length'))
            return problems
        span = spans[0]
    try:
        lo, hi = rx.suffix_gap(gname, span)
    except Unrecognised as exc:
        return [('C06.C', f'{kind}: column span', f'{exc.what}')]
    if span is not None:
        plo, phi = rx.prefix_gap(span, None)
        if (plo, phi) != (0, 0):
            problems.append(('C06.C', f'{kind}: span does not start at the line start', f'column {fmt_lin(col)} measures from the end of group {span!r}, which does not start at column 1'))
    if lo != hi:
        problems.append(('C06.C', f'{kind}: group does not end at a fixed distance from the end of {span or "the line"}',
                         f'column {fmt_lin(col)} assumes group {gname!r} ends exactly {-const} characters before the end of {span or "the line"}, but regex {line.regex} allows '
                         f'{lo}..{"unbounded" if hi >= MAXREPEAT else hi} characters after it (e.g. trailing blanks are not part of the group): column and caret shift right'))
    elif -const != lo:
        problems.append(('C06.C', f'{kind}: constant offset', f'column {fmt_lin(col)} subtracts {-const}; regex {line.regex} puts exactly {lo} characters between the end of '
                         f'{gname!r} and the end of {span or "the line"}'))
    return problems


# --------------------------------------------------------------------------- C06.N on the error shapes

EXPECT_OFFENDER = {
    # description -> index (into the shape's own lines) of the line that must be reported
    'if left open at end of input': 0, 'while left open at end of input': 1, 'for left open at end of input': 0,
    'function left open at end of input': 0, 'if left open inside a function at end of input': 1,
    'endfunction with a construct still open inside the function': 1, 'endfunction with an if still open inside the function': 1,
}


def check_error_reports(chk, pm):
    for desc, lines in c01.ERROR_SHAPES:
        sh = Shape(pm)
        sh.add('comment', '# c')
        sh.add('comment', '')
        base = len(sh.lines)
        for ln in lines:
            sh.add(ln[0], ln[0])
        st, val, it = pm.lower(sh.lines)
        if st != 'error':
            chk.bad('C06.U', pm.mod, 'parse_script', f'{desc}: accepted', f'ill-formed input ({desc}) is accepted silently', detail={'lines': sh.src})
            continue
        if val.cls != 'BareScriptParserError':
            chk.bad('C06.E', pm.mod, 'parse_script', f'{desc}: {val.cls}', f'ill-formed input ({desc}) raises {val.cls} instead of BareScriptParserError', node=val.node)
            continue
        a = val.args_
        if len(a) < 4 or not isinstance(a[1], ALine):
            chk.bad('C06.N', pm.mod, 'parse_script', f'{desc}: error without line / line number', f'{desc}: the error does not carry the source line and its number ({a!r})'[:300], node=val.node)
            continue
        ix = lineno_index(a[3])
        lid = a[1].lid
        want = EXPECT_OFFENDER.get(desc)
        if ix != lid:
            chk.bad('C06.N', pm.mod, 'parse_script', f'{desc}: line number does not match the reported line',
                    f'{desc}: the error shows line {lid} of the input but reports number {a[3]!r} (expected start_line_number + {lid})', node=val.node)
        elif want is not None and lid != base + want:
            chk.bad('C06.N', pm.mod, 'parse_script', f'{desc}: wrong line reported', f'{desc}: the error must point at the opener of the unterminated block (input line {base + want}), it points at line {lid}', node=val.node)
        elif want is None and lid < base:
            chk.bad('C06.N', pm.mod, 'parse_script', f'{desc}: comment line reported', f'{desc}: the error points at a comment line', node=val.node)
        elif not (isinstance(a[2], int) and a[2] >= 1):
            chk.bad('C06.N', pm.mod, 'parse_script', f'{desc}: column', f'{desc}: column {a[2]!r} is not a 1-based column inside the line', node=val.node)
        else:
            chk.ok('C06.N', f'{desc}: error names input line {lid} with number start+{ix}, column {a[2]}')


# --------------------------------------------------------------------------- continuation

def check_continuation(chk, pm):
    def mk(specs):
        sh = Shape(pm)
        for kind, cont in specs:
            lid = sh.add(kind, f'{kind}{" " + chr(92) if cont else ""}')
            sh.lines[lid].cont = cont
        return sh
    scen = [
        ('statement then a line ending in a continuation at end of input', [('expr', None), ('assign', 'text')], 'error', 1),
        ('lone backslash as the last line', [('expr', None), ('expr', 'blank')], 'error', 1),
        ('continuation followed only by comment lines', [('assign', 'text'), ('comment', None), ('comment', None)], 'error', 0),
        ('two continuation parts then end of input', [('expr', 'text'), ('expr', 'text')], 'error', 0),
        ('continued statement', [('expr', 'text'), ('expr', None)], 'ok', 1),
        ('continued statement with a comment inside', [('assign', 'text'), ('comment', None), ('expr', 'text'), ('assign', None)], 'ok', 1),
        ('lone backslash then a statement', [('expr', 'blank'), ('expr', None)], 'ok', 1),
        ('comment ending in a backslash does not start a continuation', [('comment', 'text'), ('expr', None)], 'ok', 1),
    ]
    for desc, specs, want, n in scen:
        sh = mk(specs)
        try:
            st, val, it = pm.lower(sh.lines)
        except Unrecognised as exc:
            raise Unrecognised('C06.U', f'continuation scenario "{desc}" not interpretable: {exc.what}', exc.where)
        if want == 'error':
            if st == 'error' and val.cls == 'BareScriptParserError':
                a = val.args_
                ix = lineno_index(a[3]) if len(a) > 3 else None
                if ix == n:
                    chk.ok('C06.U', f'{desc}: rejected, reported at the first physical line of the unterminated statement (start+{ix})')
                else:
                    chk.bad('C06.N', pm.mod, 'parse_script', f'{desc}: line number', f'{desc}: reported line number {a[3] if len(a) > 3 else None!r}, expected start_line_number + {n}', node=val.node)
            elif st == 'error':
                chk.bad('C06.E', pm.mod, 'parse_script', f'{desc}: {val.cls}', f'{desc}: raises {val.cls}', node=val.node)
            else:
                chk.bad('C06.U', pm.mod, 'parse_script', f'{desc}: accepted', f'{desc}: the pending continuation is dropped silently and the input is accepted '
                        f'(emitted {len(reify(val)["statements"]) if val is not None else "?"} statements)', detail={'lines': sh.src})
        else:
            if st != 'ok':
                chk.bad('C06.D', pm.mod, 'parse_script', f'{desc}: rejected', f'{desc}: a well-formed continued statement is rejected ({val.cls}: {val.args_[:1]})', node=val.node)
                continue
            stmts = reify(val)['statements']
            if len(stmts) == n:
                chk.ok('C06.D', f'{desc}: {n} logical statement emitted')
            else:
                chk.bad('C06.D', pm.mod, 'parse_script', f'{desc}: {len(stmts)} statements', f'{desc}: expected {n} statement(s) for the logical lines, the model has {len(stmts)} (a line was dropped or split)')


# --------------------------------------------------------------------------- accounting / escape sweep

SIMPLE = [('assign', ()), ('label', ()), ('jump', ()), ('jump', ('expr',)), ('return', ()), ('return', ('expr',)), ('expr', ()), ('include', ()), ('include', (), 1)]


def check_sweep(chk, pm):
    n_inc = len(pm.kind_regex.get('include', []))
    contexts = {
        'first line of the script': [],
        'after a statement': [('expr', ())],
        'first line of a function body': [('function', ())],
        'inside a function after a statement': [('function', ('args',)), ('assign', ())],
        'inside an open if': [('if', ())],
        'inside a loop inside a function': [('function', ()), ('while', ())],
        'after an include': [('include', ())],
    }
    closers = {'function': 'endfunction', 'if': 'endif', 'while': 'endwhile', 'for': 'endfor'}
    for cname, pre in contexts.items():
        for spec in SIMPLE:
            kind, present = spec[0], spec[1]
            rix = spec[2] if len(spec) > 2 else 0
            if kind == 'include' and rix >= n_inc:
                continue
            sh = Shape(pm)
            for pk, pp in pre:
                sh.add(pk, pk, pp)
            lid = sh.add(kind, kind, present, regex_ix=rix)
            for pk, _pp in reversed(pre):
                if pk in closers:
                    sh.add(closers[pk], closers[pk])
            desc = f'{kind}{"(" + ",".join(present) + ")" if present else ""}{"#%d" % rix if rix else ""} as {cname}'
            try:
                st, val, it = pm.lower(sh.lines)
            except Unrecognised as exc:
                if 'is not a group of' in exc.what:
                    chk.bad('C06.E', pm.mod, 'parse_script', exc.what[:120], f'{desc}: {exc.what}: match.group() with a name the regex does not define raises IndexError')
                    continue
                raise
            if st == 'error':
                if val.cls == 'BareScriptParserError':
                    chk.bad('C06.D', pm.mod, 'parse_script', f'{desc}: rejected', f'{desc}: a well-formed statement is rejected: {val.args_[:1]}', node=val.node)
                else:
                    chk.bad('C06.E', pm.mod, 'parse_script', f'{kind} as {cname}: {val.cls}',
                            f'{desc}: the parser raises {val.cls}{val.args_!r} - a host exception instead of a model or BareScriptParserError', node=val.node)
                continue
            model = reify(val)
            total = count_statements(model)
            # openers/closers of the context emit statements too: compare with the same context without the statement
            sh0 = Shape(pm)
            for pk, pp in pre:
                sh0.add(pk, pk, pp)
            for pk, _pp in reversed(pre):
                if pk in closers:
                    sh0.add(closers[pk], closers[pk])
            st0, val0, _ = pm.lower(sh0.lines)
            base = count_statements(reify(val0)) if st0 == 'ok' else 0
            merged = kind == 'include' and pre and pre[-1][0] == 'include'
            if total - base == 1:
                chk.ok('C06.D', f'{desc}: accounted for by {"one entry of the merged include statement" if merged else "exactly one emitted statement"}')
            else:
                chk.bad('C06.D', pm.mod, 'parse_script', f'{kind} as {cname}: {total - base} statements', f'{desc}: the line contributes {total - base} statements to the model (expected 1)')


def count_statements(model):
    n = 0
    for s in model.get('statements', []):
        n += 1
        if isinstance(s, dict) and isinstance(s.get('function'), dict):
            n += len(s['function'].get('statements', []))
        if isinstance(s, dict) and isinstance(s.get('include'), dict):
            n += len(s['include'].get('includes', [])) - 1
    return n


def check_group_names(chk, pm):
    """every .group(<const>) / .start(<const>) on a match variable names a group of the regex it came from"""
    mod = pm.mod
    n = 0
    for fname in ('parse_script', '_parse_unary_expression', '_parse_binary_expression', 'parse_expression', '_parse_statement_expression'):
        if fname not in mod.funcs:
            continue
        func = mod.funcs[fname]
        match_rx = {}
        for node in walk_no_nested(func):
            if isinstance(node, ast.Assign) and isinstance(node.targets[0], ast.Name):
                rn = [c.func.value.id for c in ast.walk(node.value) if isinstance(c, ast.Call) and isinstance(c.func, ast.Attribute) and c.func.attr == 'match'
                      and isinstance(c.func.value, ast.Name) and c.func.value.id in pm.regexes]
                if rn:
                    match_rx.setdefault(node.targets[0].id, set()).update(rn)
        for node in walk_no_nested(func):
            if isinstance(node, ast.Call) and isinstance(node.func, ast.Attribute) and node.func.attr in ('group', 'start', 'end', 'span') \
                    and isinstance(node.func.value, ast.Name) and node.func.value.id in match_rx and node.args and isinstance(node.args[0], ast.Constant):
                g = node.args[0].value
                for rn in match_rx[node.func.value.id]:
                    rx = pm.regexes[rn]
                    n += 1
                    ok = (g == 0) or (isinstance(g, int) and g <= rx.ngroups) or (isinstance(g, str) and g in rx.group_names())
                    if ok:
                        chk.ok('C06.E', f'{fname}: {norm(node)} is a group of {rn}', trivial=(g == 0))
                    else:
                        chk.bad('C06.E', mod, fname, f'{norm(node)} on {rn}', f'{norm(node)}: regex {rn} has no group {g!r}: the call raises IndexError for every line this statement form matches', node=node)
    if n < 30:
        raise Unrecognised('C06.E', f'only {n} match.group() calls found', mod.rel)


def check_number_regex(chk, pm):
    from ..exprsim import classify_expr_regexes
    rxs = classify_expr_regexes(pm.mod)
    num = [r for n, (k, r) in rxs.items() if k == 'number']
    if len(num) != 1:
        raise Unrecognised('C06.E', 'number regex not identified', pm.mod.rel)
    g = num[0].group_node(1)
    alphabet = ['5', '+', '-', '.', 'e', 'E', 'x', '_', ' ']
    a = Lang(g.kids[0], alphabet)
    b = Lang(parse_tree(r'[+-]?(?:\d+(?:\.\d*)?|\.\d+)(?:[eE][+-]?\d+)?'), alphabet)
    # vacuity guard: the inclusion engine must reject a synthetic counter-example on every run
    neg_ok, _ = included(Lang(parse_tree(r'\d+x?'), alphabet), b)
    if neg_ok or not a.accepts('5.5e+5') or not b.accepts('5.5e+5'):
        raise Unrecognised('C06.E', 'automata engine self-check failed (synthetic non-inclusion not detected)', pm.mod.rel)
    ok, cex = included(a, b)
    if ok:
        chk.ok('C06.E', f'every text matched by the number literal regex group is accepted by float() (language inclusion over {len(alphabet)} representative characters)')
    else:
        chk.bad('C06.E', pm.mod, num[0].name, f'number regex admits {cex!r}', f'the number literal regex matches {cex!r} (representative text), which float() rejects with ValueError: a host exception escapes the parser')


# --------------------------------------------------------------------------- C06.A caret algebra

class Lin:
    """linear form over symbols n (= len(line)), c (= column) and 1"""

    def __init__(self, d=None):
        self.d = {k: v for k, v in (d or {}).items() if v != 0}

    def __add__(self, o):
        o = _lin(o)
        out = dict(self.d)
        for k, v in o.d.items():
            out[k] = out.get(k, 0) + v
        return Lin(out)

    def __sub__(self, o):
        o = _lin(o)
        return self + Lin({k: -v for k, v in o.d.items()})

    def __neg__(self):
        return Lin({k: -v for k, v in self.d.items()})

    def const(self):
        return self.d.get(1, 0) if set(self.d) <= {1} else None

    def __eq__(self, o):
        return self.d == _lin(o).d

    def __repr__(self):
        return ' + '.join(f'{v}*{k}' for k, v in self.d.items()) or '0'


def _lin(x):
    return x if isinstance(x, Lin) else Lin({1: x})


def check_positions_sim(chk, rule='C06.Q'):
    from ..parsesim import run_error_positions
    n, problems = run_error_positions(chk.repo, chk.tier, rule)
    mod = chk.repo.module('parser')
    by = {}
    for k, m in problems:
        by.setdefault(k, []).append(m)
    for k, ms in by.items():
        chk.bad(rule, mod, 'parse_script', f'{k}: {ms[0][:100]}', f'evaluation of parse_script on {n} faulty programs: {ms[0][:500]} ({len(ms)} deviations of this kind)', node=mod.funcs.get('parse_script'))
    if not problems:
        chk.ok(rule, f'{n} faulty programs (one faulty expression in every expression position of if / elif / while / for / return / assignment / call argument / expression statement, '
               f'with prepended lines, a start line number and extra indentation; deleted closing keywords; final continuation backslash): documented parser errors with exact line text '
               f'and number and a column inside the faulty expression', count=n)
    return not problems


def check_caret_sim(chk, pm):
    """C06.A primary: BareScriptParserError.__init__ evaluated on lines of length 0 .. 400 with the fault at every column: the error keeps the text, column and line number it
    was given, and the caret of the formatted message sits under the character line[column - 1] of the displayed (possibly elided) line -> True when decided OK"""
    from ..absint import Interp, AObj, RaiseSig
    mod = pm.mod
    func = mod.funcs.get('BareScriptParserError.__init__')
    if func is None:
        raise Unrecognised('C06.A', 'BareScriptParserError.__init__ not found', mod.rel)
    it = Interp(mod, 'C06.A')
    it.repo = chk.repo
    lengths = [0, 1, 5, 60, 119, 120, 121, 122, 180, 181, 239, 240, 241, 300, 400]
    n = 0
    lines = [''.join(chr(0x4E00 + i) for i in range(L)) for L in lengths]
    lines += [''.join(chr(0x4E00 + i) for i in range(L - 3)) + ' \t ' for L in (5, 60, 181)] + ['  ' + ''.join(chr(0x4E00 + i) for i in range(30)) + '  ']      # blanks at the ends are text too
    for line in lines:
        L = len(line)
        cols = range(1, L + 2) if (chk.tier == 'thorough' or L <= 122) else sorted(set(list(range(1, 70)) + list(range(L - 70, L + 2)) + list(range(1, L + 2, 7))))
        for col in cols:
            for lineno, prefix in ((7, None), (None, 'Included from "x"')):
                n += 1
                obj = AObj('BareScriptParserError')
                it.current_self = obj
                it.depth = 0
                try:
                    it.call_function(func, [obj, 'Syntax error', line, col, lineno, prefix], func)
                except RaiseSig as sig:
                    chk.bad('C06.A', mod, 'BareScriptParserError.__init__', f'raises {sig.cls} for a line of {L} characters, column {col}',
                            f'constructing the error for a line of {L} characters with the fault at column {col} raises {sig.cls}', node=func)
                    return False
                msg = obj.attrs.get('args', (None,))[0] if obj.attrs.get('args') else None
                if not isinstance(msg, str):
                    raise Unrecognised('C06.A', f'the constructor does not pass a text message to the base class ({msg!r})', mod.rel)
                a = obj.attrs
                if any(isinstance(a.get(k), Sym) for k in ('line', 'column_number', 'line_number', 'error')):
                    raise Unrecognised('C06.A', f'the constructor stores an unmodelled value ({a!r})'[:160], mod.rel)
                if a.get('line') != line or a.get('column_number') != col or a.get('line_number') != lineno or a.get('error') != 'Syntax error':
                    chk.bad('C06.A', mod, 'BareScriptParserError.__init__', f'attributes for a line of {L} characters, column {col}',
                            f'the error does not carry what it was given: error={a.get("error")!r}, len(line)={len(a.get("line")) if isinstance(a.get("line"), str) else a.get("line")!r} '
                            f'(given {L}), column_number={a.get("column_number")!r} (given {col}), line_number={a.get("line_number")!r} (given {lineno!r})', node=func)
                    return False
                rows = msg.split('\n')
                carets = [i for i, r in enumerate(rows) if r.strip() == '^' and r.rstrip() == r.rstrip(' ')]
                if len(carets) != 1 or carets[0] == 0:
                    raise Unrecognised('C06.A', f'the formatted message has no single caret line: {msg[:80]!r}', mod.rel)
                shown = rows[carets[0] - 1]
                pos = rows[carets[0]].index('^')
                ok = (pos < len(shown) and shown[pos] == line[col - 1]) if col <= L else (L == 0 and pos == 0) or (pos >= 1 and pos - 1 < len(shown) and shown[pos - 1] == line[L - 1])
                if not ok:
                    under = shown[pos] if pos < len(shown) else '<past the end>'
                    chk.bad('C06.A', mod, 'BareScriptParserError.__init__', f'caret for a line of {L} characters, fault at column {col}',
                            f'for a line of {L} characters with the fault at column {col} the caret of the formatted message sits at position {pos + 1} of the displayed line, under character '
                            f'#{(ord(under) - 0x4E00 + 1) if len(under) == 1 and ord(under) >= 0x4E00 else under} of the line instead of #{col}', node=func)
                    return False
                if len(shown) > 140:
                    chk.bad('C06.A', mod, 'BareScriptParserError.__init__', f'line of {L} characters shown in full', f'a line of {L} characters is displayed in {len(shown)} characters: long lines are elided around the fault', node=func)
                    return False
    chk.ok('C06.A', f'{n} constructions evaluated (lines of 0 .. 400 characters, the fault at every column incl. one past the end, with and without line number / prefix): the error keeps '
           f'text, column and line number; the caret sits under the same character of the displayed line in all three elision cases', count=n)
    return True


def check_caret(chk, pm):
    mod = pm.mod
    func = mod.funcs.get('BareScriptParserError.__init__')
    if func is None:
        raise Unrecognised('C06.A', 'BareScriptParserError.__init__ not found', mod.rel)
    params = [a.arg for a in func.args.args]
    line_p, col_p = params[2], params[3]
    env = {}
    consts = {}

    def ev(e):
        if isinstance(e, ast.Constant) and isinstance(e.value, int):
            return Lin({1: e.value})
        if isinstance(e, ast.Constant) and isinstance(e.value, str):
            return ('str', e.value)
        if isinstance(e, ast.Name):
            if e.id == col_p:
                return Lin({'c': 1})
            if e.id in env:
                return env[e.id]
            raise Unrecognised('C06.A', f'unknown name {e.id} in the constructor', mod.rel)
        if isinstance(e, ast.Call) and call_name(e) == 'len' and len(e.args) == 1:
            a = e.args[0]
            if isinstance(a, ast.Name) and a.id == line_p:
                return Lin({'n': 1})
            v = ev(a)
            if isinstance(v, tuple) and v[0] == 'str':
                return Lin({1: len(v[1])})
            raise Unrecognised('C06.A', f'len() of {norm(a)}', mod.rel)
        if isinstance(e, ast.Call) and call_name(e) == 'int' and len(e.args) == 1:
            return ev(e.args[0])
        if isinstance(e, ast.BinOp):
            l, r = ev(e.left), ev(e.right)
            if isinstance(e.op, ast.Add) and isinstance(l, Lin) and isinstance(r, Lin):
                return l + r
            if isinstance(e.op, ast.Sub) and isinstance(l, Lin) and isinstance(r, Lin):
                return l - r
            if isinstance(e.op, ast.FloorDiv) and isinstance(l, Lin) and isinstance(r, Lin) and l.const() is not None and r.const():
                return Lin({1: l.const() // r.const()})
            if isinstance(e.op, ast.Add):
                return ('concat', l, r)
        if isinstance(e, ast.UnaryOp) and isinstance(e.op, ast.USub):
            v = ev(e.operand)
            if isinstance(v, Lin):
                return -v
        if isinstance(e, ast.Subscript) and isinstance(e.value, ast.Name) and e.value.id == line_p and isinstance(e.slice, ast.Slice):
            lo = ev(e.slice.lower) if e.slice.lower is not None else Lin({1: 0})
            hi = ev(e.slice.upper) if e.slice.upper is not None else Lin({'n': 1})
            if isinstance(lo, Lin) and lo.const() is not None and lo.const() < 0:
                lo = Lin({'n': 1}) + lo
            if isinstance(hi, Lin) and hi.const() is not None and hi.const() < 0:
                hi = Lin({'n': 1}) + hi
            return ('slice', lo, hi)
        raise Unrecognised('C06.A', f'constructor expression not understood: {norm(e)[:70]}', mod.rel)

    def layout(v):
        """(prefix_len, slice_lo) of a line_error value"""
        parts = []

        def flat(x):
            if isinstance(x, tuple) and x[0] == 'concat':
                flat(x[1])
                flat(x[2])
            else:
                parts.append(x)
        flat(v)
        pre = 0
        for p in parts:
            if isinstance(p, tuple) and p[0] == 'str':
                pre += len(p[1])
            elif isinstance(p, tuple) and p[0] == 'slice':
                return pre, p[1], p[2]
            else:
                raise Unrecognised('C06.A', 'line_error layout not understood', mod.rel)
        raise Unrecognised('C06.A', 'line_error has no slice of the line', mod.rel)

    # the error carries the line's text: the line parameter is never replaced by an altered text (callers compute columns from len(error.line))
    for s in ast.walk(func):
        if isinstance(s, (ast.Assign, ast.AugAssign)) and any(isinstance(t, ast.Name) and t.id == line_p for t in (s.targets if isinstance(s, ast.Assign) else [s.target])):
            v = s.value
            if isinstance(v, ast.Call) and isinstance(v.func, ast.Attribute) and v.func.attr in ('strip', 'rstrip', 'lstrip') and not v.args \
                    and isinstance(v.func.value, ast.Name) and v.func.value.id == line_p:
                chk.bad('C06.A', mod, 'BareScriptParserError.__init__', norm(s)[:80],
                        f'the constructor replaces the line it is given by {norm(v)}: the error no longer carries the line\'s text, and the expression parser\'s column arithmetic '
                        f'(len(text) - len(error.line) + 1) and the caret shift by the characters removed', node=s)
                return
            raise Unrecognised('C06.A', f'the constructor reassigns its line parameter: {norm(s)[:70]}', mod.rel)
    # straight-line prefix
    trim_if = None
    err_var = col_var = None
    for s in func.body:
        if isinstance(s, ast.Expr):
            continue
        if isinstance(s, ast.Assign) and isinstance(s.targets[0], ast.Name):
            t = s.targets[0].id
            if isinstance(s.value, ast.Name) and s.value.id == line_p:
                err_var = t
                env[t] = ('slice', Lin({1: 0}), Lin({'n': 1}))
            else:
                try:
                    env[t] = ev(s.value)
                except Unrecognised:
                    if trim_if is not None:
                        break
                    raise
                if isinstance(s.value, ast.Name) and s.value.id == col_p:
                    col_var = t
        elif isinstance(s, ast.If) and trim_if is None and 'len' in norm(s.test):
            trim_if = s
            break
    if trim_if is None or err_var is None or col_var is None:
        raise Unrecognised('C06.A', 'elision block (if len(line) > max) not found', mod.rel)

    branches = []

    def walk(stmts, env_local, conds):
        e2 = dict(env_local)
        saved = dict(env)
        env.clear()
        env.update(e2)
        try:
            for s in stmts:
                if isinstance(s, ast.Assign) and isinstance(s.targets[0], ast.Name):
                    env[s.targets[0].id] = ev(s.value)
                elif isinstance(s, ast.AugAssign) and isinstance(s.target, ast.Name) and isinstance(s.op, ast.Sub):
                    env[s.target.id] = env[s.target.id] - ev(s.value)
                elif isinstance(s, ast.AugAssign) and isinstance(s.target, ast.Name) and isinstance(s.op, ast.Add):
                    env[s.target.id] = env[s.target.id] + ev(s.value)
                elif isinstance(s, ast.If):
                    cur = dict(env)
                    walk(s.body, cur, conds + [norm(s.test)])
                    walk(s.orelse, cur, conds + ['not (' + norm(s.test) + ')'])
                    return
                else:
                    raise Unrecognised('C06.A', f'statement in the elision block not understood: {norm(s)[:60]}', mod.rel)
            branches.append((conds, dict(env)))
        finally:
            env.clear()
            env.update(saved)
    walk(trim_if.body, dict(env), [norm(trim_if.test)])
    if len(branches) < 3:
        raise Unrecognised('C06.A', f'{len(branches)} elision branches found, expected 3', mod.rel)
    for conds, e in branches:
        pre, lo, hi = layout(e[err_var])
        got = e[col_var]
        want = Lin({'c': 1}) - lo + Lin({1: pre})
        name = ' and '.join(conds[1:])[:90]
        if got == want:
            chk.ok('C06.A', f'elision branch [{name}]: line_error = {pre} prefix chars + line[{lo}:{hi}], caret column = {got} => points at line[column-1]')
        else:
            chk.bad('C06.A', mod, 'BareScriptParserError.__init__', f'branch [{name}]: caret column {got}',
                    f'in the elision branch [{name}] the displayed text is {pre} prefix characters + line[{lo}:{hi}]; the caret must be placed at column {want} '
                    f'(so that it sits under line[column-1]) but is placed at {got}', node=trim_if)


def run(chk):
    from .c01 import _share_layout
    _share_layout(chk)
    chk.rule('C06.P', 'position fixing: inner syntax errors are re-raised with full line, line number and column', floor=20)
    chk.rule('C06.C', 'column arithmetic agrees with the regex structure')
    chk.rule('C06.N', 'line numbers: start + first physical index of the reported logical line', floor=25)
    chk.rule('C06.U', 'blocks / continuations pending at end of input are rejected', floor=3)
    chk.rule('C06.D', 'every statement form is accounted for by the model (no dropped or duplicated line)', floor=50)
    chk.rule('C06.E', 'only BareScriptParserError escapes; group names exist; number regex within float()', floor=30)
    chk.rule('C06.X', 'expression-parser error texts are suffixes of the input (shared with C02.X)', floor=4)
    chk.rule('C06.A', 'caret placement under elision (algebraic identity per branch)', floor=3)
    chk.assumptions += ['recursion depth of the expression parser is linear in line length / nesting (inside the bounds of the quantifier)',
                        'regex engine semantics are CPython\'s; start_line_number is an integer']
    chk.rule('C06.Q', 'parse_script and parse_expression evaluated (E6p) on programs with one faulty expression in every statement form: BareScriptParserError with the text of the faulty '
             'line, a column inside the faulty expression, the 1-based line number; prepended lines, a start line and indentation move the position by exactly their amount; open blocks, '
             'deleted closers and a final continuation backslash are rejected', floor=100)
    pos_ok = chk.guard('C06.Q', check_positions_sim, chk)
    pm = ParserModel(chk.repo, 'C06.P')
    # the abstract-line engines below decide the same clauses for every line shape (trailing blanks, empty continuation parts, every regex group): they stay armed - the concrete
    # samples above are an additional, independent reading, not yet rich enough to take their place (tried: 12 seeded changes were then missed)
    chk.guard('C06.P', check_positions, chk, pm)
    from .c10 import check_no_splitlines
    chk.guard('C06.N', check_no_splitlines, chk, pm, 'C06.N')
    chk.guard('C06.N', check_error_reports, chk, pm)
    chk.guard('C06.U', check_continuation, chk, pm)
    chk.guard('C06.D', check_sweep, chk, pm)
    chk.guard('C06.E', check_group_names, chk, pm)
    chk.guard('C06.E', check_number_regex, chk, pm)
    if chk.guard('C06.A', check_caret_sim, chk, pm):
        chk.advisory('C06.A', check_caret, chk, pm)
    else:
        chk.guard('C06.A', check_caret, chk, pm)
    from . import c02
    before = len(chk.instances)
    chk.guard('C06.X', c02.check_error_texts, chk, pm.mod)
