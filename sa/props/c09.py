"""C09 - the statement budget is exact, complete and monotone."""
import ast

from ..core import Unrecognised, call_name, const_str, norm, walk_no_nested, if_chain, subscript_key
from ..cfg import CFG, no_exc
from ..rt import helper_loop, statement_dispatch
from ..lib import library_functions

EXPLANATION = (
    'The budget is one integer under one key of one dict threaded through every nested execution. C09.D: the '
    'straight-line prefix of the statement loop body (before the dispatch) is evaluated symbolically over c0 = counter at '
    'the start of the statement: after it options[statementCount] must hold c0 + 1, computed from a read made in THIS '
    'iteration (+= 1, or a local read and stored back at once); a store from a local carried across statements is a '
    'cached count and is reported; every counter store of the loop lies in that prefix (so it dominates the dispatch). '
    'C09.T: the abort condition - the conjunction of the (possibly nested) tests guarding the raise, with locals that hold '
    'the count substituted - is evaluated over the finite abstraction (limit zero/positive) x (count <, =, > limit) and '
    'must be true exactly for limit > 0 and count > limit; its true edge raises BareScriptRuntimeError "Exceeded maximum script statements"; the limit comes '
    'from options.get(maxStatements, DEFAULT) with a positive default. C09.W: package-wide, the key statementCount is '
    'stored only by the reset to 0 in execute_script, the increment, and write-backs copy -> original. C09.R: the limit '
    'is read only by the test. C09.I: every call that can execute statements (_execute_script_helper, '
    'evaluate_expression, function values) receives the options object itself, or a copy whose counter is written back '
    'in a finally clause covering the call, with no mixing of copy and original in between; library callbacks pass the '
    'enclosing options unchanged. C09.H: the statement-limit error is re-raised by the call wrapper before the '
    'catch-all, and no other try whose body (transitively, over resolved callees) executes statements has a first-matching '
    'handler for BareScriptRuntimeError that absorbs it. Decides counting completeness/exactness structurally; "effects are a prefix" follows from who-reads and '
    'is not observed.')
ENUMERATION = ('one instance per store of the counter key, per read of the limit, per statement-executing call site '
               '(options identity), per clause of the abort test (6 abstract cases), per library callback call')

KEY = 'statementCount'
LIMIT_KEY = 'maxStatements'
EXEC_CALLEES = {'_execute_script_helper', 'evaluate_expression', 'execute_script'}


def key_stores(mod):
    """all stores to X['statementCount'] in a module: (func_name, stmt, base_text, kind, rhs)"""
    out = []
    for fname, func in list(mod.funcs.items()) + [('<module>', mod.tree)]:
        for n in (walk_no_nested(func) if fname != '<module>' else [x for x in mod.tree.body]):
            if isinstance(n, ast.Assign):
                for t in n.targets:
                    sk = subscript_key(t)
                    if sk and sk[1] == KEY:
                        out.append((fname, n, norm(sk[0]), 'assign', n.value))
            elif isinstance(n, ast.AugAssign):
                sk = subscript_key(n.target)
                if sk and sk[1] == KEY:
                    out.append((fname, n, norm(sk[0]), 'aug', n))
            elif isinstance(n, ast.Call) and isinstance(n.func, ast.Attribute) and n.func.attr in ('update', 'setdefault', 'pop', '__setitem__'):
                if any(const_str(a) == KEY for a in n.args) or any(KEY in norm(a) for a in n.args if isinstance(a, ast.Dict)):
                    out.append((fname, n, norm(n.func.value), 'method:' + n.func.attr, n))
            elif isinstance(n, ast.Delete):
                for t in n.targets:
                    sk = subscript_key(t)
                    if sk and sk[1] == KEY:
                        out.append((fname, n, norm(sk[0]), 'delete', n))
    return out


def _count_expr(e, env, opt, stored):
    """symbolic value of an integer expression in one loop iteration: ('c0', k) = counter at iteration start + k; 'stale'; None"""
    if isinstance(e, ast.Subscript):
        sk = subscript_key(e)
        if sk and sk[1] == KEY and norm(sk[0]) == opt:
            return stored
        return None
    if isinstance(e, ast.Name):
        return env.get(e.id)
    if isinstance(e, ast.BinOp) and isinstance(e.op, (ast.Add, ast.Sub)):
        for x, y in ((e.left, e.right), (e.right, e.left)):
            if isinstance(y, ast.Constant) and isinstance(y.value, int) and not isinstance(y.value, bool) and (isinstance(e.op, ast.Add) or y is e.right):
                v = _count_expr(x, env, opt, stored)
                if isinstance(v, tuple):
                    return ('c0', v[1] + (y.value if isinstance(e.op, ast.Add) else -y.value))
                return v
    return None


def check_dominance(chk):
    mod, func, loop = helper_loop(chk.repo, 'C09.D')
    _m, _f, _l, key_var, sections, chain = statement_dispatch(chk.repo, 'C09.D')
    opt = func.args.args[1].arg if len(func.args.args) > 1 else 'options'
    # the dispatch If as a top-level statement of the loop body
    disp_stmt = chain
    while getattr(disp_stmt, '_parent', None) is not loop and getattr(disp_stmt, '_parent', None) is not None:
        disp_stmt = disp_stmt._parent
    if disp_stmt not in loop.body:
        raise Unrecognised('C09.D', 'statement dispatch is not a top-level statement of the loop body', mod.rel)
    prefix = loop.body[:loop.body.index(disp_stmt)]
    # every store of the counter inside the loop must be in the straight-line prefix
    def is_writeback(st):
        _fn, stmt, base, kind, rhs = st
        return kind == 'assign' and isinstance(rhs, ast.Subscript) and subscript_key(rhs) and subscript_key(rhs)[1] == KEY and norm(subscript_key(rhs)[0]) != base
    loop_stores = [s for s in key_stores(mod) if s[0] == func.name and _inside(s[1], loop) and not is_writeback(s)]
    if not loop_stores:
        chk.bad('C09.D', mod, func.name, 'no increment of the counter in the statement loop', 'the statement loop must increment options[statementCount] once per statement', node=loop)
        return
    for _fn, stmt, base, kind, rhs in loop_stores:
        if stmt not in prefix:
            if any(_inside(stmt, p) for p in prefix) or _inside(stmt, disp_stmt) or any(_inside(stmt, q) for q in loop.body[loop.body.index(disp_stmt):]):
                chk.bad('C09.D', mod, func.name, f'{norm(stmt)} [conditional / late]',
                        'the counter is modified conditionally or after the dispatch has begun: there is a path from the loop head to the execution of a statement '
                        'that does not pass exactly one increment', node=stmt)
                return
            raise Unrecognised('C09.D', f'counter store {norm(stmt)} outside the loop prefix', mod.rel)
    assigned_anywhere = {t.id for n in walk_no_nested(func) for t in (n.targets if isinstance(n, ast.Assign) else [n.target] if isinstance(n, ast.AugAssign) else []) if isinstance(t, ast.Name)}
    env = {}
    stored = ('c0', 0)
    inc_stmts = []
    abort_roots = []
    env_at = {}
    for stmt in prefix:
        if isinstance(stmt, ast.AugAssign):
            sk = subscript_key(stmt.target)
            if sk and sk[1] == KEY:
                if norm(sk[0]) != opt:
                    chk.bad('C09.D', mod, func.name, norm(stmt), f'the increment is applied to {norm(sk[0])}, not to the options object of this invocation ({opt})', node=stmt)
                    return
                if not (isinstance(stmt.op, ast.Add) and isinstance(stmt.value, ast.Constant) and stmt.value.value == 1 and not isinstance(stmt.value.value, bool)):
                    chk.bad('C09.D', mod, func.name, norm(stmt), 'the statement counter must be incremented by exactly 1 per statement', node=stmt)
                    return
                stored = ('c0', stored[1] + 1) if isinstance(stored, tuple) else stored
                inc_stmts.append(stmt)
            elif isinstance(stmt.target, ast.Name):
                cur = env.get(stmt.target.id, 'stale' if stmt.target.id in assigned_anywhere else None)
                if isinstance(cur, tuple) and isinstance(stmt.op, ast.Add) and isinstance(stmt.value, ast.Constant) and isinstance(stmt.value.value, int):
                    env[stmt.target.id] = ('c0', cur[1] + stmt.value.value)
                else:
                    env[stmt.target.id] = 'stale' if cur == 'stale' else None
        elif isinstance(stmt, ast.Assign) and len(stmt.targets) == 1:
            t = stmt.targets[0]
            sk = subscript_key(t)
            if sk and sk[1] == KEY:
                if norm(sk[0]) != opt:
                    chk.bad('C09.D', mod, func.name, norm(stmt), f'the counter store is applied to {norm(sk[0])}, not to the options object of this invocation ({opt})', node=stmt)
                    return
                v = _count_expr(stmt.value, env, opt, stored)
                if v is None and isinstance(stmt.value, ast.Name) and stmt.value.id in assigned_anywhere and stmt.value.id not in env:
                    v = 'stale'
                if v == 'stale' or (v is None and any(isinstance(x, ast.Name) and env.get(x.id, 'stale' if x.id in assigned_anywhere else None) == 'stale' for x in ast.walk(stmt.value))):
                    chk.bad('C09.D', mod, func.name, f'{norm(stmt)} [cached count]',
                            'the counter is overwritten from a local that is carried across statements (read before this statement started): statements executed by nested '
                            'invocations (function calls, includes, callbacks) since then are forgotten - the increment must be a read-modify-write on the shared dict', node=stmt)
                    return
                if v is None:
                    raise Unrecognised('C09.D', f'counter store {norm(stmt)} not understood', mod.rel)
                stored = v
                inc_stmts.append(stmt)
            elif isinstance(t, ast.Name):
                env[t.id] = _count_expr(stmt.value, env, opt, stored)
        elif isinstance(stmt, ast.If) and any(isinstance(x, ast.Raise) for x in ast.walk(stmt)):
            abort_roots.append(stmt)
            env_at[id(stmt)] = (dict(env), stored)
    if stored == ('c0', 1):
        chk.ok('C09.D', f'the loop prefix stores counter-at-statement-start + 1 into {opt}[statementCount] ({"; ".join(norm(s) for s in inc_stmts)}): read-modify-write within the statement')
        chk.ok('C09.D', 'the increment is a top-level statement of the loop body before the dispatch (dominates every statement execution)')
    else:
        chk.bad('C09.D', mod, func.name, f'counter after the loop prefix = start {stored[1]:+d}' if isinstance(stored, tuple) else f'counter {stored}',
                'each started statement must add exactly 1 to the counter before it is dispatched', node=inc_stmts[0] if inc_stmts else loop)
        return
    chk.c09_inc_stores = {id(s) for s in inc_stmts}
    # abort test: the raise reached under a conjunction of (possibly nested) tests
    aborts = []
    for root in abort_roots:
        for r in ast.walk(root):
            if isinstance(r, ast.Raise) and (KEY in norm(root) or 'Exceeded' in norm(r) or LIMIT_KEY in norm(root)):
                conds = []
                child, cur = r, getattr(r, '_parent', None)
                ok = True
                while cur is not None:
                    if isinstance(cur, ast.If):
                        conds.append((cur.test, any(child is s for s in cur.body)))
                    elif cur is not root and not isinstance(cur, ast.If):
                        ok = False
                    if cur is root:
                        break
                    child, cur = cur, getattr(cur, '_parent', None)
                if ok:
                    aborts.append((root, r, conds))
    if len(aborts) != 1:
        chk.bad('C09.T', mod, func.name, f'{len(aborts)} limit tests in the statement loop prefix',
                'the statement loop must contain exactly one test of the counter against the limit whose true edge raises, after the increment and before the dispatch', node=loop)
        return
    root, r, conds = aborts[0]
    if inc_stmts and prefix.index(root) > max(prefix.index(s) for s in inc_stmts):
        chk.ok('C09.D', 'the limit test lies between the increment and the dispatch on every path')
    else:
        chk.bad('C09.D', mod, func.name, 'limit test order',
                'the limit test must come after the increment and before the statement is dispatched (statement L+1 must not start)', node=root)
    check_test_form(chk, mod, func, loop, root, r, conds, opt, env_at[id(root)])


class _Unknown(Exception):
    pass


def _num_eval(e, names, opt, count):
    """evaluate an integer / boolean expression over sample values"""
    if isinstance(e, ast.Constant):
        if e.value is None or isinstance(e.value, (int, float, bool)):
            return e.value
        raise _Unknown(norm(e))
    if isinstance(e, ast.Name):
        if e.id in names:
            return names[e.id]
        raise _Unknown(e.id)
    if isinstance(e, ast.Subscript):
        sk = subscript_key(e)
        if sk and sk[1] == KEY and norm(sk[0]) == opt:
            return count
        raise _Unknown(norm(e))
    if isinstance(e, ast.BoolOp):
        val = None
        for v in e.values:
            val = _num_eval(v, names, opt, count)
            if isinstance(e.op, ast.And) and not val:
                return val
            if isinstance(e.op, ast.Or) and val:
                return val
        return val
    if isinstance(e, ast.UnaryOp) and isinstance(e.op, ast.Not):
        return not _num_eval(e.operand, names, opt, count)
    if isinstance(e, ast.UnaryOp) and isinstance(e.op, ast.USub):
        return -_num_eval(e.operand, names, opt, count)
    if isinstance(e, ast.BinOp) and isinstance(e.op, (ast.Add, ast.Sub)):
        a, b = _num_eval(e.left, names, opt, count), _num_eval(e.right, names, opt, count)
        return a + b if isinstance(e.op, ast.Add) else a - b
    if isinstance(e, ast.Compare):
        left = _num_eval(e.left, names, opt, count)
        for op, c in zip(e.ops, e.comparators):
            right = _num_eval(c, names, opt, count)
            if isinstance(op, (ast.Is, ast.IsNot)):
                r = (left is right) if isinstance(op, ast.Is) else (left is not right)
            elif left is None or right is None:
                raise _Unknown('ordering with None')
            else:
                r = {ast.Lt: left < right, ast.LtE: left <= right, ast.Gt: left > right, ast.GtE: left >= right, ast.Eq: left == right, ast.NotEq: left != right}.get(type(op))
                if r is None:
                    raise _Unknown(norm(e))
            if not r:
                return False
            left = right
        return True
    raise _Unknown(norm(e)[:60])


def check_test_form(chk, mod, func, loop, test, raise_stmt, conds, opt, env_state):
    env, stored = env_state
    # the limit variable
    limit_var = None
    limit_def = None
    for n in walk_no_nested(func):
        if isinstance(n, ast.Assign) and len(n.targets) == 1 and isinstance(n.targets[0], ast.Name) and LIMIT_KEY in norm(n.value):
            limit_var, limit_def = n.targets[0].id, n
    if limit_var is None:
        raise Unrecognised('C09.T', "the limit is not read into a local from options.get('maxStatements', ...)", mod.rel)
    v = limit_def.value

    def unalias(node):
        # a local that is assigned exactly once in the function, from a plain name / attribute (options_get = options.get, default = DEFAULT_MAX_STATEMENTS), reads as its source
        seen = 0
        while isinstance(node, ast.Name) and seen < 3:
            defs = [a for a in ast.walk(func) if isinstance(a, ast.Assign) and any(isinstance(t, ast.Name) and t.id == node.id for t in a.targets)]
            if len(defs) != 1 or not isinstance(defs[0].value, (ast.Name, ast.Attribute)):
                break
            node = defs[0].value
            seen += 1
        return node
    vfunc = unalias(v.func) if isinstance(v, ast.Call) else None
    varg1 = unalias(v.args[1]) if isinstance(v, ast.Call) and len(v.args) == 2 else None
    good_src = isinstance(v, ast.Call) and isinstance(vfunc, ast.Attribute) and vfunc.attr == 'get' and norm(vfunc.value) == opt \
        and len(v.args) == 2 and const_str(v.args[0]) == LIMIT_KEY
    if good_src:
        default = chk.repo.module('library').const(norm(varg1), 'C09.T') if isinstance(varg1, ast.Name) else mod.lit(varg1)
        if isinstance(default, (int, float)) and default > 0:
            chk.ok('C09.T', f'limit = {norm(v)} with positive default {default!r} (no script can run forever by default)')
        else:
            chk.bad('C09.T', mod, func.name, norm(v), f'the default statement limit is {default!r}: it must be a positive number, otherwise scripts are unlimited by default', node=v)
    elif isinstance(v, ast.Call) and isinstance(vfunc, ast.Attribute) and vfunc.attr == 'get' and norm(vfunc.value) != opt and len(v.args) >= 1 and const_str(v.args[0]) == LIMIT_KEY:
        chk.bad('C09.T', mod, func.name, norm(v), "the limit must come from options.get('maxStatements', DEFAULT_MAX_STATEMENTS) of this run's options", node=v)
    else:
        chk.unrec('C09.T', f'the source of the limit is not recognised: {norm(v)[:80]}', mod.rel)
    # locals assigned inside the abort test (e.g. a hoisted count read) extend the environment
    inner_env = dict(env)
    for n in ast.walk(test):
        if isinstance(n, ast.Assign) and len(n.targets) == 1 and isinstance(n.targets[0], ast.Name):
            inner_env[n.targets[0].id] = _count_expr(n.value, inner_env, opt, stored)
    rows, bad = [], []
    L = 3
    for limit in (0, L):
        for rel, count in (('lt', L - 1), ('eq', L), ('gt', L + 1)):
            c0 = count - 1
            names = {limit_var: limit}
            for k, val in inner_env.items():
                if isinstance(val, tuple):
                    names[k] = c0 + val[1]
            try:
                got = all(bool(_num_eval(t, names, opt, count)) == pol for t, pol in conds)
            except _Unknown as exc:
                raise Unrecognised('C09.T', f'abort condition not understood ({exc}): {" and ".join(norm(t) for t, _p in conds)}', mod.rel)
            want = limit > 0 and rel == 'gt'
            rows.append((limit > 0, rel, got))
            if got != want:
                bad.append((limit > 0, rel, got))
    cond_text = ' and '.join(('' if pol else 'not ') + norm(t) for t, pol in reversed(conds))
    if bad:
        desc = '; '.join(f"limit {'> 0' if lp else '= 0'}, count {dict(lt='<', eq='=', gt='>')[r]} limit -> {'abort' if g else 'continue'}" for lp, r, g in bad)
        chk.bad('C09.T', mod, func.name, cond_text,
                f'the abort condition must hold exactly when limit > 0 and count > limit (statement L+1 is the first to abort; 0 means unlimited); wrong cases: {desc}',
                node=test)
    else:
        for lp, r, g in rows:
            chk.ok('C09.T', f"abort test: limit {'> 0' if lp else '= 0'}, count {dict(lt='<', eq='=', gt='>')[r]} limit -> {'abort' if g else 'continue'}")
    exc = raise_stmt.exc
    name = call_name(exc) if isinstance(exc, ast.Call) else None
    msg = norm(exc.args[0]) if isinstance(exc, ast.Call) and exc.args else ''
    if name == 'BareScriptRuntimeError' and 'Exceeded maximum script statements' in msg:
        chk.ok('C09.T', 'abort raises BareScriptRuntimeError("Exceeded maximum script statements ...")')
    else:
        chk.bad('C09.T', mod, func.name, norm(raise_stmt), 'exceeding the budget must raise BareScriptRuntimeError with the "Exceeded maximum script statements" message', node=raise_stmt)
    # C09.R: who reads the limit
    reads = [n for n in walk_no_nested(func) if isinstance(n, ast.Name) and n.id == limit_var and isinstance(n.ctx, ast.Load)]
    outside = [n for n in reads if not _inside(n, test)]
    if outside:
        chk.bad('C09.R', mod, func.name, f'{limit_var} read outside the abort test: {norm(getattr(outside[0], "_parent", outside[0]))[:80]}',
                'the statement limit influences execution outside the abort test: a run under a larger limit is no longer identical to the unlimited run', node=outside[0])
    else:
        chk.ok('C09.R', f'the limit ({limit_var}) is read only by the abort test and its message')


def _inside(node, anc):
    cur = node
    while cur is not None:
        if cur is anc:
            return True
        cur = getattr(cur, '_parent', None)
    return False


def check_limit_reads(chk):
    for modname in chk.repo.all_module_names():
        mod = chk.repo.module(modname)
        for n in ast.walk(mod.tree):
            if isinstance(n, ast.Constant) and n.value == LIMIT_KEY:
                par = getattr(n, '_parent', None)
                fn = None
                cur = n
                while cur is not None and not isinstance(cur, (ast.FunctionDef,)):
                    cur = getattr(cur, '_parent', None)
                fname = cur.name if cur is not None else '<module>'
                if (modname, fname) == ('runtime', '_execute_script_helper'):
                    st = n
                    while st is not None and not isinstance(st, ast.stmt):
                        st = getattr(st, '_parent', None)
                    if isinstance(st, ast.Assign) and len(st.targets) == 1 and isinstance(st.targets[0], ast.Name):
                        chk.ok('C09.R', f"runtime._execute_script_helper reads '{LIMIT_KEY}' into {st.targets[0].id} (used by the abort test)", trivial=True)
                    else:
                        chk.bad('C09.R', mod, fname, norm(st)[:100] if st is not None else norm(par)[:100],
                                f"'{LIMIT_KEY}' is read outside the limit retrieval of the abort test: execution depends on the limit, so a run under a larger limit is no longer "
                                f"identical to the unlimited run", node=n)
                elif modname in ('bare', 'baredoc'):
                    chk.ok('C09.R', f'{modname}.{fname} mentions {LIMIT_KEY} (CLI configuration)', trivial=True)
                else:
                    chk.bad('C09.R', mod, fname, norm(par)[:100], f"'{LIMIT_KEY}' is read outside the abort test of the statement loop: behaviour depends on the limit", node=n)


def writeback_helpers(repo):
    """functions H(p1, p2, ...) whose body stores p_i['statementCount'] = p_j['statementCount'] -> {name: (i, j)}"""
    out = {}
    for modname in ('runtime', 'data', 'library'):
        mod = repo.module(modname)
        for fname, func in mod.funcs.items():
            params = [a.arg for a in func.args.args]
            for n in walk_no_nested(func):
                if isinstance(n, ast.Assign) and len(n.targets) == 1:
                    sk, rk = subscript_key(n.targets[0]), subscript_key(n.value) if isinstance(n.value, ast.Subscript) else None
                    if sk and rk and sk[1] == rk[1] == KEY and norm(sk[0]) in params and norm(rk[0]) in params and norm(sk[0]) != norm(rk[0]):
                        # guard must only exclude the cases where no copy / no key exists
                        ok = True
                        cur = getattr(n, '_parent', None)
                        while cur is not None and cur is not func:
                            if isinstance(cur, ast.If):
                                conj = cur.test.values if isinstance(cur.test, ast.BoolOp) and isinstance(cur.test.op, ast.And) else [cur.test]
                                for c in conj:
                                    t = norm(c)
                                    a, b = norm(sk[0]), norm(rk[0])
                                    if t not in (f'{b} is not {a}', f'{a} is not {b}', f'{a} is not None', f"'{KEY}' in {b}", f'{b} is not None'):
                                        ok = False
                            elif not isinstance(cur, (ast.Try,)):
                                ok = False
                            cur = getattr(cur, '_parent', None)
                        if ok and len([s for s in func.body if not isinstance(s, ast.Expr)]) == 1:
                            out[fname] = (params.index(norm(sk[0])), params.index(norm(rk[0])))
    return out


def check_stores(chk):
    helpers = writeback_helpers(chk.repo)
    n = 0
    for modname in chk.repo.all_module_names():
        mod = chk.repo.module(modname)
        for fname, stmt, base, kind, rhs in key_stores(mod):
            n += 1
            where = f'{modname}.{fname}: {norm(stmt)[:90]}'
            if kind == 'aug':
                if (modname, fname) == ('runtime', '_execute_script_helper') and (id(stmt) in getattr(chk, 'c09_inc_stores', ()) or not hasattr(chk, 'c09_inc_stores')):
                    chk.ok('C09.W', where + ' (the per-statement increment)')
                else:
                    chk.bad('C09.W', mod, fname, norm(stmt), 'the statement counter is modified outside the statement loop', node=stmt)
            elif kind == 'assign':
                if id(stmt) in getattr(chk, 'c09_inc_stores', ()):
                    chk.ok('C09.W', where + ' (the per-statement increment, validated by C09.D)')
                elif isinstance(rhs, ast.Constant) and rhs.value == 0 and (modname, fname) == ('runtime', 'execute_script'):
                    chk.ok('C09.W', where + ' (reset at run entry)')
                elif isinstance(rhs, ast.Subscript) and subscript_key(rhs) and subscript_key(rhs)[1] == KEY and norm(subscript_key(rhs)[0]) != base:
                    chk.ok('C09.W', where + ' (write-back from a copy)')
                elif isinstance(rhs, ast.Constant):
                    chk.bad('C09.W', mod, fname, norm(stmt), 'the statement counter is reset outside execute_script: statements executed so far are forgotten '
                            '(nested invocations / includes would restart the budget)', node=stmt)
                else:
                    chk.bad('C09.W', mod, fname, norm(stmt),
                            'the statement counter is overwritten with a value that is not the counter of a copy being carried back: a cached or computed count '
                            'loses the statements executed by nested invocations in between', node=stmt)
            else:
                chk.bad('C09.W', mod, fname, norm(stmt), f'the statement counter key is modified by {kind}', node=stmt)
    if n < 3:
        raise Unrecognised('C09.W', f'only {n} stores of the counter key found', None)
    chk.extra['writeback_helpers'] = {k: list(v) for k, v in helpers.items()}


def _is_copy_expr(e, opt_names):
    """e creates a copy of an options object?"""
    if isinstance(e, ast.Call):
        cn = call_name(e) or ''
        if isinstance(e.func, ast.Attribute) and e.func.attr == 'copy' and norm(e.func.value) in opt_names:
            return True
        if cn in ('dict', 'copy.copy', 'copy.deepcopy') and e.args and norm(e.args[0]) in opt_names:
            return True
    if isinstance(e, ast.Dict) and any(k is None and norm(v) in opt_names for k, v in zip(e.keys, e.values)):
        return True
    if isinstance(e, ast.IfExp):
        return _is_copy_expr(e.body, opt_names) or _is_copy_expr(e.orelse, opt_names)
    return False


def _helper_result(mod, call, opt_names):
    """call of a module-level helper that returns its options argument or a copy of it -> 'copy' | 'alias' | None"""
    if not (isinstance(call, ast.Call) and isinstance(call.func, ast.Name) and call.func.id in mod.funcs):
        return None
    h = mod.funcs[call.func.id]
    hp = [a.arg for a in h.args.args]
    passed = {hp[i] for i, a in enumerate(call.args[:len(hp)]) if norm(a) in opt_names}
    if not passed:
        return None
    local_copies = set()
    for n in walk_no_nested(h):
        if isinstance(n, ast.Assign) and len(n.targets) == 1 and isinstance(n.targets[0], ast.Name) and _is_copy_expr(n.value, passed | local_copies):
            local_copies.add(n.targets[0].id)
    kinds = set()
    for n in walk_no_nested(h):
        if isinstance(n, ast.Return) and n.value is not None:
            t = norm(n.value)
            if t in passed:
                kinds.add('alias')
            elif t in local_copies or _is_copy_expr(n.value, passed):
                kinds.add('copy')
            elif isinstance(n.value, ast.Dict) and all(k is not None for k in n.value.keys):
                kinds.add('fresh')
            else:
                return None
    if 'copy' in kinds:
        return 'copy'
    if kinds == {'alias'}:
        return 'alias'
    return None


def check_identity(chk):
    helpers = writeback_helpers(chk.repo)
    n_sites = 0
    for modname in ('runtime', 'data', 'library', 'bare'):
        mod = chk.repo.module(modname)
        for fname, func in mod.funcs.items():
            params = [a.arg for a in func.args.args]
            opt = 'options' if 'options' in params else None
            if modname == 'library' and len(params) == 2 and fname.startswith('_'):
                opt = params[1]
            if opt is None:
                continue
            # locals that may hold a copy of options (or the same object)
            copies = {}      # name -> 'copy' | 'alias-or-copy'
            for n in walk_no_nested(func):
                if isinstance(n, ast.Assign) and len(n.targets) == 1 and isinstance(n.targets[0], ast.Name):
                    t = n.targets[0].id
                    if _is_copy_expr(n.value, {opt} | set(copies)):
                        copies[t] = 'copy' if copies.get(t) != 'alias' else 'alias-or-copy'
                    elif norm(n.value) == opt:
                        copies[t] = 'alias' if t not in copies else 'alias-or-copy'
                    elif _helper_result(mod, n.value, {opt} | set(copies)):
                        copies[t] = _helper_result(mod, n.value, {opt} | set(copies))
            evaluator_aliases = {n.targets[0].id for n in walk_no_nested(func) if isinstance(n, ast.Assign) and isinstance(n.targets[0], ast.Name)
                                 and isinstance(n.value, ast.Call) and call_name(n.value) == '_import_evaluate_expression'}
            exec_calls = []
            for n in walk_no_nested(func):
                if isinstance(n, ast.Call) and isinstance(n.func, ast.Name) and (n.func.id in EXEC_CALLEES or n.func.id in evaluator_aliases) and len(n.args) >= 2:
                    exec_calls.append((n, n.args[1]))
            used_objs = {}
            for call, arg in exec_calls:
                n_sites += 1
                at = norm(arg)
                used_objs.setdefault(at, []).append(call)
                if at == opt or copies.get(at) == 'alias':
                    chk.ok('C09.I', f'{modname}.{fname}: {norm(call)[:70]} runs under the same options object')
                elif at in copies:
                    wb = _writeback_covering(func, call, opt, at, helpers)
                    if wb == 'finally':
                        chk.ok('C09.I', f'{modname}.{fname}: {norm(call)[:60]} runs under copy {at}; counter written back in a finally clause')
                    elif wb == 'normal':
                        chk.bad('C09.I', mod, fname, f'{norm(call)[:80]} [write-back not in finally]',
                                f'statements run under the options copy {at} are carried back only on normal return: when the nested execution fails with an error that '
                                f'an outer call wrapper absorbs, the run continues with the stale count and exceeds the budget', node=call)
                    else:
                        chk.bad('C09.I', mod, fname, f'{norm(call)[:80]} [no write-back]',
                                f'statements are executed under a copy of the options ({at}) whose statementCount is never carried back: they are missing from the run\'s total '
                                f'and the maxStatements budget can be exceeded', node=call)
                elif isinstance(arg, ast.Constant) and arg.value is None:
                    chk.ok('C09.I', f'{modname}.{fname}: {norm(call)[:70]} (no options: no budget to account)', trivial=True)
                elif isinstance(arg, ast.Dict):
                    chk.ok('C09.I', f'{modname}.{fname}: {norm(call)[:70]} starts a run with fresh options', trivial=True)
                elif isinstance(arg, ast.Name) and any(isinstance(n, ast.With) and any(isinstance(i.optional_vars, ast.Name) and i.optional_vars.id == at for i in n.items) for n in walk_no_nested(func)):
                    w = next(n for n in walk_no_nested(func) if isinstance(n, ast.With) and any(isinstance(i.optional_vars, ast.Name) and i.optional_vars.id == at for i in n.items))
                    item = next(i for i in w.items if isinstance(i.optional_vars, ast.Name) and i.optional_vars.id == at)
                    cls = call_name(item.context_expr) if isinstance(item.context_expr, ast.Call) else None
                    exit_fn = mod.funcs.get(f'{cls}.__exit__') if cls else None
                    wb = exit_fn is not None and any((isinstance(x, ast.Call) and isinstance(x.func, ast.Name) and x.func.id in helpers) or
                                                     (isinstance(x, ast.Assign) and subscript_key(x.targets[0]) and subscript_key(x.targets[0])[1] == KEY) for x in ast.walk(exit_fn))
                    inside = any(call is x for x in ast.walk(w))
                    if wb and inside:
                        chk.ok('C09.I', f'{modname}.{fname}: {norm(call)[:60]} runs under the options of the context manager {cls}, whose __exit__ writes the counter back (on every exit of the with block)')
                    else:
                        chk.unrec('C09.I', f'{modname}.{fname}: {norm(call)[:60]} receives {at}, bound by a with statement whose context manager is not understood', mod.rel)
                elif isinstance(arg, ast.Name) and any(isinstance(n, ast.Assign) and isinstance(n.value, ast.Call) and any(isinstance(t, ast.Name) and t.id == at for t in n.targets) for n in walk_no_nested(func)):
                    chk.unrec('C09.I', f'{modname}.{fname}: {norm(call)[:70]} receives {at}, produced by a call that is not understood', mod.rel)
                else:
                    chk.bad('C09.I', mod, fname, norm(call)[:100], f'a statement-executing call receives {at}, which is neither the run\'s options object nor a tracked copy', node=call)
            # mixing copy and original while a copy with write-back is live (between its creation and the write-back)
            live = [a for a in used_objs if a in copies and copies[a] != 'alias']
            if live and opt in used_objs:
                lo = min((n.lineno for n in walk_no_nested(func) if isinstance(n, ast.Assign) and len(n.targets) == 1
                          and isinstance(n.targets[0], ast.Name) and n.targets[0].id == live[0] and _is_copy_expr(n.value, {opt} | set(copies))), default=None)
                hi = max([getattr(c, 'end_lineno', c.lineno) for c in used_objs[live[0]]] + _writeback_lines(func, opt, live[0], helpers), default=None)
                for call in used_objs[opt]:
                    if lo is None or hi is None or not (lo <= call.lineno <= hi):
                        continue
                    chk.bad('C09.I', mod, fname, f'{norm(call)[:80]} [mixes original and copy]',
                            f'this call counts on the original options while sibling calls count on the copy {live[0]}; the later write-back of the copy overwrites '
                            f'what was counted here', node=call)
    if n_sites < 6:
        raise Unrecognised('C09.I', f'only {n_sites} statement-executing call sites found', None)


def _writeback_lines(func, opt, copy, helpers):
    out = []
    for n in walk_no_nested(func):
        if isinstance(n, ast.Assign) and len(n.targets) == 1:
            sk = subscript_key(n.targets[0])
            rk = subscript_key(n.value) if isinstance(n.value, ast.Subscript) else None
            if sk and rk and sk[1] == rk[1] == KEY and norm(sk[0]) == opt and norm(rk[0]) == copy:
                out.append(n.lineno)
        if isinstance(n, ast.Call) and isinstance(n.func, ast.Name) and n.func.id in helpers:
            i, j = helpers[n.func.id]
            if len(n.args) > max(i, j) and norm(n.args[i]) == opt and norm(n.args[j]) == copy:
                out.append(n.lineno)
    return out


def _writeback_covering(func, call, opt, copy, helpers):
    """'finally' if a write-back opt <- copy sits in the finalbody of a try whose body contains `call`; 'normal' if a
    write-back exists later in the function; None otherwise."""
    def is_wb(stmt):
        for n in ast.walk(stmt):
            if isinstance(n, ast.Assign) and len(n.targets) == 1:
                sk = subscript_key(n.targets[0])
                rk = subscript_key(n.value) if isinstance(n.value, ast.Subscript) else None
                if sk and rk and sk[1] == rk[1] == KEY and norm(sk[0]) == opt and norm(rk[0]) == copy:
                    return True
            if isinstance(n, ast.Call) and isinstance(n.func, ast.Name) and n.func.id in helpers:
                i, j = helpers[n.func.id]
                if len(n.args) > max(i, j) and norm(n.args[i]) == opt and norm(n.args[j]) == copy:
                    return True
        return False
    child = call
    cur = getattr(call, '_parent', None)
    while cur is not None and cur is not func:
        if isinstance(cur, ast.Try) and any(child is s for s in cur.body) and cur.finalbody:
            if any(is_wb(s) for s in cur.finalbody):
                return 'finally'
        child = cur
        cur = getattr(cur, '_parent', None)
    if any(is_wb(s) for s in walk_no_nested(func) if isinstance(s, ast.stmt) and getattr(s, 'lineno', 0) > getattr(call, 'lineno', 0)):
        return 'normal'
    return None


def check_callbacks(chk):
    """C04.O / C09.I: library functions call function-typed values with the enclosing options unchanged"""
    n = 0
    for lf in library_functions(chk.repo, 'C09.I'):
        fn_vars = set()
        if lf.model and lf.targets:
            for t, e in zip(lf.targets, lf.model):
                if t and (e.get('type') == 'function' or e.get('type') is None):
                    fn_vars.add(t)
        for node in ast.walk(lf.func):
            if isinstance(node, ast.Call) and isinstance(node.func, ast.Name) and node.func.id in fn_vars and len(node.args) == 2:
                # the options in scope: innermost lambda's 2nd parameter, else the function's
                scope_opts = {lf.options_param}
                cur = getattr(node, '_parent', None)
                while cur is not None and cur is not lf.func:
                    if isinstance(cur, (ast.Lambda, ast.FunctionDef)) and len(cur.args.args) == 2:
                        scope_opts.add(cur.args.args[1].arg)
                    cur = getattr(cur, '_parent', None)
                n += 1
                if norm(node.args[1]) in scope_opts:
                    chk.ok('C09.I', f'{lf.name}: callback {norm(node)[:60]} receives the enclosing options object')
                else:
                    chk.bad('C09.I', lf.mod, lf.pyname, norm(node)[:100],
                            f'a callback is invoked with {norm(node.args[1])} instead of the run\'s options: script functions used as callbacks are counted on another '
                            f'object (or not at all) and run with other globals', node=node)
    if n < 2:
        raise Unrecognised('C09.I', f'only {n} library callback call sites found', None)


def check_handler_order(chk):
    from .c05 import check_wrapper
    # reuse: C05.O instances are reported under this property as C09.H
    before = len(chk.instances)
    check_wrapper(chk)
    for inst in chk.instances[before:]:
        if inst['rule'] in ('C05.O', 'C05.W'):
            inst['rule'] = 'C09.H'
    for f in chk.findings:
        if f.rule in ('C05.O', 'C05.W'):
            f.rule = 'C09.H'


def _exec_closure(repo):
    """(module, function) pairs that can (transitively, through resolved bare-name calls) execute statements"""
    mods = [repo.module(m) for m in ('runtime', 'data', 'library', 'value', 'model', 'options') if repo.has_module(m)] if hasattr(repo, 'has_module') else \
        [repo.module(m) for m in ('runtime', 'data', 'library', 'value', 'model', 'options')]
    reach = {('runtime', f) for f in ('evaluate_expression', '_execute_script_helper', 'execute_script', '_script_function')}
    changed = True
    while changed:
        changed = False
        for mod in mods:
            for fname, func in mod.funcs.items():
                if (mod.name, fname) in reach:
                    continue
                for n in walk_no_nested(func):
                    if isinstance(n, ast.Call) and isinstance(n.func, ast.Name):
                        res = repo.resolve_function(mod, n.func.id)
                        if res and (res[0].name, res[1].name) in reach:
                            reach.add((mod.name, fname))
                            changed = True
                            break
    return mods, reach


def check_no_swallow(chk):
    """C09.H: the statement-limit error (a BareScriptRuntimeError) raised below a try must not be absorbed by a handler"""
    from ..raises import handler_names, handler_fate
    mods, reach = _exec_closure(chk.repo)
    n = 0
    for mod in mods:
        for fname, func in mod.funcs.items():
            params = {a.arg for a in func.args.args}
            aliases = {t.id for x in walk_no_nested(func) if isinstance(x, ast.Assign) and isinstance(x.value, ast.Call) and call_name(x.value) == '_import_evaluate_expression'
                       for t in x.targets if isinstance(t, ast.Name)}
            for tr in [x for x in ast.walk(func) if isinstance(x, ast.Try) and x.handlers]:
                execs = []
                for st in tr.body:
                    for c in ast.walk(st):
                        if not isinstance(c, ast.Call):
                            continue
                        if isinstance(c.func, ast.Name):
                            res = chk.repo.resolve_function(mod, c.func.id)
                            if c.func.id in aliases or (res and (res[0].name, res[1].name) in reach):
                                execs.append(c)
                            elif res is None and c.func.id not in ('len', 'int', 'float', 'str', 'isinstance', 'range', 'min', 'max') and len(c.args) == 2 \
                                    and isinstance(c.args[1], ast.Name) and c.args[1].id in ({'options', 'eval_options'} | {p for p in params if 'options' in p}):
                                execs.append(c)      # function value called with (args, options)
                if not execs:
                    continue
                n += 1
                verdict = None
                for h in tr.handlers:
                    names = handler_names(h)
                    if names is None or names & {'Exception', 'BaseException', 'BareScriptRuntimeError'}:
                        verdict = (h, handler_fate(h, 'BareScriptRuntimeError'))
                        break
                if verdict is None:
                    chk.ok('C09.H', f'{mod.name}.{fname}: try around {norm(execs[0])[:50]} has no handler that can catch the statement-limit error')
                elif verdict[1] in ('reraise', 'other'):
                    chk.ok('C09.H', f'{mod.name}.{fname}: the first handler matching BareScriptRuntimeError around {norm(execs[0])[:50]} '
                           f'{"re-raises it" if verdict[1] == "reraise" else "raises (the run still aborts)"}')
                elif verdict[1] == 'unknown':
                    chk.unrec('C09.H', f'{mod.name}.{fname}: what the handler {norm(verdict[0].type) if verdict[0].type is not None else "(bare)"} does with a '
                              f'BareScriptRuntimeError is not understood', mod.rel)
                else:
                    h = verdict[0]
                    chk.bad('C09.H', mod, fname, f'except {norm(h.type) if h.type is not None else "(bare)"} around {norm(execs[0])[:70]}',
                            'this handler absorbs BareScriptRuntimeError raised while statements execute below it: after "Exceeded maximum script statements" the run continues '
                            '(later statements start beyond the limit, and the run may complete)', node=h)
    if n < 1:
        raise Unrecognised('C09.H', 'no try block around a statement-executing call found', None)


def check_data_accounting(chk, rule='C09.I'):
    """the expression helpers of data.py evaluated (E6l) with a counting evaluate_expression oracle -> True when decided OK"""
    from .. import libsim
    n, problems = libsim.run_data_accounting(chk.repo, rule)
    mod = chk.repo.module('data')
    if problems:
        by = {}
        for fn, msg in problems:
            by.setdefault(fn, []).append(msg)
        for fn, msgs in by.items():
            chk.bad(rule, mod, fn, msgs[0][:110], f'evaluation of data.{fn} with a counting expression evaluator: {msgs[0]} ({len(msgs)} of the scenarios deviate)', node=mod.funcs.get(fn))
        return False
    chk.ok(rule, f'{n} evaluated calls of filter_data / add_calculated_field / join_data (with and without a variables object, with and without globals, completing and aborted by the '
           f'statement limit on the first / second evaluation): the run\'s options carry start + evaluations afterwards, the limit error leaves the function, variables are merged over '
           f'the globals in a copy', count=n)
    return True


def check_include_accounting(chk, rule='C09.I'):
    """the include branch of the statement loop evaluated (E6s) on every include scenario of C17 - among them the statement limit hit inside an included script and right after an
    include: events and final statement count agree with the documented semantics -> True when all agree"""
    from .. import stepsim
    from .c17 import include_scenarios
    mod = chk.repo.module('runtime')
    func = mod.func('_execute_script_helper', rule)
    it = stepsim.IncludeInterp(chk.repo, mod, rule)
    n = 0
    for r, desc, model, opts, fetch, scripts, warnings, limit in include_scenarios():
        it.fetch, it.scripts, it.warnings = fetch, scripts, warnings
        got = it.run_include(func, model, opts, limit)
        want = stepsim.include_reference(model, opts, fetch, scripts, warnings, limit)
        diff = stepsim.include_compare(got, want)
        n += 1
        if diff is not None:
            if 'count' in diff.lower() or r == 'C17.G':
                chk.bad(rule, mod, func.name, f'include scenario: {desc}', f'abstract execution of the include statement ({desc}): {diff}')
            return False
    chk.ok(rule, f'{n} include scenarios evaluated (E6s), incl. the statement limit reached inside an included script and right after an include: the statements of included scripts are '
           f'counted on the run\'s counter on normal and on aborted exits', count=n)
    return True


def _loop_helpers(repo):
    """functions of runtime.py that belong to the statement loop: _execute_script_helper, the module functions only it calls, and the methods of classes only it instantiates"""
    mod = repo.module('runtime')
    loop = mod.funcs.get('_execute_script_helper')
    out = {'_execute_script_helper'}
    if loop is None:
        return out
    called = {n.func.id for n in ast.walk(loop) if isinstance(n, ast.Call) and isinstance(n.func, ast.Name)}
    for name in called:
        others = [f for fn, f in mod.funcs.items() if fn != '_execute_script_helper' and not fn.startswith(name + '.')
                  and any(isinstance(n, ast.Call) and isinstance(n.func, ast.Name) and n.func.id == name for n in ast.walk(f))]
        if others:
            continue
        if name in getattr(mod, 'classes', {}):
            out |= {fn for fn in mod.funcs if fn.startswith(name + '.')}
        elif name in mod.funcs and name not in ('evaluate_expression', 'execute_script', '_script_function'):
            out.add(name)
    return out


def check_counter_shape(chk, step_ok, which=('D', 'R', 'W'), budget_ok=False):
    """C09.D / R / W shape read-backs.  When the evaluation of the statement loop decided positively (step_ok), what they say about code that belongs to the statement loop is advisory:
    C09.D altogether, C09.W / C09.R for the helper functions and helper-object methods only the loop uses (the loop function itself stays under the rules)"""
    bf, bu, bi = len(chk.findings), len(chk.unrecognised), len(chk.instances)
    if 'D' in which:
        chk.guard('C09.D', check_dominance, chk)
    if 'R' in which:
        chk.guard('C09.R', check_limit_reads, chk)
    if 'W' in which:
        chk.guard('C09.W', check_stores, chk)
    if not step_ok:
        return
    loop_fns = _loop_helpers(chk.repo) - {'_execute_script_helper'}
    short = {x.split('.')[-1] for x in loop_fns}
    keep = []
    for f in chk.findings[bf:]:
        # with the whole-program budget sweeps (C09.B) also decided positively, who reads the limit / writes the counter anywhere in runtime.py is advisory as well
        if f.rule == 'C09.D' or (f.rule in ('C09.W', 'C09.R') and f.file.endswith('runtime.py') and (budget_ok or f.func in loop_fns or f.func in short)):
            chk.note(f'{f.rule} shape read-back not confirmed by the evaluation of the statement loop, ignored: {f.what[:140]} [{f.func}]')
        else:
            keep.append(f)
    gone = len(chk.findings) - bf - len(keep)
    chk.findings[bf:] = keep
    if gone:
        chk.instances[bi:] = [i for i in chk.instances[bi:] if i['verdict'] != 'VIOLATION' or any(f.construct[:40] in i['instance'] for f in keep)]
    keep_u = []
    for u in chk.unrecognised[bu:]:
        if u['rule'] == 'C09.D':
            chk.note(f"C09.D shape read-back: {u['what']} - decided by the evaluation of the statement loop")
        else:
            keep_u.append(u)
    chk.unrecognised[bu:] = keep_u
    if any(n.startswith('C09.D') for n in chk.notes):
        for r in ('C09.D', 'C09.T', 'C09.R'):
            chk.floors.pop(r, None)


def check_identity_with_sim(chk):
    data_ok = chk.guard('C09.I', check_data_accounting, chk)
    inc_ok = chk.guard('C09.I', check_include_accounting, chk)
    before_u = len(chk.unrecognised)
    before_f = len(chk.findings)
    before_i = len(chk.instances)
    chk.guard('C09.I', check_identity, chk)
    if inc_ok:
        # the include branch was evaluated: what the shape read-back says about the write-back of the include's options copy is advisory
        keep = []
        for f in chk.findings[before_f:]:
            if f.rule == 'C09.I' and f.file.endswith('runtime.py') and ('write-back' in f.construct):
                chk.note(f'C09.I shape read-back not confirmed by the evaluation of the include branch, ignored: {f.what[:160]}')
            else:
                keep.append(f)
        dropped = {id(f) for f in chk.findings[before_f:]} - {id(f) for f in keep}
        chk.findings[before_f:] = keep
        if dropped:
            chk.instances[before_i:] = [i for i in chk.instances[before_i:] if not (i['verdict'] == 'VIOLATION' and 'write-back' in i['instance'])]
        keep_u = []
        for u in chk.unrecognised[before_u:]:
            if u['rule'] == 'C09.I' and u['what'].startswith('runtime.') and 'include' in u['what']:
                chk.note(f"C09.I shape read-back: {u['what']} - decided by the evaluation of the include branch")
            else:
                keep_u.append(u)
        chk.unrecognised[before_u:] = keep_u
    if data_ok:
        # what the shape read-back says / could not recognise about the data.py helpers is decided by the evaluation above
        keep_f = []
        for f in chk.findings[before_f:]:
            if f.rule == 'C09.I' and f.file.endswith('data.py') and 'write-back' in f.construct:
                chk.note(f'C09.I shape read-back not confirmed by the evaluation of the data helpers, ignored: {f.what[:160]}')
            else:
                keep_f.append(f)
        if len(keep_f) != len(chk.findings) - before_f:
            chk.findings[before_f:] = keep_f
            chk.instances[before_i:] = [i for i in chk.instances[before_i:] if not (i['verdict'] == 'VIOLATION' and 'write-back' in i['instance'] and 'data.py' in i['instance'])]
        keep = []
        for u in chk.unrecognised[before_u:]:
            if u['rule'] == 'C09.I' and u['what'].startswith('data.'):
                chk.note(f"C09.I shape read-back: {u['what']} - decided by the evaluation of the data helpers")
            else:
                keep.append(u)
        chk.unrecognised[before_u:] = keep


def check_budget(chk, rule='C09.B'):
    """E9r: whole programs (functions called directly, recursively, through variables / systemPartial and as callbacks of library functions) evaluated under every limit"""
    from ..progsim import run_budget
    n, problems = run_budget(chk.repo, chk.tier, rule)
    rmod = chk.repo.module('runtime')
    seen = set()
    for desc, msg in problems:
        if desc in seen or len(seen) >= 3:
            continue
        seen.add(desc)
        chk.bad(rule, rmod, 'execute_script', f'budget: {desc}', f'whole-program evaluation under statement limits: {msg} ({len(problems)} programs deviate)')
    if not problems:
        chk.ok(rule, f'{n} runs: each program unlimited (N statements, at least the statements the structured reading starts) and under the limits 1..N+2 (sampled for large N): '
               f'limit >= N and 0 reproduce the run and its count, limit L < N aborts with the limit error at count L + 1 with a prefix of the logs', count=n)
    return not problems


def run(chk):
    chk.rule('C09.B', 'whole programs evaluated (E9r) under every statement limit: exact abort point, prefix, monotonicity; script functions however invoked are counted', floor=150)
    budget_ok = chk.guard('C09.B', check_budget, chk)
    chk.rule('C09.D', 'increment (+1, read-modify-write on the shared dict) and limit test dominate the dispatch', floor=3)
    chk.rule('C09.T', 'abort condition = (limit > 0 and count > limit) over 6 abstract cases; error class/message; positive default', floor=8)
    chk.rule('C09.W', 'who writes the counter key: reset, increment, write-backs only', floor=3)
    chk.rule('C09.R', 'who reads the limit: only the abort test', floor=2)
    chk.rule('C09.I', 'options identity at every statement-executing call; copies written back in finally; callbacks pass options unchanged', floor=12)
    chk.rule('C09.H', 'call wrapper re-raises BareScriptRuntimeError before the catch-all (shared with C05)', floor=1)
    chk.assumptions += ['counts are integers; host callbacks do not tamper with options[statementCount]']
    # the statement loop evaluated (E6s, shared with C08): every run's statement count and abort behaviour under a limit agree with the documented semantics
    from . import c08
    chk.rule('C08.E', 'shared with C08: the statement loop evaluated on small jump-level models under a statement limit - one count per statement, abort when the count exceeds the limit')
    for r in ('C08.J', 'C08.L', 'C08.R'):
        chk.rule(r, 'shared with C08 (part of the same evaluation)')
    bf, bu = len(chk.findings), len(chk.unrecognised)
    chk.guard('C08.E', c08.check_step, chk)
    step_ok = len(chk.findings) == bf and len(chk.unrecognised) == bu
    check_counter_shape(chk, step_ok, ('D', 'R', 'W'), budget_ok=bool(budget_ok))
    check_identity_with_sim(chk)
    chk.guard('C09.I', check_callbacks, chk)
    # the limit error must pass through every wrapper around a function call: decided by the budget sweeps (limits falling inside script functions called directly, recursively,
    # through variables and as callbacks of library functions); the try / except spelling of the wrappers is their read-back
    chk.readback(budget_ok)('C09.H', check_handler_order, chk)
    chk.readback(budget_ok)('C09.H', check_no_swallow, chk)
    if budget_ok:
        chk.floors.pop('C09.H', None)
