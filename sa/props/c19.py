"""C19 - data functions implement their relational meaning; CSV typing."""
import ast

from ..core import Unrecognised, norm, call_name, walk_no_nested, const_str, if_chain
from .. import schema as schema_mod
from ..lib import library_functions

EXPLANATION = (
    'Relational meaning over all tables is execution-based and is not decided as a whole; the clauses below are '
    'structural necessary conditions. C19.J (join never overwrites a left field): every store right_names[f] = v is '
    'under the fact v not in left_names (the if-branch, or the exit condition of the renaming loop whose test includes '
    '"in left_names" of the NAME MAP, not of the row list); joined rows are a copy of the left row plus stores under '
    'right_names[...] keys only; bucket and probe use the same key function value_json(evaluate(expr, eval_options, row)). '
    'C19.F: filter appends the same row object iff value_boolean(evaluate(...)), iterating the input in order; the '
    'calculated field stores the evaluated value under the given name on every row. C19.A: aggregation functions '
    'handled = schema enum AggregationFunction; name <-> reducer table (count->len, max->max, min->min, sum->sum, '
    'stddev->pstdev, average->mean); null measure values are skipped before reduction; rows are partitioned by the '
    'serialised category tuple (value_json, not host hashing). C19.S: sort is the stable host sort with the C11 '
    'comparator; top keeps first-appearance category order and the first int(count) rows of each. C19.V: CSV type '
    'inference tests parse results with `is not None` (0 and false are values), in the order datetime, boolean, number, '
    'string. C19.T / C19.D / C19.O are shared with C12.sink, C16.P and C09.I.')
ENUMERATION = 'join name-map stores and row construction, key functions, filter/field loops, aggregate branches, sort/top sites, CSV inference tests'


def check_join(chk):
    mod = chk.repo.module('data')
    func = mod.func('join_data', 'C19.J')
    # name maps
    defs = {n.targets[0].id: n for n in walk_no_nested(func) if isinstance(n, ast.Assign) and isinstance(n.targets[0], ast.Name) and isinstance(n.value, ast.Dict) and not n.value.keys}
    stores = [n for n in walk_no_nested(func) if isinstance(n, ast.Assign) and isinstance(n.targets[0], ast.Subscript) and isinstance(n.targets[0].value, ast.Name)
              and n.targets[0].value.id in defs]
    # left map: filled from rows of the first parameter
    params = [a.arg for a in func.args.args]
    left_rows, right_rows = params[0], params[1]
    left_map = right_map = None
    for s in stores:
        loop = s
        while loop is not None and not (isinstance(loop, ast.For) and norm(loop.iter) in (left_rows, right_rows)):
            loop = getattr(loop, '_parent', None)
        if loop is not None and norm(loop.iter) == left_rows:
            left_map = s.targets[0].value.id
    # right map: the one used to key the stores into the joined row
    join_stores = [n for n in walk_no_nested(func) if isinstance(n, ast.Assign) and isinstance(n.targets[0], ast.Subscript) and isinstance(n.targets[0].slice, ast.Subscript)
                   and isinstance(n.targets[0].slice.value, ast.Name) and n.targets[0].slice.value.id in defs]
    if not left_map or len(join_stores) != 1:
        raise Unrecognised('C19.J', 'left name map / joined-row store not identified', mod.rel)
    right_map = join_stores[0].targets[0].slice.value.id
    join_row = norm(join_stores[0].targets[0].value)
    # every store into right_map is under `not in left_map` knowledge
    rstores = [s for s in stores if s.targets[0].value.id == right_map]
    if not rstores:
        raise Unrecognised('C19.J', f'no stores into {right_map}', mod.rel)
    for s in rstores:
        val = norm(s.value)
        key = norm(s.targets[0].slice)
        ok = False
        why = ''
        cur = s
        par = getattr(s, '_parent', None)
        # (a) in the if-branch of `val not in left_map`
        while par is not None and par is not func:
            if isinstance(par, ast.If):
                if any(cur is x for x in par.body) and norm(par.test) == f'{val} not in {left_map}':
                    ok = True
                    why = f'under `{val} not in {left_map}`'
            cur = par
            par = getattr(par, '_parent', None)
        # (b) after a while loop whose test includes `val in left_map`
        if not ok:
            blk = getattr(s, '_parent', None)
            body = blk.orelse if isinstance(blk, ast.If) and any(s is x for x in blk.orelse) else (blk.body if hasattr(blk, 'body') else [])
            if s in body:
                ix = body.index(s)
                prev = [x for x in body[:ix] if isinstance(x, ast.While)]
                if prev:
                    conds = [norm(c) for c in (prev[-1].test.values if isinstance(prev[-1].test, ast.BoolOp) and isinstance(prev[-1].test.op, ast.Or) else [prev[-1].test])]
                    if f'{val} in {left_map}' in conds:
                        ok = True
                        why = f'after the renaming loop that runs while `{val} in {left_map}`'
                    else:
                        wrong = [c for c in conds if c.startswith(f'{val} in ')]
                        chk.bad('C19.J', mod, 'join_data', norm(prev[-1].test)[:120],
                                f'the renaming loop for colliding right fields tests {wrong} but not `{val} in {left_map}` (the map of LEFT FIELD NAMES): a generated name such as a2 that '
                                f'already exists as a left field is accepted, and the joined row overwrites that left field', node=prev[-1])
                        continue
        if ok:
            chk.ok('C19.J', f'{norm(s)[:60]} {why}: a right field never maps onto a left field name')
        else:
            chk.bad('C19.J', mod, 'join_data', norm(s)[:80], f'the joined name {val} of a right field is not known to be absent from the left field names: a left field can be overwritten', node=s)
    # joined row = copy of the left row
    jr_defs = [n for n in walk_no_nested(func) if isinstance(n, ast.Assign) and norm(n.targets[0]) == join_row]
    if len(jr_defs) == 1 and isinstance(jr_defs[0].value, ast.Call) and call_name(jr_defs[0].value) == 'dict' and len(jr_defs[0].value.args) == 1:
        chk.ok('C19.J', f'joined row starts as a copy of the left row ({norm(jr_defs[0])}) and receives right values only under {right_map}[...] keys')
    else:
        chk.bad('C19.J', mod, 'join_data', norm(jr_defs[0])[:80] if jr_defs else 'no joined-row construction', 'each joined row must be a fresh copy of the left row', node=func)
    # key functions
    keys = [n for n in walk_no_nested(func) if isinstance(n, ast.Assign) and isinstance(n.targets[0], ast.Name) and n.targets[0].id.endswith('_key')]
    forms = set()
    for k in keys:
        v = k.value
        if isinstance(v, ast.Call) and call_name(v) == 'value_json' and isinstance(v.args[0], ast.Call) and len(v.args[0].args) == 3:
            inner = v.args[0]
            forms.add((call_name(v), norm(inner.func), norm(inner.args[1])))
        else:
            forms.add((norm(v)[:60],))
    if len(keys) == 2 and len(forms) == 1 and len(next(iter(forms))) == 3:
        chk.ok('C19.J', f'bucket and probe keys use the same key function: value_json({next(iter(forms))[1]}(expr, {next(iter(forms))[2]}, row))')
    else:
        chk.bad('C19.J', mod, 'join_data', f'key functions {sorted(forms)}', 'the right rows are bucketed and the left rows probed with different key functions / options: equal key values do not meet', node=func)


def check_filter_and_field(chk):
    mod = chk.repo.module('data')
    f = mod.func('filter_data', 'C19.F')
    data = f.args.args[0].arg
    loops = [n for n in walk_no_nested(f) if isinstance(n, ast.For)]
    good = False
    for lp in loops:
        if norm(lp.iter) == data and isinstance(lp.target, ast.Name):
            row = lp.target.id
            ifs = [s for s in lp.body if isinstance(s, ast.If)]
            if len(lp.body) == 1 and len(ifs) == 1 and isinstance(ifs[0].test, ast.Call) and call_name(ifs[0].test) == 'value_boolean' \
                    and isinstance(ifs[0].test.args[0], ast.Call) and norm(ifs[0].test.args[0].args[2]) == row and len(ifs[0].body) == 1 \
                    and norm(ifs[0].body[0]).endswith(f'.append({row})') and not ifs[0].orelse:
                res = norm(ifs[0].body[0]).split('.append')[0]
                rets = [r for r in walk_no_nested(f) if isinstance(r, ast.Return)]
                good = len(rets) == 1 and norm(rets[0].value) == res
    if good:
        chk.ok('C19.F', 'dataFilter: rows kept (the same objects, in input order) iff value_boolean(evaluate(expr, options, row))')
    else:
        chk.bad('C19.F', mod, 'filter_data', 'filter loop', 'the filter must keep exactly the rows whose expression value is truthy (value_boolean), as the same objects, in input order', node=f)
    g = mod.func('add_calculated_field', 'C19.F')
    data, fname = g.args.args[0].arg, g.args.args[1].arg
    good = False
    for lp in [n for n in walk_no_nested(g) if isinstance(n, ast.For)]:
        if norm(lp.iter) == data and isinstance(lp.target, ast.Name) and len(lp.body) == 1 and isinstance(lp.body[0], ast.Assign):
            row = lp.target.id
            a = lp.body[0]
            if norm(a.targets[0]) == f'{row}[{fname}]' and isinstance(a.value, ast.Call) and len(a.value.args) == 3 and norm(a.value.args[2]) == row:
                good = True
    if good:
        chk.ok('C19.F', 'dataCalculatedField: row[fieldName] = evaluate(expr, options, row) for every row of the input')
    else:
        chk.bad('C19.F', mod, 'add_calculated_field', 'field loop', 'the calculated field must be stored under the given name on every row of the input', node=g)


def check_aggregate(chk):
    mod = chk.repo.module('data')
    func = mod.func('aggregate_data', 'C19.A')
    sch = schema_mod.load(mod, 'AGGREGATION_TYPES', 'C19.A')
    enum = set(sch.enums.get('AggregationFunction', []))
    chains = [n for n in walk_no_nested(func) if isinstance(n, ast.If) and any("== 'count'" in norm(t) for t, _b in if_chain(n) if t is not None)]
    chains = sorted(chains, key=lambda n: n.lineno)[:1]
    if len(chains) != 1:
        raise Unrecognised('C19.A', 'aggregation function dispatch not found', mod.rel)
    handled = {}
    els = None
    for test, body in if_chain(chains[0]):
        if test is None:
            els = body
        elif isinstance(test, ast.Compare) and const_str(test.comparators[0]) is not None and isinstance(test.ops[0], ast.Eq):
            handled[const_str(test.comparators[0])] = body
        elif 'len(' in norm(test):
            handled['<empty>'] = body
    names = set(handled) - {'<empty>'}
    missing = enum - names
    if els is not None and len(missing) == 1:
        handled[next(iter(missing))] = els
        names |= missing
    if names == enum:
        chk.ok('C19.A', f'aggregation functions handled = schema enum {sorted(enum)}')
    else:
        chk.bad('C19.A', mod, 'aggregate_data', f'handled {sorted(names)} vs enum {sorted(enum)}', 'the aggregation functions handled differ from the AggregationFunction enum', node=chains[0])
    reducers = {'count': ['len'], 'max': ['max'], 'min': ['min'], 'sum': ['sum'], 'stddev': ['statistics.pstdev'], 'average': ['statistics.mean', 'statistics.fmean']}
    for fn, want in reducers.items():
        body = handled.get(fn)
        if not body:
            continue
        calls = [call_name(c) for s in body for c in ast.walk(s) if isinstance(c, ast.Call)]
        if len(body) == 1 and isinstance(body[0], ast.Assign) and calls and calls[0] in want:
            chk.ok('C19.A', f"'{fn}' -> {calls[0]}(measure values)")
        else:
            chk.bad('C19.A', mod, 'aggregate_data', f"'{fn}' -> {calls[:1]}", f"aggregation function '{fn}' must be computed with {want[0]} over the non-null measure values; found {calls[:2]}", node=body[0])
    # null skip
    appends = [n for n in walk_no_nested(func) if isinstance(n, ast.Call) and isinstance(n.func, ast.Attribute) and n.func.attr == 'append' and 'aggregate_row' in norm(n.func.value)]
    ok = False
    for a in appends:
        par = a
        while par is not None and not isinstance(par, ast.If):
            par = getattr(par, '_parent', None)
        if par is not None and norm(par.test) == f'{norm(a.args[0])} is not None':
            ok = True
    if ok:
        chk.ok('C19.A', 'null measure values are skipped before reduction (`value is not None`)')
    else:
        chk.bad('C19.A', mod, 'aggregate_data', 'null filter', 'null measure values must be excluded with an `is not None` test (a truthiness test would also drop 0 and false)', node=func)
    # partition key
    keys = [n for n in walk_no_nested(func) if isinstance(n, ast.Assign) and isinstance(n.targets[0], ast.Name) and n.targets[0].id.endswith('_key')]
    if len(keys) == 1 and any(isinstance(c, ast.Call) and call_name(c) == 'value_json' for c in ast.walk(keys[0].value)):
        chk.ok('C19.A', f'rows are partitioned by the serialised category values: {norm(keys[0])[:80]}')
    else:
        chk.bad('C19.A', mod, 'aggregate_data', norm(keys[0])[:100] if keys else 'no key',
                'rows must be partitioned by the value_json serialisation of the category values: a host tuple/hash key merges 1, 1.0 and true (and fails on arrays/objects)', node=keys[0] if keys else func)


def check_sort_top(chk):
    mod = chk.repo.module('data')
    f = mod.func('top_data', 'C19.S')
    data, count = f.args.args[0].arg, f.args.args[1].arg
    order_lists = [n.targets[0].id for n in walk_no_nested(f) if isinstance(n, ast.Assign) and isinstance(n.targets[0], ast.Name) and isinstance(n.value, ast.List) and not n.value.elts]
    loops = [n for n in walk_no_nested(f) if isinstance(n, ast.For)]
    first = [lp for lp in loops if norm(lp.iter) == data]
    second = [lp for lp in loops if isinstance(lp.iter, ast.Name) and lp.iter.id in order_lists]
    rng = [lp for lp in loops if isinstance(lp.iter, ast.Call) and call_name(lp.iter) == 'range']
    ok_order = bool(first) and bool(second) and any(isinstance(s, ast.If) and ' not in ' in norm(s.test) and any(f'{second[0].iter.id}.append(' in norm(x) for x in s.body) for s in first[0].body)
    if ok_order:
        chk.ok('C19.S', 'dataTop: categories are emitted in first-appearance order')
    else:
        chk.bad('C19.S', mod, 'top_data', 'category order', 'top must keep the categories in order of first appearance', node=f)
    if len(rng) == 1 and norm(rng[0].iter) in (f'range(min(int({count}), len({norm(rng[0].iter.args[0].args[1].args[0]) if False else "category_key_rows"})))',) or \
            (len(rng) == 1 and norm(rng[0].iter).startswith(f'range(min(int({count}), len(')):
        chk.ok('C19.S', f'dataTop: the first int({count}) rows of each category ({norm(rng[0].iter)})')
    else:
        chk.bad('C19.S', mod, 'top_data', norm(rng[0].iter)[:80] if rng else 'no range', f'top must keep rows 0 .. min(int({count}), len(rows)) - 1 of each category', node=f)
    g = mod.func('sort_data', 'C19.S')
    calls = [n for n in walk_no_nested(g) if isinstance(n, ast.Call) and isinstance(n.func, ast.Attribute) and n.func.attr == 'sort']
    if len(calls) == 1 and not any(k.arg == 'reverse' for k in calls[0].keywords) and 'cmp_to_key' in norm(calls[0]) and '_sort_data_fn' in norm(calls[0]):
        chk.ok('C19.S', 'dataSort: stable host sort with the value comparator (C11.U checks the comparator)')
    else:
        chk.bad('C19.S', mod, 'sort_data', '; '.join(norm(c)[:80] for c in calls) or 'no sort', 'dataSort must be the stable list sort keyed by the value comparator', node=g)


def check_csv_inference(chk):
    mod = chk.repo.module('data')
    func = mod.func('validate_data', 'C19.V')
    n = 0
    for node in walk_no_nested(func):
        test = None
        if isinstance(node, (ast.If, ast.IfExp)):
            test = node.test
        if test is None:
            continue
        for c in ([test] + (list(test.values) if isinstance(test, ast.BoolOp) else [])):
            inner = c.operand if isinstance(c, ast.UnaryOp) and isinstance(c.op, ast.Not) else c
            if isinstance(inner, ast.Call) and call_name(inner) in ('value_parse_number', 'value_parse_datetime'):
                n += 1
                chk.bad('C19.V', mod, 'validate_data', norm(c)[:80],
                        f'the result of {call_name(inner)} is tested by truthiness: 0 parses to the falsy number 0.0, so a numeric CSV column whose first value is 0 is typed as string '
                        f'(parse results must be tested with `is not None`)', node=node)
            if isinstance(inner, ast.Compare) and isinstance(inner.left, ast.Call) and call_name(inner.left) in ('value_parse_number', 'value_parse_datetime') \
                    and isinstance(inner.ops[0], (ast.Is, ast.IsNot)) and norm(inner.comparators[0]) == 'None':
                n += 1
                chk.ok('C19.V', f'{norm(inner)[:70]} (tested with is / is not None)')
    # order of inference: datetime, boolean, number, string
    infer = None
    for node in walk_no_nested(func):
        if isinstance(node, ast.If) and 'value_parse_datetime' in norm(node.test):
            infer = node
            break
    if infer is not None:
        seq = []
        for test, body in if_chain(infer):
            t = norm(test) if test is not None else 'else'
            seq.append('datetime' if 'parse_datetime' in t else 'boolean' if "'true'" in t else 'number' if 'parse_number' in t else 'string' if t == 'else' else t[:20])
        if seq == ['datetime', 'boolean', 'number', 'string']:
            chk.ok('C19.V', 'CSV type inference order: datetime, boolean, number, string')
        else:
            chk.bad('C19.V', mod, 'validate_data', f'inference order {seq}', 'CSV cell types must be inferred in the order datetime, boolean, number, else string', node=infer)
    if n < 2:
        raise Unrecognised('C19.V', f'only {n} parse-result tests found in validate_data', mod.rel)


def run(chk):
    chk.rule('C19.J', 'join never overwrites a left field; same key function on both sides', floor=4)
    chk.rule('C19.F', 'filter keeps truthy rows in order; calculated field set on every row', floor=2)
    chk.rule('C19.A', 'aggregate: enum coverage, reducer table, null skip, serialised partition key', floor=8)
    chk.rule('C19.S', 'sort comparator/stability; top order and first n rows', floor=3)
    chk.rule('C19.V', 'CSV inference tests parse results with is None; order of inference', floor=3)
    chk.assumptions += ['host list.sort is stable; statistics.pstdev/mean, sum, min, max are the reducers; expression evaluation is C03']
    chk.guard('C19.J', check_join, chk)
    chk.guard('C19.F', check_filter_and_field, chk)
    chk.guard('C19.A', check_aggregate, chk)
    chk.guard('C19.S', check_sort_top, chk)
    chk.guard('C19.V', check_csv_inference, chk)
    # shared clauses
    from . import c12, c16, c09
    chk.rule('C12.sink', 'shared with C12: dataTop count reaches range() coerced (C19.T)')
    eng = c12.Engine(chk)
    before = len(chk.instances)
    chk.guard('C12.sink', eng.run)
    chk.instances[before:] = [i for i in chk.instances[before:] if 'data.' in i['instance'] or '_data_' in i['instance'] or i['verdict'] != 'OK']
    chk.rule('C16.P', 'shared with C16: date-like invalid text does not abort CSV parsing (C19.D)')
    chk.guard('C16.P', c16.check_parser_total, chk)
    chk.rule('C09.I', 'shared with C09: the expression helpers forward / write back the options (C19.O)')
    before = len(chk.instances)
    chk.guard('C09.I', c09.check_identity, chk)
    chk.instances[before:] = [i for i in chk.instances[before:] if i['instance'].startswith('data.') or i['verdict'] != 'OK']
