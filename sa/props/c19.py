"""C19 - data functions implement their relational meaning; CSV typing."""
import ast

from ..core import Unrecognised, norm, call_name, walk_no_nested, const_str, if_chain
from .. import schema as schema_mod
from ..lib import library_functions

EXPLANATION = (
    'Relational meaning over all tables is execution-based and is not decided as a whole; the clauses below are '
    'structural necessary conditions. C19.J (join never overwrites a left field): every store right_names[f] = v is '
    'under the fact v not in left_names (the if-branch, or the exit condition of the renaming loop whose test includes '
    '"in left_names" of the NAME MAP, not of the row list); joined rows are a copy of the left row plus stores under '
    'right_names[...] keys only; bucket and probe use the same key function value_json(evaluate(expr, eval_options, row)). '
    'C19.F: filter appends the same row object iff value_boolean(evaluate(...)), iterating the input in order; the '
    'calculated field stores the evaluated value under the given name on every row. C19.A: aggregation functions '
    'handled = schema enum AggregationFunction; name <-> reducer table (count->len, max->max, min->min, sum->sum, '
    'stddev->pstdev, average->mean); null measure values are skipped before reduction; rows are partitioned by the '
    'serialised category tuple (value_json, not host hashing). C19.S: sort is the stable host sort with the C11 '
    'comparator; top keeps first-appearance category order and the first int(count) rows of each. C19.V: CSV type '
    'inference tests parse results with `is not None` (0 and false are values), in the order datetime, boolean, number, '
    'string. C19.T / C19.D / C19.O are shared with C12.sink, C16.P and C09.I.')
ENUMERATION = 'join name-map stores and row construction, key functions, filter/field loops, aggregate branches, sort/top sites, CSV inference tests'


def check_join(chk):
    _report_sim(chk, 'C19.J', 'join_data', 'every left row paired with the right rows whose serialised key is equal, in order; right fields colliding with ANY left field (of any left row) are renamed '
                'name2, name3 ... to a name used by no left field, no right field and no other renamed field, so no left field is overwritten; unmatched left rows kept (dropped with the flag, as the '
                'test-suite pins); input tables unmodified')


def check_filter_and_field(chk):
    mod = chk.repo.module('data')
    f = mod.func('filter_data', 'C19.F')
    data = f.args.args[0].arg
    loops = [n for n in walk_no_nested(f) if isinstance(n, ast.For)]
    good = False
    for lp in loops:
        if norm(lp.iter) == data and isinstance(lp.target, ast.Name):
            row = lp.target.id
            ifs = [s for s in lp.body if isinstance(s, ast.If)]
            if len(lp.body) == 1 and len(ifs) == 1 and isinstance(ifs[0].test, ast.Call) and call_name(ifs[0].test) == 'value_boolean' \
                    and isinstance(ifs[0].test.args[0], ast.Call) and norm(ifs[0].test.args[0].args[2]) == row and len(ifs[0].body) == 1 \
                    and norm(ifs[0].body[0]).endswith(f'.append({row})') and not ifs[0].orelse:
                res = norm(ifs[0].body[0]).split('.append')[0]
                rets = [r for r in walk_no_nested(f) if isinstance(r, ast.Return)]
                good = len(rets) == 1 and norm(rets[0].value) == res
    if good:
        chk.ok('C19.F', 'dataFilter: rows kept (the same objects, in input order) iff value_boolean(evaluate(expr, options, row))')
    else:
        chk.bad('C19.F', mod, 'filter_data', 'filter loop', 'the filter must keep exactly the rows whose expression value is truthy (value_boolean), as the same objects, in input order', node=f)
    g = mod.func('add_calculated_field', 'C19.F')
    data, fname = g.args.args[0].arg, g.args.args[1].arg
    good = False
    for lp in [n for n in walk_no_nested(g) if isinstance(n, ast.For)]:
        if norm(lp.iter) == data and isinstance(lp.target, ast.Name) and len(lp.body) == 1 and isinstance(lp.body[0], ast.Assign):
            row = lp.target.id
            a = lp.body[0]
            if norm(a.targets[0]) == f'{row}[{fname}]' and isinstance(a.value, ast.Call) and len(a.value.args) == 3 and norm(a.value.args[2]) == row:
                good = True
    if good:
        chk.ok('C19.F', 'dataCalculatedField: row[fieldName] = evaluate(expr, options, row) for every row of the input')
    else:
        chk.bad('C19.F', mod, 'add_calculated_field', 'field loop', 'the calculated field must be stored under the given name on every row of the input', node=g)


def _data_sim(chk):
    from .. import libsim
    if not hasattr(chk, '_data_sim'):
        chk._data_sim = libsim.run_data_functions(chk.repo, 'C19.A')
    return chk._data_sim


def _report_sim(chk, rule, fname, what):
    counts, problems = _data_sim(chk)
    mod = chk.repo.module('data')
    mine = [p for p in problems if p[0] == fname]
    if not mine:
        chk.ok(rule, f'{fname}: {counts.get(fname, 0)} abstract calls over 5 tables (duplicate / null / missing / mixed-type / look-alike keys) - {what} (E6l)', count=counts.get(fname, 1))
        return
    seen = set()
    for _f, kind, msg in mine:
        if kind in seen:
            continue
        seen.add(kind)
        chk.bad(rule, mod, fname, f'{fname} [{kind}]: {msg[:100]}', f'abstract execution: {msg} ({sum(1 for p in mine if p[1] == kind)} of {counts.get(fname, 0)} calls deviate this way)', node=mod.funcs.get(fname))


def check_aggregate(chk):
    _report_sim(chk, 'C19.A', 'aggregate_data', 'rows are partitioned by the serialised category values in first-appearance order; count / sum / min / max / average / stddev are computed over the '
                'non-null measure values (null when there are none), under the measure name or field; the input is not modified')


def check_sort_top(chk):
    mod = chk.repo.module('data')
    _report_sim(chk, 'C19.S', 'top_data', 'the first int(count) rows of each category in first-appearance order, counts given as int or float, categories by serialised key')
    g = mod.func('sort_data', 'C19.S')
    calls = [n for n in walk_no_nested(g) if isinstance(n, ast.Call) and isinstance(n.func, ast.Attribute) and n.func.attr == 'sort']
    if len(calls) == 1 and not any(k.arg == 'reverse' for k in calls[0].keywords) and 'cmp_to_key' in norm(calls[0]) and '_sort_data_fn' in norm(calls[0]):
        chk.ok('C19.S', 'dataSort: stable host sort with the value comparator (C11.U checks the comparator)')
    else:
        chk.bad('C19.S', mod, 'sort_data', '; '.join(norm(c)[:80] for c in calls) or 'no sort', 'dataSort must be the stable list sort keyed by the value comparator', node=g)


def check_csv_dialect(chk):
    """C19.V: dataParseCSV reads the dialect the typed-table writer produces (comma separated, quotes doubled, every other character literal)"""
    lib = chk.repo.module('library')
    n = 0
    for fname, func in lib.funcs.items():
        for node in walk_no_nested(func):
            if isinstance(node, ast.Call) and (call_name(node) or '').split('.')[-1] in ('DictReader', 'reader'):
                n += 1
                kws = {k.arg: k.value for k in node.keywords if k.arg}
                wrong = []
                if 'escapechar' in kws and not (isinstance(kws['escapechar'], ast.Constant) and kws['escapechar'].value is None):
                    wrong.append(f"escapechar={norm(kws['escapechar'])}: a backslash in a cell is consumed as an escape (paths, regex text, a trailing \\ shift the cell boundaries)")
                if 'doublequote' in kws and isinstance(kws['doublequote'], ast.Constant) and kws['doublequote'].value is False:
                    wrong.append('doublequote=False: a doubled quote inside a quoted cell no longer denotes one quote')
                if 'delimiter' in kws and not (isinstance(kws['delimiter'], ast.Constant) and kws['delimiter'].value == ','):
                    wrong.append(f"delimiter={norm(kws['delimiter'])}")
                if 'quoting' in kws or 'quotechar' in kws:
                    wrong.append('a non-default quoting / quotechar')
                if 'dialect' in kws or (len(node.args) > 1 and (call_name(node) or '').endswith('reader')):
                    wrong.append('a non-default dialect')
                if wrong:
                    chk.bad('C19.V', lib, fname, norm(node)[:100], f'the CSV reader is configured with {"; ".join(wrong)}: cells of a typed table written as CSV are not read back unchanged', node=node)
                else:
                    chk.ok('C19.V', f'{fname}: the CSV reader uses the comma / doubled-quote dialect with no escape character ({norm(node)[:60]})')
    if n == 0:
        raise Unrecognised('C19.V', 'no csv reader call found in library.py', lib.rel)


def check_csv_typing_sim(chk, rule='C19.V'):
    """C19.V primary: typed tables (numbers, booleans, datetimes, strings incl. quoted commas / quotes and date-like invalid text, nulls) written as CSV and read back with
    dataParseCSV, evaluated (E6l) -> True when every cell comes back as the typed value"""
    from .. import libsim
    from ..lib import library_functions
    libfuncs = {f.name: f for f in library_functions(chk.repo, rule)}
    n, problems = libsim.run_csv_typing(chk.repo, libfuncs, rule)
    lf = libfuncs['dataParseCSV']
    if problems:
        chk.bad(rule, lf.mod, lf.pyname, problems[0][1][:110], f'evaluation of dataParseCSV on typed tables written as CSV ({n} cells): {problems[0][1]} ({len(problems)} deviations)', node=lf.func)
        return False
    chk.ok(rule, f'{n} cells of typed tables (numbers incl. 1e21 and fractions, booleans, datetimes with milliseconds and date-only, strings with quoted commas / quotes, date-like invalid '
           f'text such as 2024-02-30 and 2024-13-01, nulls) written as CSV and read back with dataParseCSV: the same typed values', count=n)
    return True


def check_csv_inference(chk):
    mod = chk.repo.module('data')
    func = mod.func('validate_data', 'C19.V')
    n = 0
    for node in walk_no_nested(func):
        test = None
        if isinstance(node, (ast.If, ast.IfExp)):
            test = node.test
        if test is None:
            continue
        for c in ([test] + (list(test.values) if isinstance(test, ast.BoolOp) else [])):
            inner = c.operand if isinstance(c, ast.UnaryOp) and isinstance(c.op, ast.Not) else c
            if isinstance(inner, ast.Call) and call_name(inner) in ('value_parse_number', 'value_parse_datetime'):
                n += 1
                chk.bad('C19.V', mod, 'validate_data', norm(c)[:80],
                        f'the result of {call_name(inner)} is tested by truthiness: 0 parses to the falsy number 0.0, so a numeric CSV column whose first value is 0 is typed as string '
                        f'(parse results must be tested with `is not None`)', node=node)
            if isinstance(inner, ast.Compare) and isinstance(inner.left, ast.Call) and call_name(inner.left) in ('value_parse_number', 'value_parse_datetime') \
                    and isinstance(inner.ops[0], (ast.Is, ast.IsNot)) and norm(inner.comparators[0]) == 'None':
                n += 1
                chk.ok('C19.V', f'{norm(inner)[:70]} (tested with is / is not None)')
    # order of inference: datetime, boolean, number, string
    infer = None
    for node in walk_no_nested(func):
        if isinstance(node, ast.If) and 'value_parse_datetime' in norm(node.test):
            infer = node
            break
    if infer is not None:
        seq = []
        for test, body in if_chain(infer):
            t = norm(test) if test is not None else 'else'
            seq.append('datetime' if 'parse_datetime' in t else 'boolean' if "'true'" in t else 'number' if 'parse_number' in t else 'string' if t == 'else' else t[:20])
        if seq == ['datetime', 'boolean', 'number', 'string']:
            chk.ok('C19.V', 'CSV type inference order: datetime, boolean, number, string')
        else:
            chk.bad('C19.V', mod, 'validate_data', f'inference order {seq}', 'CSV cell types must be inferred in the order datetime, boolean, number, else string', node=infer)
    if n < 2:
        raise Unrecognised('C19.V', f'only {n} parse-result tests found in validate_data', mod.rel)


def run(chk):
    chk.rule('C19.J', 'join: pairs by serialised key; collision renaming never overwrites a left field (abstract execution vs the relational meaning)', floor=50)
    chk.rule('C19.F', 'filter keeps truthy rows in order; calculated field set on every row', floor=2)
    chk.rule('C19.A', 'aggregate: partition by serialised category values, six reducers over non-null values (abstract execution vs the relational meaning)', floor=100)
    chk.rule('C19.S', 'sort comparator/stability; top: first n rows per category in first-appearance order (abstract execution)', floor=50)
    chk.rule('C19.V', 'CSV inference tests parse results with is None; order of inference', floor=3)
    chk.assumptions += ['host list.sort is stable; statistics.pstdev/mean, sum, min, max are the reducers; expression evaluation is C03']
    chk.guard('C19.J', check_join, chk)
    chk.guard('C19.F', check_filter_and_field, chk)
    chk.guard('C19.A', check_aggregate, chk)
    chk.guard('C19.S', check_sort_top, chk)
    typing_ok = chk.guard('C19.V', check_csv_typing_sim, chk)
    chk.guard('C19.V', check_csv_dialect, chk)
    chk.readback(typing_ok)('C19.V', check_csv_inference, chk)
    # shared clauses
    from . import c12, c16, c09, c05
    chk.rule('C05.K', 'shared with C05: dataParseCSV rows are objects keyed by exactly the header fields (ragged rows; evaluation on concrete texts)')
    chk.guard('C05.K', c05.check_object_keys_sim, chk)
    chk.rule('C12.sink', 'shared with C12: dataTop count reaches range() coerced (C19.T)')
    eng = c12.Engine(chk)
    before = len(chk.instances)
    chk.guard('C12.sink', eng.run)
    chk.instances[before:] = [i for i in chk.instances[before:] if 'data.' in i['instance'] or '_data_' in i['instance'] or i['verdict'] != 'OK']
    chk.rule('C16.P', 'shared with C16: date-like invalid text does not abort CSV parsing (C19.D)')
    chk.guard('C16.P', c16.check_parser_total, chk)
    chk.rule('C09.I', 'shared with C09: the expression helpers forward / write back the options (C19.O)')
    before = len(chk.instances)
    c09.check_identity_with_sim(chk)
    chk.instances[before:] = [i for i in chk.instances[before:] if i['instance'].startswith('data.') or i['verdict'] != 'OK']
