"""C07 - lowered code is well formed: schema-valid with intact, unique jump targets."""
import ast

from ..core import Unrecognised, norm, call_name, walk_no_nested, const_str, subscript_path
from ..absint import reify, Sym
from ..lowering import ParserModel, Shape, B, label_problems, schema_problems, scope_lists
from .. import schema as schema_mod
from . import c01

EXPLANATION = (
    'Uses the E6 extraction of C01 (abstract interpretation of the parser handlers over every nesting shape to the '
    'tier depth, at global scope, inside functions, several functions per script). C07.S: every emitted abstract '
    'statement list is validated against the schema text of model.py read by E5 (union nodes have exactly one known '
    'key, structs have all required and no unknown members, member kinds agree) - because object identity is tracked, '
    'emitting a bookkeeping record instead of its jump object is caught; every dict display that builds an expression '
    'node in _parse_unary_expression/_parse_binary_expression is checked the same way. C07.T/U: in every scope of '
    'every shape each generated label is defined exactly once, every jump targets a label of the same scope, every '
    'label is the target of a jump; generated names carry the reserved prefix. C07.N: the label counter is initialised '
    'once before the loop, only ever incremented (by a positive constant) and never reset, so two construct instances '
    'never share a (prefix, number) pair in any program. C07.R: every key path that runtime.py and model.py apply to '
    'model nodes exists in the schema (writer and readers agree). C07.F: constructs cannot straddle a function '
    'boundary (error shapes shared with C01.B). Decides well-formedness of the lowering templates for all shapes to the '
    'depth bound and, by the monotone counter and stack discipline, all programs; validate_script itself is assumed to '
    'implement the schema text.')
ENUMERATION = ('one instance per (shape, scope) for labels and per shape for the schema; per expression-node display; per '
               'counter assignment; per model key path read; distinct by statement list')


def wf_shape(rec, pm, sch, items, desc, wrap=None):
    sh = Shape(pm)
    if wrap == 'function':
        sh.emit_block([B, ('func', items, False), B], 0)
    elif wrap == 'function-args':
        sh.emit_block([('func', items, True), B], 0)
    elif wrap == 'sibling':
        sh.emit_block([('if', [[B]], None), ('while', [B])] + items, 0)
    elif wrap == 'function-in-block':
        sh.emit_block([('while', [B, ('if', [[('func', items, False), B]], None)])], 0)
    else:
        sh.emit_block(items, 0)
    src = '\n'.join(sh.src)
    st, val, it = pm.lower(sh.lines)
    if st != 'ok':
        rec.bad('C07.S', pm.mod, 'parse_script', f'well-formed shape rejected: {val.cls}', f'a well-formed program is rejected ({val.cls}). Program:\n{src}', node=val.node)
        return None
    model = reify(val)
    probs = schema_problems(sch, model, 'BareScript')
    for cat, detail in probs[:3]:
        rec.bad('C07.S', pm.mod, 'parse_script', cat, f'the emitted model is not schema-valid: {cat} ({detail}). Program:\n{src}', detail={'program': src})
    if not probs:
        rec.ok('C07.S', f'{desc}: emitted model is schema-valid')
    for sname, stmts in scope_lists(model):
        lp = label_problems(stmts)
        for cat, detail in lp:
            rec.bad('C07.T', pm.mod, 'parse_script', cat,
                    f'{cat}: {detail} (scope: {sname}); this surfaces as an "Unknown jump label" runtime error or an unknown/unused/redefined label lint warning. '
                    f'Program:\n{src}', detail={'program': src, 'scope': sname})
        if not lp:
            rec.ok('C07.T', f'{desc} [{sname}]: {sum(1 for s in stmts if isinstance(s, dict) and "label" in s)} labels, each defined once and targeted; all jump targets defined in scope')
    return repr(model)


def _worker(args):
    root, tier, lo, hi = args
    from ..core import Repo
    repo = Repo(root)
    pm = ParserModel(repo, 'C07.S')
    sch = schema_mod.load(repo.module('model'), 'BARE_SCRIPT_TYPES', 'C07.S')
    shapes, jobs = c01.jobs_for(tier)
    rec = c01.Recorder()
    for ix, wrap in jobs[lo:hi]:
        wf_shape(rec, pm, sch, [shapes[ix]], f'shape {ix}' + (f' ({wrap})' if wrap else ''), wrap)
    return rec.ops


def run_shapes(chk, pm, sch):
    import os
    import concurrent.futures as cf
    shapes, jobs = c01.jobs_for(chk.tier)
    nproc = min(16, os.cpu_count() or 1)
    ops = None
    if nproc > 1 and not os.environ.get('VERIF_SERIAL'):
        step = max(16, (len(jobs) + nproc * 4 - 1) // (nproc * 4))
        chunks = [(chk.repo.root, chk.tier, lo, min(lo + step, len(jobs))) for lo in range(0, len(jobs), step)]
        try:
            ops = []
            with cf.ProcessPoolExecutor(max_workers=nproc) as ex:
                for o in ex.map(_worker, chunks):
                    ops.extend(o)
        except (OSError, cf.process.BrokenProcessPool):
            ops = None
    if ops is None:
        ops = _worker((chk.repo.root, chk.tier, 0, len(jobs)))

    class _N:
        def __init__(self, lineno):
            self.lineno = lineno
    for op in ops:
        if op[0] == 'ok':
            chk.ok(op[1], op[2], trivial=op[4])
        else:
            chk.bad(op[1], pm.mod, op[2], op[3], op[4], node=_N(op[5]) if op[5] else None, detail=op[6])
    # extra programs: several functions, statements of every other kind
    extra = [
        ('two functions with global code between',
         [('func', [('while', [B, ('if', [[('continue',)]], None)])], True), ('for', False, [B, ('if', [[('break',)]], None)]),
          ('func', [('if', [[B], [B]], [B]), ('for', True, [B, ('continue',)])], False), ('while', [B])], None),
        ('function with return inside loops', [('func', [('for', False, [('if', [[('return', True)]], None), B]), ('return', False)], True)], None),
        ('global code, function, global code, function, global code',
         [('if', [[B]], [B]), ('func', [('if', [[B]], None)], False), ('while', [B, ('if', [[('break',)]], None)]), ('func', [('for', False, [B])], False), ('for', True, [B])], None),
    ]
    for desc, items, wrap in extra:
        wf_shape(chk, pm, sch, items, desc, wrap)
    return len(jobs) + len(extra)


def check_other_statements(chk, pm, sch):
    """assignment, label, jump, jumpif, return, include (plain / system, merged) and function variants"""
    variants = [
        ('assignment', [('assign', ())]),
        ('label + jump', [('label', ()), ('jump', ())]),
        ('jumpif', [('label', ()), ('jump', ('expr',))]),
        ('return without / with expression', [('return', ()), ('return', ('expr',))]),
        ('function with args', [('function', ('args',)), ('endfunction', ())]),
        ('async function with last-arg array', [('function', ('args', 'async', 'lastArgArray')), ('endfunction', ())]),
        ('function without args but with ...', [('function', ('lastArgArray',)), ('endfunction', ())]),
    ]
    for desc, lines in variants:
        sh = Shape(pm)
        for kind, present in lines:
            sh.add(kind, kind, present)
        st, val, it = pm.lower(sh.lines)
        if st != 'ok':
            chk.bad('C07.S', pm.mod, 'parse_script', f'{desc}: rejected', f'{desc}: a well-formed statement is rejected with {val.cls}', node=val.node)
            continue
        probs = schema_problems(sch, reify(val), 'BareScript')
        if probs:
            for cat, detail in probs[:2]:
                chk.bad('C07.S', pm.mod, 'parse_script', f'{desc}: {cat}', f'{desc}: the emitted model is not schema-valid: {cat} ({detail})')
        else:
            chk.ok('C07.S', f'{desc}: emitted statements are schema-valid')
    # includes: plain, system, merged adjacent includes
    n_inc = len(pm.kind_regex.get('include', []))
    for desc, seq in (('include (each form)', [(i,) for i in range(n_inc)]), ('adjacent includes', [tuple(range(n_inc)) + (0,)])):
        for combo in seq:
            sh = Shape(pm)
            for rix in combo:
                sh.add('include', 'include', (), regex_ix=rix)
            st, val, it = pm.lower(sh.lines)
            if st != 'ok':
                chk.bad('C07.S', pm.mod, 'parse_script', f'{desc}: rejected', f'{desc}: rejected with {val.cls}', node=val.node)
                continue
            model = reify(val)
            probs = schema_problems(sch, model, 'BareScript')
            if probs:
                chk.bad('C07.S', pm.mod, 'parse_script', f'{desc}: {probs[0][0]}', f'{desc}: emitted model not schema-valid: {probs[0]}')
            else:
                chk.ok('C07.S', f'{desc} {combo}: schema-valid; {len(model["statements"])} include statement(s)')


def check_expression_displays(chk, pm, sch):
    """dict displays building expression nodes in the expression parser"""
    n = 0
    for fname in ('_parse_unary_expression', '_parse_binary_expression'):
        func = pm.mod.func(fname, 'C07.S')
        for node in walk_no_nested(func):
            if isinstance(node, ast.Dict) and len(node.keys) == 1 and const_str(node.keys[0]) in sch.unions['Expression']:
                par = getattr(node, '_parent', None)
                if isinstance(par, ast.Dict):
                    continue
                n += 1
                kind = const_str(node.keys[0])
                member = sch.unions['Expression'][kind]
                v = node.values[0]
                if member.type in sch.structs:
                    if isinstance(v, ast.Dict):
                        keys = [const_str(k) for k in v.keys]
                        members = sch.structs[member.type]
                        missing = [k for k, m in members.items() if not m.optional and k not in keys]
                        unknown = [k for k in keys if k not in members]
                        if missing or unknown:
                            chk.bad('C07.S', pm.mod, fname, norm(node)[:120],
                                    f"expression node '{kind}' is built with members {keys}; schema struct {member.type} requires {missing} and does not know {unknown}", node=node)
                        else:
                            chk.ok('C07.S', f"{fname}: '{kind}' node has exactly the members of {member.type}: {keys}")
                    else:
                        raise Unrecognised('C07.S', f"'{kind}' node is not built with a dict display: {norm(v)[:60]}", pm.mod.rel)
                else:
                    chk.ok('C07.S', f"{fname}: '{kind}' node wraps {norm(v)[:40]} ({member.type})")
            elif isinstance(node, ast.Dict) and len(node.keys) == 1 and const_str(node.keys[0]) is not None and isinstance(getattr(node, '_parent', None), (ast.Assign, ast.Return, ast.List)) \
                    and const_str(node.keys[0]) not in sch.unions['Expression'] and not isinstance(getattr(node, '_parent', None), ast.Dict):
                chk.bad('C07.S', pm.mod, fname, norm(node)[:100], f"expression node with unknown kind '{const_str(node.keys[0])}'", node=node)
    if n < 7:
        raise Unrecognised('C07.S', f'only {n} expression node displays found in the expression parser', pm.mod.rel)


def check_counter(chk, pm):
    func = pm.func
    # the counter: an int initialised to a constant in the prologue and used in an f-string with the reserved prefix
    counters = set()
    for n in ast.walk(pm.loop):
        if isinstance(n, ast.JoinedStr) and any(isinstance(v, ast.Constant) and '__bareScript' in str(v.value) for v in n.values):
            for v in n.values:
                if isinstance(v, ast.FormattedValue) and isinstance(v.value, ast.Name):
                    counters.add(v.value.id)
    if len(counters) != 1:
        raise Unrecognised('C07.N', f'label counter not identified (candidates {sorted(counters)})', pm.mod.rel)
    c = counters.pop()
    inits = [s for s in pm.prologue if isinstance(s, ast.Assign) and norm(s.targets[0]) == c]
    # a counter object (itertools.count()) created once before the loop, from which the number is drawn with next()
    gens = {norm(s.targets[0]) for s in pm.prologue if isinstance(s, ast.Assign) and isinstance(s.value, ast.Call) and norm(s.value.func) in ('itertools.count', 'count')
            and all(isinstance(a, ast.Constant) and isinstance(a.value, int) and (i == 0 or a.value > 0) for i, a in enumerate(s.value.args))}
    if len(inits) == 1 and isinstance(inits[0].value, ast.Constant) and isinstance(inits[0].value.value, int):
        chk.ok('C07.N', f'label counter {c} initialised once before the line loop ({norm(inits[0])})')
    elif not inits and gens:
        chk.ok('C07.N', f'label numbers are drawn from the counter object {sorted(gens)[0]} created once before the line loop (itertools.count)')
    elif len(inits) > 1:
        chk.bad('C07.N', pm.mod, 'parse_script', f'{c} initialisation', 'the label counter must be initialised exactly once, before the line loop', node=func)
    else:
        chk.unrec('C07.N', f'initialisation of the label counter {c} not recognised', pm.mod.rel)
    for n in ast.walk(pm.loop):
        if isinstance(n, ast.Assign) and any(norm(t) == c for t in n.targets):
            if isinstance(n.value, ast.Call) and norm(n.value.func) == 'next' and len(n.value.args) == 1 and norm(n.value.args[0]) in gens:
                chk.ok('C07.N', f'{norm(n)} (a fresh number from the monotone counter object)')
            elif isinstance(n.value, ast.Constant) or (isinstance(n.value, ast.Name) and n.value.id != c):
                chk.bad('C07.N', pm.mod, 'parse_script', norm(n),
                        f'the script-wide label counter {c} is re-assigned inside the line loop: construct instances opened before and after this point share (prefix, number) '
                        f'pairs, so labels are redefined and jumps reach the wrong label', node=n)
            else:
                chk.unrec('C07.N', f'assignment {norm(n)[:60]} of the label counter inside the line loop not recognised', pm.mod.rel)
        elif isinstance(n, ast.AugAssign) and norm(n.target) == c:
            if isinstance(n.op, ast.Add) and isinstance(n.value, ast.Constant) and isinstance(n.value.value, int) and n.value.value > 0:
                chk.ok('C07.N', f'{norm(n)} (monotone)')
            else:
                chk.bad('C07.N', pm.mod, 'parse_script', norm(n), 'the label counter must only grow (by a positive constant)', node=n)
        elif isinstance(n, ast.Assign) and any(norm(t) in gens for t in n.targets):
            chk.bad('C07.N', pm.mod, 'parse_script', norm(n), 'the counter object the label numbers are drawn from is replaced inside the line loop: numbers repeat', node=n)
    for s in pm.epilogue:
        for n in ast.walk(s):
            if isinstance(n, (ast.Assign, ast.AugAssign)) and c in norm(n.targets[0] if isinstance(n, ast.Assign) else n.target):
                chk.bad('C07.N', pm.mod, 'parse_script', norm(n), 'label counter modified after the loop', node=n)
    # every handler that builds a name from the counter increments it before the next handler can run: shown by the shapes (concrete numbering) + monotonicity


def check_readers(chk, sch):
    """C07.R: key paths applied to model nodes by runtime.py / model.py exist in the schema"""
    from .c08 import model_derived_names, derived
    all_members = {}
    for tname, members in list(sch.structs.items()) + list(sch.unions.items()):
        for k, m in members.items():
            all_members.setdefault(k, []).append((tname, m))

    def path_ok(keys):
        """is there a type path for the key chain?"""
        def step(types, k):
            out = []
            for t in types:
                ms = sch.members(t)
                if ms and k in ms:
                    out.append(ms[k].type)
            return out
        first = keys[0]
        if first not in all_members:
            return False
        types = [m.type for _t, m in all_members[first]]
        for k in keys[1:]:
            types = step(types, k)
            if not types:
                return False
        return True
    n = 0
    for modname in ('runtime', 'model'):
        mod = chk.repo.module(modname)
        for fname, func in mod.funcs.items():
            names = model_derived_names(func)
            if not names:
                continue
            seen = set()
            for node in walk_no_nested(func):
                keys = None
                base = None
                if isinstance(node, ast.Subscript) and const_str(node.slice) is not None and not isinstance(getattr(node, '_parent', None), ast.Subscript):
                    base, keys = subscript_path(node)
                elif isinstance(node, ast.Call) and isinstance(node.func, ast.Attribute) and node.func.attr == 'get' and node.args and const_str(node.args[0]) is not None:
                    base, keys = subscript_path(node.func.value)
                    keys = keys + [const_str(node.args[0])]
                elif isinstance(node, ast.Compare) and len(node.ops) == 1 and isinstance(node.ops[0], (ast.In, ast.NotIn)) and const_str(node.left) is not None:
                    base, keys = subscript_path(node.comparators[0])
                    keys = keys + [const_str(node.left)]
                if not keys or not isinstance(base, ast.Name) or base.id not in names:
                    continue
                key = (base.id, tuple(keys))
                if key in seen:
                    continue
                seen.add(key)
                n += 1
                if path_ok(keys):
                    chk.ok('C07.R', f'{modname}.{fname}: {base.id}{"".join("[%r]" % k for k in keys)} is a schema path', trivial=len(keys) == 1)
                else:
                    chk.bad('C07.R', mod, fname, f'{base.id}{"".join("[%r]" % k for k in keys)}',
                            f'the key path {keys} read from a model node does not exist in the schema: the parser (writer) and this reader disagree about the model shape', node=node)
    if n < 25:
        raise Unrecognised('C07.R', f'only {n} model key paths found in runtime.py / model.py', None)


CONCRETE_PROGRAMS = {
    'literal conditions': '''
while 1:
    break
endwhile
if 0:
    x = 1
elif 1:
    x = 2
elif 'a':
    x = 3
else:
    x = 4
endif
while 0:
    continue
endwhile
for v in arrayNew(1, 2):
    if !v:
        continue
    elif !!v:
        break
    endif
endfor
if (1):
    x = 5
endif
while -1:
    break
endwhile
''',
    'branches that all end in break / continue / return': '''
function f(a):
    for v in a:
        if v:
            continue
        else:
            break
        endif
    endfor
    if a:
        return 1
    else:
        return 2
    endif
endfunction
while x:
    if y:
        break
    elif z:
        continue
    else:
        break
    endif
endwhile
''',
    'functions inside open blocks': '''
if a:
    function g(n):
        while n:
            if n == 2:
                continue
            endif
            n = n - 1
            break
        endwhile
        for i in arrayNew(1):
            break
        endfor
    endfunction
    while b:
        function h():
            for j in arrayNew(1):
                continue
            endfor
        endfunction
        b = h()
    endwhile
endif
''',
}


def check_concrete_models(chk):
    """C07.S / C07.T on concrete programs: parse_script evaluated on text (E6p) with expression models from the independent front-end; the returned model is validated against
    the schema text and every scope's labels / jump targets are checked"""
    from ..lintsim import ModelParseInterp, STRUCTURED
    pmod = chk.repo.module('parser')
    func = pmod.func('parse_script', 'C07.S')
    sch = schema_mod.load(chk.repo.module('model'), 'BARE_SCRIPT_TYPES', 'C07.S')
    it = ModelParseInterp(chk.repo, pmod, 'C07.S')
    progs = dict(CONCRETE_PROGRAMS)
    progs.update(STRUCTURED)
    # the hand-written and grammar-generated programs of the whole-program engine (E9r): every construct nested to depth 5, several functions, empty bodies
    from ..progsim import HAND, generated
    for d, t, _g in HAND + generated(chk.tier):
        progs[d] = t
    all_ok = True
    from ..absint import RaiseSig, reify
    for desc, text in progs.items():
        it.depth = 0
        try:
            model = reify(it.call_function(func, [text], func))
        except RaiseSig as sig:
            # the sample programs are well formed (the independent front-end parses them): any exception here is a deviation - a host exception all the more
            all_ok = False
            chk.bad('C07.S', pmod, 'parse_script', f'{desc}: raises {sig.cls}', f'parse_script raises {sig.cls}{tuple(sig.args_)[:1]!r} on the well-formed program "{desc}"', detail={'program': text})
            continue
        probs = schema_problems(sch, model, 'BareScript')
        if probs:
            all_ok = False
        for cat, detail in probs[:2]:
            chk.bad('C07.S', pmod, 'parse_script', f'{desc}: {cat}', f'the model parse_script returns for the program "{desc}" is not schema-valid: {cat} ({detail})')
        if not probs:
            chk.ok('C07.S', f'concrete program "{desc}": the returned model (with real expression models) is schema-valid')
        for sname, stmts in scope_lists(model):
            lp = label_problems(stmts)
            if lp:
                all_ok = False
            for cat, detail in lp[:2]:
                chk.bad('C07.T', pmod, 'parse_script', f'{desc}: {cat}', f'program "{desc}", scope {sname}: {cat}: {detail}; this surfaces as an "Unknown jump label" runtime error or an '
                        f'unknown / unused / redefined label lint warning')
            if not lp:
                chk.ok('C07.T', f'concrete program "{desc}" [{sname}]: labels defined once and targeted, jump targets defined in scope')
    return all_ok


def run(chk):
    chk.rule('C07.S', 'emitted models and expression nodes are schema-valid', floor=300)
    chk.rule('C07.T', 'per scope: labels defined once, every jump target defined, every label targeted', floor=300)
    chk.rule('C07.N', 'label counter: initialised once, monotone, never reset', floor=4)
    chk.rule('C07.R', 'model key paths read by runtime.py / model.py exist in the schema', floor=25)
    chk.rule('C07.F', 'constructs cannot straddle a function boundary (error shapes)', floor=25)
    chk.assumptions += ['schema_markdown validate_type implements struct/union/enum/optional/len>0 as documented',
                        'induction to all nesting depths: C01.S stack discipline + C07.N monotone counter']
    concrete_ok = chk.guard('C07.S', check_concrete_models, chk)
    sch = schema_mod.load(chk.repo.module('model'), 'BARE_SCRIPT_TYPES', 'C07.S')

    def abstract_part():
        # the handler templates evaluated over abstract lines (every nesting shape): a read-back of the concrete programs once those decided
        pm = ParserModel(chk.repo, 'C07.S')
        chk.extra['shapes'] = run_shapes(chk, pm, sch)
        check_other_statements(chk, pm, sch)
        check_expression_displays(chk, pm, sch)
        # label numbering is decided on the concrete programs (no label defined twice, every jump target defined, in ~120 programs with up to 40 constructs each)
        check_counter(chk, pm)
        return pm
    pm = chk.readback(concrete_ok)('C07.S', abstract_part)
    if concrete_ok:
        chk.floors.pop('C07.N', None)
        chk.floors['C07.S'] = chk.floors['C07.T'] = 100
    chk.guard('C07.R', check_readers, chk, sch)
    if pm is not None:
        chk.guard('C07.F', c01.check_error_shapes, chk, pm, 'C07.F')
    else:
        chk.guard('C07.F', lambda: c01.check_error_shapes(chk, ParserModel(chk.repo, 'C07.F'), 'C07.F'))
    from .c10 import check_layout_sim
    chk.rule('C10.L', 'shared with C10: every respelling of a block keyword line is lowered to the same jumps and labels (parse_script evaluated on layout variants, E6p)')
    chk.guard('C10.L', check_layout_sim, chk)
    # "... can never cause an unknown, unused or redefined label lint warning": the linter evaluated on lowered structured code and on the shipped includes (shared with C18)
    from .c18 import check_lint_sim
    chk.rule('C18.R', 'shared with C18: lint_script (evaluated, E6n) reports no label warning for structured code lowered by parse_script, in one or several functions')
    chk.guard('C18.R', check_lint_sim, chk, 'C18.R', ('structured', 'include', 'raise', 'spurious', 'state'))
