"""C15 - array, object and string functions obey their sequence / map / string contracts."""
import ast

from ..core import Unrecognised, norm, call_name, walk_no_nested, const_str, if_chain
from ..atoms import ATOMS, AtomEval, Unknown
from ..cfg import CFG, no_exc
from ..lib import library_functions

EXPLANATION = (
    'Reference-model equality over call histories is execution-based and is not decided. Decided are the per-function '
    'disciplines whose violation is how such contracts break, checked on every sibling of the registry. C15.V: the '
    'failure value given to value_args_validate and the third argument of every explicit raise ValueArgsError are the '
    'same constant, and match the sentinel the doc comment promises. C15.M: on no CFG path does a mutation of an '
    'argument container precede the validation call or an explicit failure exit ("leaves every argument unchanged"). '
    'C15.B: every element access / slice of an argument sequence by an argument index has a lower-bound fact in the '
    'argument model (gte >= 0) and a dominating upper-bound test index >= len (> for slice ends) that raises. C15.A: '
    'functions documented to return their argument return that very object after mutating it in place; functions '
    'documented to return a copy / slice / new container return a fresh constructor expression on every path. C15.T: '
    'the type test of value_args_validate, evaluated over (declared type x host type atom), accepts exactly the atoms of '
    'that BareScript type (bool is not a number; date and datetime are datetimes). C15.H: thin wrappers of host '
    'sequence/string operations return exactly that host operation of the validated arguments (reference model by '
    'construction): regexEscape = re.escape, URL encoding = urllib.parse.quote with a safe set not containing %, '
    'regexSplit = regex.split, string/array/object accessors. C15.D: optional numeric arguments are defaulted by '
    '`is None` tests, never by `x or default` (0 is a legal value). Freshness of argument lists is C04.O / C08.A.')
ENUMERATION = 'per registered function: failure values, mutation/validation order, index sinks, return aliasing; 7 declared types x 13 atoms; wrapper table'

RETURN_SAME = {'arrayExtend': 0, 'arrayPush': 0, 'arraySort': 0, 'objectAssign': 0, 'dataSort': 0, 'dataValidate': 0, 'dataCalculatedField': 0}
RETURN_FRESH = ['arrayCopy', 'arraySlice', 'arrayNewSize', 'objectCopy', 'objectKeys', 'objectNew', 'stringSplit', 'regexSplit', 'regexMatchAll', 'dataFilter', 'dataJoin',
                'dataTop', 'dataAggregate']
MUTATORS = {'append', 'extend', 'insert', 'pop', 'remove', 'clear', 'sort', 'reverse', 'update', 'setdefault', 'popitem'}
TYPE_ATOMS = {'number': {'int', 'float'}, 'string': {'str'}, 'array': {'list'}, 'object': {'dict'}, 'datetime': {'date', 'datetime'}, 'regex': {'regex'},
              'function': {'function'}}
WRAPPERS = {
    # script name -> accepted normalised return expressions with {0},{1},... = unpack targets
    'stringLower': ['{0}.lower()'], 'stringUpper': ['{0}.upper()'], 'stringTrim': ['{0}.strip()'],
    'stringStartsWith': ['{0}.startswith({1})'], 'stringEndsWith': ['{0}.endswith({1})'], 'stringReplace': ['{0}.replace({1}, {2})'],
    'stringSplit': ['{0}.split({1})'], 'regexSplit': ['{0}.split({1})'], 'stringLength': ['len({0})'], 'arrayLength': ['len({0})'],
    'objectKeys': ['list({0}.keys())', 'list({0})'], 'arrayCopy': ['list({0})', '{0}[:]', '{0}.copy()'], 'objectCopy': ['dict({0})', '{0}.copy()'],
    'regexEscape': ['re.escape({0})'], 'objectHas': ['{1} in {0}'], 'stringRepeat': ['{0} * int({1})'], 'arrayJoin': ['{1}.join((value_string(value) for value in {0}))'],
    
    
    'objectGet': ['{0}.get({1}, {2})'],
}


def failure_text(node):
    return 'None' if node is None else norm(node)


def check_failure_values(chk, rule='C15.V'):
    n = 0
    for lf in library_functions(chk.repo, rule):
        want = failure_text(lf.failure)
        for node in walk_no_nested(lf.func):
            if isinstance(node, ast.Raise) and isinstance(node.exc, ast.Call) and call_name(node.exc) == 'ValueArgsError':
                n += 1
                args = node.exc.args
                rv = failure_text(args[2]) if len(args) > 2 else next((failure_text(k.value) for k in node.exc.keywords if k.arg == 'return_value'), 'None')
                if rv == want or lf.validate is None:
                    chk.ok(rule, f'{lf.name}: raise ValueArgsError(..., {rv}) agrees with the declared failure value {want}')
                else:
                    chk.bad(rule, lf.mod, lf.pyname, norm(node)[:100],
                            f'{lf.name} declares failure value {want} (value_args_validate) but this explicit failure returns {rv}: an out-of-range argument yields {rv} instead of the documented {want}',
                            node=node)
        doc = ' '.join(lf.doc.get('return', [])).lower() if lf.doc else ''
        promised = None
        if '-1 if not found' in doc:
            promised = '-1'
        elif 'zero if not' in doc:
            promised = '0'
        elif 'false otherwise' in doc and lf.validate is not None and lf.failure is not None:
            promised = 'False'
        if promised is not None:
            n += 1
            if want == promised:
                chk.ok(rule, f'{lf.name}: declared failure value {want} is the documented sentinel')
            else:
                chk.bad(rule, lf.mod, lf.pyname, f'{lf.name}: failure value {want}, documented {promised}',
                        f'{lf.name} is documented to return {promised} on failure but declares failure value {want}', node=lf.validate or lf.func)
    if n < 20:
        raise Unrecognised(rule, f'only {n} failure-value sites found', None)


def container_vars(lf):
    out = {}
    if lf.targets and lf.model:
        for t, e in zip(lf.targets, lf.model):
            if t and e.get('type') in ('array', 'object'):
                out[t] = e['type']
    return out


def mutation_nodes(lf, cvars):
    out = []
    for node in walk_no_nested(lf.func):
        if isinstance(node, ast.Call) and isinstance(node.func, ast.Attribute) and node.func.attr in MUTATORS and isinstance(node.func.value, ast.Name) \
                and node.func.value.id in cvars:
            out.append(node)
        elif isinstance(node, (ast.Assign, ast.AugAssign, ast.Delete)):
            for t in (node.targets if not isinstance(node, ast.AugAssign) else [node.target]):
                if isinstance(t, ast.Subscript) and isinstance(t.value, ast.Name) and t.value.id in cvars:
                    out.append(node)
    return out


def check_validate_before_mutate(chk):
    n = 0
    for lf in library_functions(chk.repo, 'C15.M'):
        cvars = container_vars(lf)
        if lf.args_param:
            pass
        muts = mutation_nodes(lf, cvars)
        if not muts:
            continue
        try:
            cfg = CFG(lf.func)
        except Unrecognised as exc:
            chk.unrec('C15.M', f'{lf.name}: {exc.what}')
            continue

        def stmt_node(n_):
            cur = n_
            while cur is not None and not cfg.nodes_of(cur):
                cur = getattr(cur, '_parent', None)
            return cfg.node_of(cur) if cur is not None else None
        raises = [x for x in cfg.nodes if x.kind == 'stmt' and isinstance(x.ast, ast.Raise) and 'ValueArgsError' in norm(x.ast)]
        val_node = stmt_node(lf.validate) if lf.validate is not None else None
        for m in muts:
            n += 1
            mn = stmt_node(m)
            bad = None
            if val_node is not None and cfg.path(cfg.entry, [mn], avoid=[val_node], follow=no_exc):
                bad = 'before the arguments are validated'
            for r in raises:
                if cfg.path(mn, [r], follow=no_exc) or mn is r:
                    bad = f'before a failure exit ({norm(r.ast)[:50]})'
            if isinstance(m, ast.Call) and isinstance(m.func, ast.Attribute) and m.func.attr == 'sort' and any(isinstance(x, ast.Lambda) for x in ast.walk(m)):
                chk.ok('C15.M', f'{lf.name}: {norm(m)[:50]} (callback-driven mutation: the documented inherent exception)', trivial=True)
                continue
            if bad:
                chk.bad('C15.M', lf.mod, lf.pyname, norm(m)[:100], f'{lf.name} mutates its argument {bad}: a call that returns the failure value has already changed the container', node=m)
            else:
                chk.ok('C15.M', f'{lf.name}: {norm(m)[:60]} happens only after validation and after every failure exit')
    if n < 10:
        raise Unrecognised('C15.M', f'only {n} mutation sites found', None)


def check_bounds(chk, rule='C15.B', kinds=('result', 'unchanged', 'host')):
    """C15.B by abstract execution (E6l): every index-taking array/string function on sequences of length 0-3 (arrays of opaque values) with indices -2..5 written
    as int and as float, non-integral, null, wrong-typed, boolean and missing indices, compared with the reference list / str model"""
    from .. import libsim
    cache = getattr(chk, '_index_sim', None)
    if cache is None:
        libfuncs = {lf.name: lf for lf in library_functions(chk.repo, rule)}
        cache = chk._index_sim = (libfuncs,) + libsim.run_index_functions(chk.repo, libfuncs, rule)
    libfuncs, n, per_fn, problems = cache
    mine = [p for p in problems if p[1] in kinds]
    by_fn = {}
    for name, kind, msg in mine:
        by_fn.setdefault((name, kind), []).append(msg)
    for (name, kind), msgs in sorted(by_fn.items()):
        lf = libfuncs[name]
        chk.bad(rule, lf.mod, lf.pyname, f'{name} [{kind}]: {msgs[0][:110]}', f'abstract execution of {name}: {msgs[0]} ({len(msgs)} of {per_fn.get(name, 0)} runs of this function deviate this way)', node=lf.func)
    for name, cnt in sorted(per_fn.items()):
        if not any(k[0] == name for k in by_fn):
            what = {'result': 'results, failure values and the effect on the array equal the reference list / str model; arguments unchanged on failure; no host exception',
                    'spelling': 'int and float spellings of every number give the same result'}
            chk.ok(rule, f'{name}: {cnt} abstract calls (sequence lengths 0-3/5, index -2..5 as int and float, 1.5, null, wrong type, boolean, missing): '
                   + (what['spelling'] if kinds == ('spelling',) else what['result']) + ' (E6l)', count=cnt)


def is_fresh(e, params):
    if isinstance(e, (ast.List, ast.Dict, ast.ListComp, ast.DictComp, ast.Tuple, ast.Constant, ast.JoinedStr, ast.Compare, ast.BinOp)):
        return True
    if isinstance(e, ast.Subscript) and isinstance(e.slice, ast.Slice):
        return True
    if isinstance(e, ast.Call):
        return True
    if isinstance(e, ast.IfExp):
        return is_fresh(e.body, params) and is_fresh(e.orelse, params)
    return False


def check_aliasing(chk):
    libfuncs = {lf.name: lf for lf in library_functions(chk.repo, 'C15.A')}
    for name, pos in RETURN_SAME.items():
        lf = libfuncs.get(name)
        if lf is None or not lf.targets:
            raise Unrecognised('C15.A', f'{name} not found / no unpacked arguments', None)
        var = lf.targets[pos]
        rets = [r for r in walk_no_nested(lf.func) if isinstance(r, ast.Return)]
        ok_ret = rets and all(r.value is not None and (norm(r.value) == var or (isinstance(r.value, ast.Call) and r.value.args and norm(r.value.args[0]) == var
                                                                                 and call_name(r.value) in ('sort_data', 'add_calculated_field'))) for r in rets)
        muts = mutation_nodes(lf, {var: 'x'})
        copies = [n for n in walk_no_nested(lf.func) if isinstance(n, ast.Call) and call_name(n) in ('list', 'dict', 'sorted', 'copy.copy') and n.args and norm(n.args[0]) == var]
        if ok_ret and not copies and (muts or name.startswith('data')):
            chk.ok('C15.A', f'{name}: mutates and returns the passed container {var} itself (visible through every alias)')
        else:
            chk.bad('C15.A', lf.mod, lf.pyname, f'{name}: returns {[norm(r.value)[:40] if r.value is not None else None for r in rets]}',
                    f'{name} is documented to change and return the passed container; it {"works on a copy (" + norm(copies[0])[:40] + ")" if copies else "does not return that object"}: '
                    f'aliases of the argument do not see the change', node=lf.func)
    for name in RETURN_FRESH:
        lf = libfuncs.get(name)
        if lf is None:
            raise Unrecognised('C15.A', f'{name} not found', None)
        params = set(lf.targets or []) | {lf.args_param}
        rets = [r for r in walk_no_nested(lf.func) if isinstance(r, ast.Return) and r.value is not None]
        bad = [r for r in rets if isinstance(r.value, ast.Name) and r.value.id in params and not (name == 'arrayNew')]
        # locals assigned from fresh expressions are fine
        local_fresh = {n.targets[0].id for n in walk_no_nested(lf.func) if isinstance(n, ast.Assign) and isinstance(n.targets[0], ast.Name) and is_fresh(n.value, params)
                       and n.value is not lf.validate}
        bad += [r for r in rets if isinstance(r.value, ast.Name) and r.value.id not in params and r.value.id not in local_fresh]
        bad += [r for r in rets if isinstance(r.value, ast.IfExp) and not is_fresh(r.value, params)]
        if rets and not bad:
            chk.ok('C15.A', f'{name}: every return is a freshly constructed value ({"; ".join(sorted({norm(r.value)[:30] for r in rets}))})')
        else:
            chk.bad('C15.A', lf.mod, lf.pyname, f'{name}: returns {norm(bad[0].value)[:60] if bad else "nothing"}',
                    f'{name} is documented to return a new container (copy / slice / result list) but can return its argument {norm(bad[0].value) if bad else ""} itself: '
                    f'mutating the result then changes the original (and vice versa)', node=bad[0] if bad else lf.func)


def check_type_strictness(chk):
    """C15.T by abstract execution (E6l): value_args_validate applied to a one-parameter model of each declared type and one argument of each host type atom"""
    from .. import libsim
    from ..absint import ADict, AList, Sym
    vmod = chk.repo.module('value')
    func = vmod.func('value_args_validate', 'C15.T')
    it = libsim.LibInterp(chk.repo, vmod, 'C15.T')
    it.oracles['value_boolean'] = lambda args, node: True
    for ty, want in TYPE_ATOMS.items():
        accepted = set()
        for atom in ATOMS:
            if atom == 'None':
                continue
            model = AList([ADict({'name': 'x', 'type': ty})])
            args = AList([Sym('val', f'{atom}-value', True, atom)])
            try:
                got = it.run(func, [model, args])
            except libsim.HostOrdering as ho:
                raise Unrecognised('C15.T', f'type test for ({ty}, {atom}) orders / compares the opaque value', vmod.rel)
            if got[0] == 'value':
                accepted.add(atom)
            elif got[1] != 'ValueArgsError':
                chk.bad('C15.T', vmod, 'value_args_validate', f"'{ty}' x {atom}: {got[1]}", f"validating a {atom} value against a parameter declared '{ty}' raises the host exception {got[1]}{got[2]!r}", node=func)
        if accepted == want:
            chk.ok('C15.T', f"argument type '{ty}' accepts exactly {sorted(want)} (12 host type atoms tried)", count=12)
        else:
            extra, missing = accepted - want, want - accepted
            chk.bad('C15.T', vmod, 'value_args_validate', f"'{ty}': accepts {sorted(extra)} rejects {sorted(missing)}",
                    f"a parameter declared '{ty}' " + (f"accepts host values of kind {sorted(extra)} (e.g. true where a number is expected: arrayGet(a, true) returns a[1] instead of the failure value)" if extra else '')
                    + (f" rejects {sorted(missing)}" if missing else ''), node=func)


def _hand_written_escape(chk, lf, ret):
    """regexEscape written as CLASS.sub(<backslash + match>, string): the class must list every regex metacharacter and nothing by accident (no ranges)"""
    from ..rx import Rx
    from ..core import Regex
    v = ret.value
    if not (isinstance(v, ast.Call) and isinstance(v.func, ast.Attribute) and v.func.attr == 'sub' and isinstance(v.func.value, ast.Name) and len(v.args) == 2
            and norm(v.args[1]) == lf.targets[0]):
        return False
    rname = v.func.value.id
    rg = lf.mod.const(rname, 'C15.H') if rname in lf.mod.assigns else None
    if not isinstance(rg, Regex):
        return False
    rx = Rx(rg.pattern, rg.flags, rname)
    items = rx.tree.kids
    if len(items) != 1 or items[0].kind != 'in' or items[0].a:
        return False
    ranges = [i for i in items[0].b if i[0] == 'range']
    lits = {i[1] for i in items[0].b if i[0] == 'lit'}
    special = set('.^$*+?{}[]\\|()')
    if ranges:
        chk.bad('C15.H', lf.mod, lf.pyname, f'{rname} = {rg.pattern}',
                f'the escape class of regexEscape contains the range {ranges[0][1]}-{ranges[0][2]} (a "-" between two characters): characters such as digits are escaped too, and an escaped digit '
                f'is a back-reference, so the escaped pattern no longer matches exactly the original string', node=ret)
        return True
    missing = special - lits
    if missing:
        chk.bad('C15.H', lf.mod, lf.pyname, f'{rname} lacks {sorted(missing)}', f'the escape class of regexEscape does not contain the metacharacter(s) {sorted(missing)}: a string containing them is '
                f'not matched literally by its escaped form', node=ret)
        return True
    repl = const_str(v.args[0])
    if repl in ('\\\\\\g<0>', '\\\\\\0') or (repl and repl.endswith('\\g<0>') and repl.startswith('\\\\')):
        chk.ok('C15.H', f'regexEscape = {rname}.sub(backslash + match): the class lists every regex metacharacter and no range')
        return True
    return False


def check_wrappers(chk):
    libfuncs = {lf.name: lf for lf in library_functions(chk.repo, 'C15.H')}
    for name, forms in WRAPPERS.items():
        lf = libfuncs.get(name)
        if lf is None or not lf.targets:
            raise Unrecognised('C15.H', f'{name} not found', None)
        rets = [r for r in walk_no_nested(lf.func) if isinstance(r, ast.Return) and r.value is not None]
        if len(rets) != 1:
            chk.unrec('C15.H', f'{name}: {len(rets)} value returns ({"; ".join(norm(r.value)[:40] for r in rets)}): not a thin wrapper any more', lf.mod.rel)
            continue
        from .c03 import inline
        ldefs = {}
        for a in walk_no_nested(lf.func):
            if isinstance(a, ast.Assign) and len(a.targets) == 1 and isinstance(a.targets[0], ast.Name) and a.targets[0].id not in (lf.targets or []):
                ldefs[a.targets[0].id] = None if a.targets[0].id in ldefs else a.value
        # a local that is changed after its definition (del x[0], x.pop(), x += ...) is not the value it was defined with
        mutated = set()
        for a in walk_no_nested(lf.func):
            if isinstance(a, ast.Delete):
                mutated |= {t.value.id for t in a.targets if isinstance(t, ast.Subscript) and isinstance(t.value, ast.Name)}
            elif isinstance(a, ast.AugAssign) and isinstance(a.target, ast.Name):
                mutated.add(a.target.id)
            elif isinstance(a, ast.Assign):
                mutated |= {t.value.id for t in a.targets if isinstance(t, ast.Subscript) and isinstance(t.value, ast.Name)}
            elif isinstance(a, ast.Call) and isinstance(a.func, ast.Attribute) and isinstance(a.func.value, ast.Name) and \
                    a.func.attr in ('pop', 'append', 'extend', 'insert', 'remove', 'clear', 'sort', 'reverse', 'update', 'setdefault', 'popitem'):
                mutated.add(a.func.value.id)
        ret_names = {x.id for x in ast.walk(rets[0].value) if isinstance(x, ast.Name)}
        hit = sorted(n for n in ret_names & mutated if n in ldefs and n not in (lf.targets or []))
        if hit:
            chk.bad('C15.H', lf.mod, lf.pyname, f'{name}: {hit[0]} is modified after {norm(ldefs[hit[0]])[:50] if ldefs[hit[0]] is not None else "its definition"}',
                    f'{name} post-processes the result of the host operation ({hit[0]} = {norm(ldefs[hit[0]])[:60] if ldefs[hit[0]] is not None else "?"} is modified before it is returned): '
                    f'it no longer returns what the reference list/dict/str model gives (e.g. empty parts or elements are dropped)', node=rets[0])
            continue
        got = norm(inline(rets[0].value, {k: v for k, v in ldefs.items() if v is not None}))
        accepted = [f.format(*lf.targets) for f in forms]
        if name == 'regexEscape' and _hand_written_escape(chk, lf, rets[0]):
            continue
        # reassigned arguments (e.g. end = len(x) when None) are part of the documented default handling; other rewrites are not
        if got in accepted:
            chk.ok('C15.H', f'{name} = {got}')
        elif any(a in got for a in accepted):
            chk.bad('C15.H', lf.mod, lf.pyname, f'{name}: {got[:80]}',
                    f'{name} post-processes the result of the host operation {accepted[0]} ({got[:80]}): it no longer returns what the reference list/dict/str model gives '
                    f'(e.g. empty parts or elements are dropped)', node=rets[0])
        elif isinstance(rets[0].value, ast.Call) and isinstance(rets[0].value.func, ast.Attribute) and norm(rets[0].value.func.value) == lf.targets[0] \
                and any(a.startswith(lf.targets[0] + '.') for a in accepted):
            chk.bad('C15.H', lf.mod, lf.pyname, f'{name}: {got[:80]}',
                    f'{name} must be the host operation {accepted[0]} of its validated arguments; it calls {got[:80]}', node=rets[0])
        else:
            chk.unrec('C15.H', f'{name}: return expression {got[:80]} is not a recognised form of {accepted[0]}', lf.mod.rel)
    stmt_forms = {
        'objectSet': ('{0}[{1}] = {2}', 'the store object[key] = value'),
        'arrayPush': ('{0}.extend({1})', 'array.extend(values)'),
        'arrayExtend': ('{0}.extend({1})', 'array.extend(array2)'),
        'objectAssign': ('{0}.update({1})', 'object.update(object2)'),
    }
    for name, (form, desc) in stmt_forms.items():
        lf = libfuncs.get(name)
        if lf is None or not lf.targets:
            raise Unrecognised('C15.H', f'{name} not found', None)
        want = form.format(*lf.targets)
        stmts = [norm(s) for s in walk_no_nested(lf.func) if isinstance(s, ast.stmt)]
        if want in stmts:
            chk.ok('C15.H', f'{name} performs {want}')
        else:
            chk.bad('C15.H', lf.mod, lf.pyname, f'{name}: missing {want}', f'{name} must perform {desc} on its validated arguments (index coerced with int()); found: {[x for x in stmts if lf.targets[0] in x][:3]}',
                    node=lf.func)
    for name in ('urlEncode', 'urlEncodeComponent'):
        lf = libfuncs[name]
        rets = [r for r in walk_no_nested(lf.func) if isinstance(r, ast.Return) and r.value is not None]
        good = False
        if len(rets) == 1 and isinstance(rets[0].value, ast.Call) and (call_name(rets[0].value) or '').endswith('quote') and norm(rets[0].value.args[0]) == lf.targets[0]:
            safe = next((const_str(k.value) for k in rets[0].value.keywords if k.arg == 'safe'), None)
            if safe is None and len(rets[0].value.args) > 1:
                safe = const_str(rets[0].value.args[1])
            good = safe is not None and '%' not in safe
        if good:
            chk.ok('C15.H', f'{name} = urllib.parse.quote(url, safe={safe!r}) (percent sign is always encoded: reversible by percent-decoding)')
        else:
            chk.bad('C15.H', lf.mod, lf.pyname, norm(rets[0].value)[:80] if rets else 'no return', f'{name} must be urllib.parse.quote of the argument with a safe set that does not contain %', node=lf.func)


def check_defaults(chk):
    n = 0
    for lf in library_functions(chk.repo, 'C15.D'):
        if not (lf.targets and lf.model):
            continue
        falsy_legal = {t for t, e in zip(lf.targets, lf.model) if t and (e.get('type') in ('number', 'string', 'array', 'object') or e.get('type') is None)}
        for node in walk_no_nested(lf.func):
            if isinstance(node, ast.BoolOp) and isinstance(node.op, ast.Or) and isinstance(node.values[0], ast.Name) and node.values[0].id in falsy_legal \
                    and not isinstance(getattr(node, '_parent', None), (ast.If, ast.While, ast.BoolOp)):
                n += 1
                chk.bad('C15.D', lf.mod, lf.pyname, norm(node)[:80],
                        f'{lf.name}: `{norm(node)[:50]}` replaces a legal falsy argument (0, empty string/array) by the default: an explicit 0 behaves as if the argument were omitted', node=node)
            if isinstance(node, ast.IfExp) and isinstance(node.test, ast.Compare) and isinstance(node.test.left, ast.Name) and node.test.left.id in falsy_legal \
                    and isinstance(node.test.ops[0], (ast.Is, ast.IsNot)):
                n += 1
                chk.ok('C15.D', f'{lf.name}: {norm(node)[:60]} (default chosen by an `is None` test)')
            if isinstance(node, ast.If) and isinstance(node.test, ast.Compare) and isinstance(node.test.left, ast.Name) and node.test.left.id in falsy_legal \
                    and isinstance(node.test.ops[0], ast.Is):
                n += 1
                chk.ok('C15.D', f'{lf.name}: default for {node.test.left.id} chosen by an `is None` test')
    if n < 4:
        raise Unrecognised('C15.D', f'only {n} optional-argument default sites found', None)


def check_reference_sim(chk, rule='C15.R'):
    """the array / object / string functions evaluated (E6c) on pools of argument lists against the reference list / dict / str models -> True when every call agrees"""
    from .. import libref
    libfuncs = {lf.name: lf for lf in library_functions(chk.repo, rule)}
    cache = getattr(chk, '_libref', None)
    if cache is None:
        cache = chk._libref = libref.run_library(chk.repo, libfuncs, chk.tier, rule)
    counts, problems = cache
    lib = chk.repo.module('library')
    if problems:
        by = {}
        for fn, kind, msg in problems:
            by.setdefault(fn, []).append((kind, msg))
        for fn, items in by.items():
            lf = libfuncs.get(fn)
            chk.bad(rule, lib, lf.pyname if lf else fn, f'{fn}: {items[0][1][:100]}', f'evaluation of {fn} on {counts.get(fn, 0)} argument lists: {items[0][1][:500]} ({len(items)} calls deviate; '
                    f'kinds: {", ".join(sorted({k for k, _m in items}))})', node=lf.func if lf else None)
        for fn in counts:
            if fn not in by:
                chk.ok(rule, f'{fn}: {counts[fn]} calls agree with the reference model', count=counts[fn])
        return False
    for fn in sorted(counts):
        chk.ok(rule, f'{fn}: {counts[fn]} calls (valid: every container / string template x indices -2 .. len+2 as floats and ints; invalid: wrong type in each position, missing, surplus) '
               f'give the reference result, identity / freshness of the result, post-call state of the arguments and the documented failure value', count=counts[fn])
    return True


def check_regex_split_sim(chk, rule='C15.R'):
    """regexSplit(regexNew(pattern), text) evaluated (the host regex engine on concrete text is the reference: re.split) -> True when every call agrees"""
    import re as _re
    from ..libsim import JsonInterp
    from ..absint import AList, ADict, ARegex, reify
    libfuncs = {lf.name: lf for lf in library_functions(chk.repo, rule)}
    lib = chk.repo.module('library')
    rn, rs = libfuncs.get('regexNew'), libfuncs.get('regexSplit')
    if rn is None or rs is None:
        raise Unrecognised(rule, 'regexNew / regexSplit not registered', lib.rel)
    it = JsonInterp(chk.repo, lib, rule)
    it.oracles.pop('value_compare', None)
    n = 0
    for pattern in (',', '\\r?\\n', ', *', 'x+', '[;|]'):
        got = it.run(rn.func, [AList([pattern]), ADict({})])
        if got[0] != 'value' or not isinstance(got[1], ARegex) or got[1].pattern is None:
            raise Unrecognised(rule, f'regexNew({pattern!r}) evaluates to {got!r}'[:160], lib.rel)
        for text in ('a,b', 'a,,b', ',a,', '', ',', 'a\n\nb\r\n', '\n', 'axxb;;c|', 'no separator', 'a, b,  c,,'):
            n += 1
            want = _re.split(got[1].pattern, text, flags=got[1].flags) if not got[1].flags else _re.compile(got[1].pattern, got[1].flags).split(text)
            res = it.run(rs.func, [AList([got[1], text]), ADict({})])
            out = reify(res[1]) if res[0] == 'value' else None
            if res[0] != 'value' or out != want:
                chk.bad(rule, lib, rs.pyname, f'regexSplit({pattern!r}, {text!r})', f'evaluation: regexSplit(regexNew({pattern!r}), {text!r}) ' +
                        (f'gives {out!r}' if res[0] == 'value' else f'raises {res[1]}') + f'; the split parts are {want!r} (empty parts between adjacent separators and at the ends included)', node=rs.func)
                return False
    chk.ok(rule, f'regexSplit: {n} calls on texts with adjacent, leading and trailing separators, empty text, LF / CRLF: the parts of the host split, empty parts included', count=n)
    return True


def run(chk):
    chk.rule('C15.R', 'array / object / string functions = the reference list / dict / str model on pools of argument lists, incl. aliasing and failure values (evaluation, E6c)', floor=3000)
    ref_ok = chk.guard('C15.R', check_reference_sim, chk)
    split_ok = chk.guard('C15.R', check_regex_split_sim, chk)
    ref_ok = None if (ref_ok is None or split_ok is None) else (ref_ok and split_ok)
    chk.rule('C15.V', 'failure value agreement (declared, explicit raises, documented sentinel)', floor=20)
    chk.rule('C15.M', 'validate (and every failure exit) before mutating an argument', floor=10)
    chk.rule('C15.B', 'index-taking array / string functions agree with the reference sequence model on every index (abstract execution, E6l)', floor=1000)
    chk.rule('C15.A', 'aliasing contract: return-the-argument vs return-a-fresh-container', floor=18)
    chk.rule('C15.T', 'argument type test accepts exactly the atoms of the declared BareScript type (abstract execution of value_args_validate)', floor=84)
    chk.rule('C15.H', 'thin wrappers return / perform exactly the host operation (reference model by construction)', floor=20)
    chk.rule('C15.D', 'optional arguments defaulted by `is None`, never by `or`', floor=4)
    chk.assumptions += ['host list / dict / str operations are the reference sequence / map / string model; value_args_validate is applied first (C15.M)']
    # the failure-value read-back (declared vs raised vs documented, counted per site): the evaluation runs every function on invalid calls and compares the documented failure value
    chk.readback(ref_ok)('C15.V', check_failure_values, chk)
    if ref_ok:
        chk.floors.pop('C15.V', None)
    chk.guard('C15.M', check_validate_before_mutate, chk)
    chk.guard('C15.B', check_bounds, chk)
    # shape read-backs of the same contracts: advisory once the evaluation C15.R decided positively
    run_rule = chk.readback(ref_ok)
    run_rule('C15.A', check_aliasing, chk)
    chk.guard('C15.T', check_type_strictness, chk)
    run_rule('C15.H', check_wrappers, chk)
    run_rule('C15.D', check_defaults, chk)
    if ref_ok:
        for r in ('C15.A', 'C15.H', 'C15.D'):
            chk.floors.pop(r, None)
    # arraySort / arrayIndexOf / mathMax order and match elements by the value comparison (shared with C11.U)
    from . import c11
    chk.rule('C11.U', 'shared with C11: array functions order and match elements with value_compare only')
    chk.guard('C11.U', c11.check_consumers, chk)
