"""C20 - diffLines from the shipped include library; shipped scripts are well-formed and lint-clean."""
import os

from ..core import Unrecognised
from ..barefront import parse_program, BareSyntaxError, walk_stmts, walk_expr, stmt_exprs, expr_names, show
from ..lib import library_functions

EXPLANATION = (
    'Static analysis of the BareScript sources themselves with an independent front-end (E9: logical lines, statement '
    'classifier, block matching, Pratt expression parser) and the argument models of the Python library as type '
    'environment; nothing is executed. C20.W: every shipped .bare file (and perf/test.bare) parses: every logical line '
    'classifies, blocks balance, break/continue sit inside a loop of the same function, no continuation is pending at '
    'end of file. C20.L: lint-equivalent facts re-derived on the E9 tree (use before assignment, unused locals / '
    'arguments, duplicate arguments / functions / labels, unknown labels, pointless statements, empty script). C20.C: '
    'every called name is a library function, a function or global defined in the shipped scripts, or a local/'
    'parameter; library calls pass at most as many arguments as the model allows and at least the required ones. '
    'C20.N: a name with no definition anywhere evaluates to null on every run; it must not be passed where the '
    'callee\'s argument model is typed and not nullable (that call fails on every execution). C20.D (diffLines): '
    'every difference block objectNew(type, T, lines, X) is pushed onto the array the function returns; side '
    'consistency by a two-point taint from the parameters (names derived from left / right; an index used with one '
    'side\'s array or length belongs to that side; a name on both sides is a violation); Remove blocks mention only '
    'left-side names, Add blocks only right-side names, Identical blocks are collected under an equality test of a '
    'left and a right element; every push is guarded by a non-emptiness condition; the library functions diffLines '
    'relies on keep their contracts (C15.H shared). Reconstruction of both inputs for all pairs needs execution and is '
    'not decided.')
ENUMERATION = 'shipped scripts, functions, call sites, undefined names, lint facts, diffLines pushes and names'

SCRIPTS = ['src/bare_script/include/args.bare', 'src/bare_script/include/diff.bare', 'src/bare_script/include/forms.bare', 'src/bare_script/include/markdownUp.bare',
           'src/bare_script/include/pager.bare', 'src/bare_script/include/unittest.bare', 'src/bare_script/include/unittestMock.bare', 'perf/test.bare']
KEYWORDS = {'null', 'true', 'false'}


def load_programs(chk):
    progs = {}
    for rel in SCRIPTS:
        try:
            text = chk.repo.text_file(rel)
        except FileNotFoundError:
            if rel.startswith('perf/'):
                continue
            raise Unrecognised('C20.W', f'shipped script {rel} not found')
        try:
            progs[rel] = (parse_program(text), text)
            chk.ok('C20.W', f'{rel}: {len(progs[rel][0])} top-level statements, every line classified, blocks balanced, break/continue inside loops')
        except BareSyntaxError as exc:
            chk.bad('C20.W', rel, '<script>', f'{exc.msg}: {exc.text[:60]}', f'{rel} does not parse: {exc}', detail={'line': exc.line_no})
    return progs


def assigned_names(stmts):
    out = set()
    for s in walk_stmts(stmts):
        if s.kind == 'assign':
            out.add(s.name)
        elif s.kind == 'for':
            out.add(s.extra['value'])
            if s.extra.get('index'):
                out.add(s.extra['index'])
    return out


def global_defs(progs):
    names = set()
    funcs = {}
    for rel, (prog, _t) in progs.items():
        for s in prog:
            if s.kind == 'function':
                funcs.setdefault(s.name, []).append((rel, s))
        top = [s for s in prog if s.kind != 'function']
        names |= assigned_names(top)
        for s in walk_stmts(prog):
            for body in ([s.body] if s.kind == 'function' else []):
                for t in walk_stmts(body):
                    for e in stmt_exprs(t):
                        for x in walk_expr(e):
                            if x[0] == 'call' and x[1] == 'systemGlobalSet' and x[2] and x[2][0][0] == 'str':
                                names.add(x[2][0][1])
        for s in walk_stmts(prog):
            for e in stmt_exprs(s):
                for x in walk_expr(e):
                    if x[0] == 'call' and x[1] == 'systemGlobalSet' and x[2] and x[2][0][0] == 'str':
                        names.add(x[2][0][1])
    return names, funcs


class _Scoped:
    """C20 is about diffLines: call-resolution / arity / null-argument facts are violations in diff.bare only; in the other
    shipped scripts they are recorded as observations (the property only asks those scripts to parse and be lint-clean)"""

    def __init__(self, chk):
        self.chk = chk

    def ok(self, *a, **k):
        return self.chk.ok(*a, **k)

    def bad(self, rule, rel, func, construct, what, node=None, detail=None):
        if str(rel).endswith('diff.bare'):
            return self.chk.bad(rule, rel, func, construct, what, node=node, detail=detail)
        self.chk.extra.setdefault('observations_outside_the_property', []).append(f'{rule}: {what}')
        self.chk.ok(rule, f'(observation, outside C20) {what[:120]}', trivial=True)


def check_calls_and_nulls(chk, progs):
    extra = chk.extra
    chk = _Scoped(chk)
    chk.repo = chk.chk.repo
    chk.extra = extra
    lib = {lf.name: lf for lf in library_functions(chk.repo, 'C20.C')}
    gnames, gfuncs = global_defs(progs)
    n_calls = 0
    for rel, (prog, _t) in progs.items():
        scopes = [('<global>', [s for s in prog if s.kind != 'function'], set())]
        for s in prog:
            if s.kind == 'function':
                scopes.append((s.name, s.body, set(s.extra['args'])))
        for sname, body, params in scopes:
            local = assigned_names(body) | params
            defined = local | gnames | set(gfuncs) | set(lib) | KEYWORDS
            for st in walk_stmts(body):
                for e in stmt_exprs(st):
                    for x in walk_expr(e):
                        if x[0] != 'call':
                            continue
                        n_calls += 1
                        name, args = x[1], x[2]
                        if name == 'if':
                            continue
                        if name not in defined:
                            if rel.endswith('markdownUp.bare') or rel.endswith('unittestMock.bare') or name.startswith(('markdown', 'document', 'draw', 'element', 'localStorage',
                                                                                                                           'sessionStorage', 'window', 'url', 'schema', 'data')):
                                chk.ok('C20.C', f'{rel}:{st.line_no} {name}(): host-provided function (MarkdownUp runtime)', trivial=True)
                            else:
                                chk.bad('C20.C', rel, sname, f'{name}(...) is not defined', f'{rel}:{st.line_no}: the called function {name} is neither a library function nor defined in any shipped script '
                                        f'nor a local: the call raises "Undefined function"', detail={'line': st.line_no})
                            continue
                        if name in lib and name not in local and name not in gfuncs:
                            lf = lib[name]
                            if lf.model is not None:
                                has_rest = any(e_.get('lastArgArray') for e_ in lf.model)
                                required = 0
                                for i, e_ in enumerate(lf.model):
                                    if e_.get('type') is not None and e_.get('type') != 'boolean' and not e_.get('nullable') and e_.get('default') is None and not e_.get('lastArgArray'):
                                        required = i + 1
                                if not has_rest and len(args) > len(lf.model):
                                    chk.bad('C20.C', rel, sname, f'{show(x)[:80]}: too many arguments',
                                            f'{rel}:{st.line_no}: {name} takes at most {len(lf.model)} arguments, {len(args)} are passed: the call fails on every execution', detail={'line': st.line_no})
                                elif len(args) < required:
                                    chk.bad('C20.C', rel, sname, f'{show(x)[:80]}: missing required argument',
                                            f'{rel}:{st.line_no}: {name} requires {required} arguments, {len(args)} are passed: the call fails on every execution', detail={'line': st.line_no})
                                else:
                                    chk.ok('C20.C', f'{rel}:{st.line_no} {name}/{len(args)} fits its argument model', trivial=True)
                                # definitely-null arguments
                                for i, a in enumerate(args):
                                    if i >= len(lf.model):
                                        break
                                    ent = lf.model[i]
                                    if ent.get('lastArgArray'):
                                        break
                                    if a[0] == 'var' and a[1] not in defined:
                                        if ent.get('type') is not None and ent.get('type') != 'boolean' and not ent.get('nullable'):
                                            chk.bad('C20.N', rel, sname, f'{show(x)[:80]}: argument {a[1]} is never defined',
                                                    f"{rel}:{st.line_no}: `{a[1]}` has no definition in any shipped script (no assignment, parameter, loop variable, function or systemGlobalSet) so it is "
                                                    f"null on every run, but {name}'s parameter '{ent.get('name')}' requires a non-null {ent.get('type')}: the call fails silently every time",
                                                    detail={'line': st.line_no})
                                        else:
                                            chk.ok('C20.N', f'{rel}:{st.line_no}: undefined name {a[1]} passed where null is acceptable', trivial=True)
    if n_calls < 500:
        raise Unrecognised('C20.C', f'only {n_calls} call sites found in the shipped scripts', None)
    chk.extra['call_sites'] = n_calls
    chk.ok('C20.N', f'{n_calls} call sites checked for definitely-null arguments in typed non-nullable positions')


# --------------------------------------------------------------------------- lint-equivalent facts

def linear_events(stmts, events, pos=None):
    """flatten a scope into (position, kind, name) events in lowered-statement order: 'assign' / 'use'"""
    pos = pos if pos is not None else [0]
    for s in stmts:
        here = pos[0]
        pos[0] += 1
        if s.kind == 'assign':
            for n in sorted(expr_names(s.expr)):
                events.append((here, 'use', n))
            events.append((here, 'assign', s.name))
        elif s.kind in ('expr', 'return', 'jump'):
            if s.expr is not None:
                for n in sorted(expr_names(s.expr)):
                    events.append((here, 'use', n))
        elif s.kind == 'if':
            for cond, body in s.branches:
                if cond is not None:
                    h = pos[0]
                    pos[0] += 1
                    for n in sorted(expr_names(cond)):
                        events.append((h if cond is not s.branches[0][0] else here, 'use', n))
                linear_events(body, events, pos)
        elif s.kind == 'while':
            for n in sorted(expr_names(s.expr)):
                events.append((here, 'use', n))
            pos[0] += 1
            linear_events(s.body, events, pos)
            pos[0] += 2
        elif s.kind == 'for':
            for n in sorted(expr_names(s.expr)):
                events.append((here, 'use', n))
            pos[0] += 4
            events.append((pos[0], 'assign', s.extra['value']))
            if s.extra.get('index'):
                events.append((here + 3, 'assign', s.extra['index']))
                events.append((pos[0], 'use', s.extra['index']))
            pos[0] += 1
            linear_events(s.body, events, pos)
            if s.extra.get('index'):
                events.append((pos[0], 'use', s.extra['index']))
            pos[0] += 3
    return events


def first_positions(events):
    assigns, uses = {}, {}
    for p, k, n in events:
        d = assigns if k == 'assign' else uses
        if n not in d:
            d[n] = p
    return assigns, uses


def has_call(e):
    return any(x[0] == 'call' for x in walk_expr(e))


def check_lint_facts(chk, progs):
    for rel, (prog, _t) in progs.items():
        warnings = []
        if not prog:
            warnings.append('Empty script')
        top = [s for s in prog if s.kind != 'function']
        assigns, uses = first_positions(linear_events(prog, []))
        for n in sorted(assigns):
            if n in uses and uses[n] <= assigns[n] and not any(f.kind == 'function' and f.name == n for f in prog):
                warnings.append(f'Global variable "{n}" used before assignment')
        seen_funcs = set()
        for s in prog:
            if s.kind == 'function':
                if s.name in seen_funcs:
                    warnings.append(f'Redefinition of function "{s.name}"')
                seen_funcs.add(s.name)
                fa, fu = first_positions(linear_events(s.body, []))
                args = s.extra['args']
                for n in sorted(fa):
                    if n in args:
                        continue
                    if n in fu and fu[n] <= fa[n]:
                        warnings.append(f'Variable "{n}" of function "{s.name}" used before assignment')
                for n in sorted(fa):
                    if n not in fu:
                        warnings.append(f'Unused variable "{n}" defined in function "{s.name}"')
                seen_args = set()
                for a in args:
                    if a in seen_args:
                        warnings.append(f'Duplicate argument "{a}" of function "{s.name}"')
                    else:
                        seen_args.add(a)
                        if a not in fu:
                            warnings.append(f'Unused argument "{a}" of function "{s.name}"')
                warnings += label_facts(s.body, f' in function "{s.name}"')
                for t in walk_stmts(s.body):
                    if t.kind == 'expr' and not has_call(t.expr):
                        warnings.append(f'Pointless statement in function "{s.name}" (line {t.line_no})')
            elif s.kind == 'expr' and not has_call(s.expr):
                warnings.append(f'Pointless global statement (line {s.line_no})')
        for t in walk_stmts(top):
            if t.kind == 'expr' and not has_call(t.expr) and t not in prog:
                warnings.append(f'Pointless global statement (line {t.line_no})')
        warnings += label_facts(top, ' (global)')
        if warnings:
            for w in warnings[:5]:
                chk.bad('C20.L', rel, '<script>', w, f'{rel} is not lint-clean: {w}')
        else:
            nfun = sum(1 for s in prog if s.kind == 'function')
            chk.ok('C20.L', f'{rel}: no use-before-assignment, unused local/argument, duplicate, label or pointless-statement fact ({nfun} functions)')


def label_facts(stmts, where):
    out = []
    defined, used = {}, {}
    for s in walk_stmts(stmts):
        if s.kind == 'label':
            if s.name in defined:
                out.append(f'Redefinition of label "{s.name}"{where}')
            defined[s.name] = s.line_no
        elif s.kind == 'jump':
            used[s.name] = s.line_no
    out += [f'Unused label "{n}"{where}' for n in sorted(defined) if n not in used]
    out += [f'Unknown label "{n}"{where}' for n in sorted(used) if n not in defined]
    return out


# --------------------------------------------------------------------------- diffLines

def check_diff_lines(chk, progs):
    rel = 'src/bare_script/include/diff.bare'
    if rel not in progs:
        raise Unrecognised('C20.D', 'diff.bare did not parse', rel)
    prog = progs[rel][0]
    fn = next((s for s in prog if s.kind == 'function' and s.name == 'diffLines'), None)
    if fn is None or len(fn.extra['args']) != 2:
        raise Unrecognised('C20.D', 'function diffLines(left, right) not found', rel)
    left_p, right_p = fn.extra['args']
    rets = [s for s in walk_stmts(fn.body) if s.kind == 'return']
    if len(rets) != 1 or rets[0].expr is None or rets[0].expr[0] != 'var':
        raise Unrecognised('C20.D', 'diffLines does not return a single local', rel)
    R = rets[0].expr[1]
    inits = [s for s in walk_stmts(fn.body) if s.kind == 'assign' and s.name == R]
    if len(inits) == 1 and inits[0].expr == ('call', 'arrayNew', []):
        chk.ok('C20.D', f'result array {R} is created once by arrayNew() and returned')
    else:
        chk.bad('C20.D', rel, 'diffLines', f'{R} initialisation', f'the returned array {R} must be created once with arrayNew()', detail={})
    # --- side assignment: a name belongs to the left (right) side when it is defined only from left (right) names or is ordered against a left (right) length / cursor;
    #     names defined from or ordered against BOTH sides are shared offsets (e.g. a common prefix / suffix counter) and belong to neither
    all_stmts = list(walk_stmts(fn.body))
    ev = {left_p: {'L'}, right_p: {'R'}}      # evidence: which sides a name was defined from / ordered against; both = shared offset

    def single(n):
        e = ev.get(n, set())
        return next(iter(e)) if len(e) == 1 else None

    def add(n, side):
        if n == R or side is None:
            return False
        cur = ev.setdefault(n, set())
        if side in cur:
            return False
        cur.add(side)
        return True
    changed = True
    rounds = 0
    while changed and rounds < 50:
        changed = False
        rounds += 1
        for s in all_stmts:
            if s.kind == 'assign':
                for v in {x[1] for x in walk_expr(s.expr) if x[0] == 'var'} - {s.name}:
                    changed |= add(s.name, single(v))
            if s.kind == 'for' and s.expr[0] == 'var':
                changed |= add(s.extra['value'], single(s.expr[1]))
            for e in stmt_exprs(s):
                for x in walk_expr(e):
                    if x[0] == 'bin' and x[1] in ('<', '<=', '>', '>=') and x[2][0] == 'var' and x[3][0] == 'var':
                        a, b = x[2][1], x[3][1]
                        sa_, sb_ = single(a), single(b)
                        changed |= add(b, sa_)
                        changed |= add(a, sb_)
    L = {n for n, e in ev.items() if e == {'L'}}
    Rt = {n for n, e in ev.items() if e == {'R'}}
    shared = {n for n, e in ev.items() if len(e) == 2}
    # every element access / slice of one side's array is indexed by names of that side or shared offsets only
    n_access = 0
    for s in all_stmts:
        for e in stmt_exprs(s):
            for x in walk_expr(e):
                if x[0] == 'call' and x[1] in ('arrayGet', 'arraySlice') and x[2] and x[2][0][0] == 'var':
                    arr = x[2][0][1]
                    side, other, sname = (L, Rt, 'left') if arr in L else (Rt, L, 'right') if arr in Rt else (None, None, None)
                    if side is None:
                        continue
                    n_access += 1
                    ix_names = {y[1] for a in x[2][1:] for y in walk_expr(a) if y[0] == 'var'}
                    wrong = ix_names & other
                    if wrong:
                        chk.bad('C20.D', rel, 'diffLines', f'{show(x)[:70]} uses {sorted(wrong)}',
                                f'line {s.line_no}: `{show(x)[:80]}` addresses the {sname} lines with {sorted(wrong)}, a cursor / length of the other side: the block contains the wrong lines whenever '
                                f'the two cursors differ', detail={'line': s.line_no})
                    else:
                        chk.ok('C20.D', f'line {s.line_no}: {show(x)[:60]} is indexed by {sname}-side names / shared offsets only', trivial=True)
    if n_access < 6:
        raise Unrecognised('C20.D', f'only {n_access} element accesses of the two line arrays found', rel)
    chk.ok('C20.D', f'side assignment: left {sorted(L)}, right {sorted(Rt)}, shared offsets {sorted(shared)}')
    # --- pushes
    pushes = []

    earlier = {}     # id(statement) -> statements that precede it (or its ancestors) inside the innermost enclosing loop body

    def visit(stmts, guards, before):
        for ix, s in enumerate(stmts):
            here = before + list(stmts[:ix])
            if s.kind == 'if':
                prior = []
                for cond, body in s.branches:
                    visit(body, guards + ([('if', cond)] if cond is not None else [('else', tuple(prior))]), here)
                    if cond is not None:
                        prior.append(cond)
            elif s.kind in ('while', 'for'):
                visit(s.body, guards + [(s.kind, s.expr)], [])
            else:
                for e in stmt_exprs(s):
                    for x in walk_expr(e):
                        if x[0] == 'call' and x[1] == 'objectNew':
                            pushes.append((s, x, guards, e))
                            earlier[id(s)] = here
    visit(fn.body, [], [])
    n_blocks = 0
    for s, obj, guards, whole in pushes:
        args = obj[2]
        kv = {args[i][1]: args[i + 1] for i in range(0, len(args) - 1, 2) if args[i][0] == 'str'}
        if 'type' not in kv or 'lines' not in kv or kv['type'][0] != 'str':
            continue
        n_blocks += 1
        T = kv['type'][1]
        lines = kv['lines']
        pushed = whole[0] == 'call' and whole[1] == 'arrayPush' and whole[2] and whole[2][0] == ('var', R) and obj in whole[2][1:]
        where = f'line {s.line_no}: {T} block {show(lines)[:50]}'
        if not pushed:
            chk.bad('C20.D', rel, 'diffLines', f'{T} block at `{show(whole)[:60]}` is not pushed onto {R}',
                    f'line {s.line_no}: the {T} block is not pushed onto the returned array {R} ({show(whole)[:80]}): the block is silently dropped from the result', detail={'line': s.line_no})
            continue
        names = {x[1] for x in walk_expr(lines) if x[0] == 'var'}
        if T == 'Remove' and (names & (Rt - L) or not names & L):
            chk.bad('C20.D', rel, 'diffLines', f'Remove block uses {sorted(names)}', f'line {s.line_no}: a Remove block must be built from left-side lines only; it uses {sorted(names & Rt)}', detail={'line': s.line_no})
        elif T == 'Add' and (names & (L - Rt) or not names & Rt):
            chk.bad('C20.D', rel, 'diffLines', f'Add block uses {sorted(names)}', f'line {s.line_no}: an Add block must be built from right-side lines only; it uses {sorted(names & L)}', detail={'line': s.line_no})
        elif T == 'Identical':
            # the collected array is filled under an equality test of a left and a right element
            coll = lines[1] if lines[0] == 'var' else None
            ok = False
            for t in all_stmts:
                if t.kind == 'while':
                    eqs = [x for x in walk_expr(t.expr) if x[0] == 'bin' and x[1] == '==']
                    fills = [u for u in walk_stmts(t.body) for e in stmt_exprs(u) for x in walk_expr(e) if x[0] == 'call' and x[1] == 'arrayPush' and x[2] and x[2][0] == ('var', coll)]
                    for q in eqs:
                        ln = {x[1] for x in walk_expr(q[2]) if x[0] == 'var'}
                        rn = {x[1] for x in walk_expr(q[3]) if x[0] == 'var'}
                        if fills and ((ln & L and rn & Rt) or (ln & Rt and rn & L)):
                            ok = True
            if ok:
                chk.ok('C20.D', where + ': lines collected under an equality test of a left and a right element')
            elif names & (L | Rt | shared) or any(t.kind == 'assign' and t.name == coll for t in all_stmts):
                chk.unrec('C20.D', f'line {s.line_no}: the Identical block {show(lines)[:40]} is not filled by arrayPush under a left == right test; whether its lines are common to both inputs is not decided', rel)
            else:
                chk.bad('C20.D', rel, 'diffLines', 'Identical block not collected under left == right', f'line {s.line_no}: the lines of an Identical block must be collected while a left and a right line compare equal', detail={})
        else:
            chk.ok('C20.D', where + f': built from {"left" if T == "Remove" else "right"}-side names only ({sorted(names)})')
        # non-empty guard: nearest `if` guard mentions the names of the lines expression (index < length / collected array)
        g = [c for k, c in guards if k == 'if']
        need = names
        exits = [t for t in earlier.get(id(s), []) if t.kind == 'if' and any(cond is not None and ({x[1] for x in walk_expr(cond) if x[0] == 'var'} & need) and body
                                                                               and body[-1].kind in ('break', 'continue', 'return') for cond, body in t.branches)]
        if g and ({x[1] for x in walk_expr(g[-1]) if x[0] == 'var'} & need):
            chk.ok('C20.D', f'line {s.line_no}: {T} block is pushed under the guard `{show(g[-1])[:50]}` (non-empty line list)')
        elif exits:
            chk.ok('C20.D', f'line {s.line_no}: {T} block is pushed after the loop-body exit test `{show(exits[0].branches[0][0])[:50]}` on its own index (the range is non-empty here)')
        elif not any(k in ('while', 'for') for k, _c in guards):
            chk.bad('C20.D', rel, 'diffLines', f'{T} block at line {s.line_no} pushed unguarded',
                    f'line {s.line_no}: the {T} block is pushed without a condition on its own line range / collected array: an empty block can be emitted', detail={'line': s.line_no})
        else:
            chk.unrec('C20.D', f'line {s.line_no}: no condition on the line range of the {T} block was recognised (non-emptiness not decided)', rel)
    if n_blocks < 7:
        raise Unrecognised('C20.D', f'only {n_blocks} difference blocks found in diffLines', rel)
    for T in ('Identical', 'Add', 'Remove'):
        if not any(('str', T) in p[1][2] for p in pushes):
            chk.bad('C20.D', rel, 'diffLines', f'no {T} block', f'diffLines never produces a {T} block', detail={})


def check_diff_eval(chk, rule='C20.B'):
    import os
    from .. import baresim
    path = os.path.join(chk.repo.root, 'src', 'bare_script', 'include', 'diff.bare')
    if not os.path.exists(path):
        raise Unrecognised(rule, 'include/diff.bare not found', None)
    with open(path, encoding='utf-8') as fh:
        text = fh.read()
    try:
        n, problems = baresim.run_diff_lines(text, chk.tier)
    except Unrecognised as exc:
        raise Unrecognised(rule, exc.what, 'src/bare_script/include/diff.bare')
    if problems:
        chk.bad(rule, 'src/bare_script/include/diff.bare', 'diffLines', problems[0][:110], f'reference evaluation of the shipped diffLines on {n} inputs: {problems[0]} '
                f'({len(problems)} inputs deviate)')
        return False
    chk.ok(rule, f'{n} evaluated calls: every pair of line lists up to length {4 if chk.tier != "thorough" else 5} over {"{a, b}" if chk.tier != "thorough" else "{a, b, empty line}"}, '
           f'LF / CRLF texts, a text against a list: the blocks are Identical / Add / Remove with non-empty lines, reconstruct the left and the right lines, and identical inputs '
           f'yield Identical blocks only', count=n)
    return True


def run(chk):
    chk.rule('C20.W', 'shipped scripts are well-formed (independent front-end)', floor=7)
    chk.rule('C20.L', 'lint-equivalent facts: shipped scripts are lint-clean', floor=7)
    chk.rule('C20.C', 'called names resolve; library call arities fit the argument models', floor=100)
    chk.rule('C20.N', 'no definitely-null argument in a typed non-nullable library parameter', floor=1)
    chk.rule('C20.D', 'diffLines structure: blocks pushed onto the result, side consistency, guards', floor=15)
    chk.assumptions += ['the E9 front-end implements the documented BareScript grammar; library argument models describe the library (checked by C15)',
                        'host-provided MarkdownUp globals are outside the shipped scripts']
    progs = load_programs(chk)
    chk.guard('C20.C', check_calls_and_nulls, chk, progs)
    chk.guard('C20.L', check_lint_facts, chk, progs)
    chk.rule('C20.B', 'diffLines of the shipped diff.bare evaluated by the reference evaluator (E9x) on all pairs of small line lists and on texts: blocks reconstruct both inputs', floor=200)
    diff_ok = chk.guard('C20.B', check_diff_eval, chk)
    chk.readback(diff_ok)('C20.D', check_diff_lines, chk, progs)
    if diff_ok:
        chk.floors.pop('C20.D', None)
    # every shipped include is lint-clean under the repository's own linter (shared with C18: lint_script evaluated on the parsed includes)
    from . import c18
    chk.rule('C18.R', 'shared with C18: lint_script, evaluated on the models parse_script (evaluated) gives for the shipped includes, reports nothing and never raises')
    chk.guard('C18.R', c18.check_lint_sim, chk, 'C18.R', ('include', 'raise', 'structured'))
    # library functions diffLines and unittestDeepEqual rely on (shared C15.H)
    from . import c15
    chk.rule('C15.H', 'shared with C15: regexSplit / arraySlice / arrayGet / arrayLength / arrayPush / objectNew wrappers keep their contracts')
    before = len(chk.instances)
    chk.rule('C15.R', 'shared with C15: the library functions evaluated (E6c) against their reference models')
    ref_ok = chk.guard('C15.R', c15.check_reference_sim, chk)
    split_ok = chk.guard('C15.R', c15.check_regex_split_sim, chk)       # diffLines splits its inputs into lines with regexSplit: empty lines must survive
    ref_ok = None if (ref_ok is None or split_ok is None) else (ref_ok and split_ok)
    chk.readback(ref_ok)('C15.H', c15.check_wrappers, chk)
    keep = ('regexSplit', 'arraySlice', 'arrayGet', 'arrayLength', 'arrayPush', 'arrayExtend', 'arrayCopy')
    chk.instances[before:] = [i for i in chk.instances[before:] if any(k in i['instance'] for k in keep) or i['verdict'] != 'OK']
    # diffLines is lowered to jumps with generated label names that repeat in every parsed file: label lookup must stay per invocation (shared C08.L / C08.E)
    from . import c08
    chk.rule('C08.L', 'shared with C08: the label-index cache is local to the invocation (generated label names repeat across files and functions)')
    chk.rule('C08.E', 'shared with C08: abstract execution of the statement loop')
    chk.rule('C08.F', 'shared with C08: hand-built jump-level models with user labels evaluated whole (label lookup per statement list)')
    models_ok = chk.guard('C08.F', c08.check_models, chk)
    chk.readback(models_ok)('C08.L', c08.check_labels, chk)
    chk.guard('C08.E', c08.check_step, chk)
    # value comparison used by == on lines (shared C11.F)
    from . import c11
    chk.rule('C11.F', 'shared with C11: strings compare as they are (the == on lines)')
    chk.rule('C11.P', 'shared with C11')
    chk.rule('C11.C', 'shared with C11')
    before = len(chk.instances)
    chk.guard('C11.F', c11.check_value_compare, chk)
    chk.instances[before:] = [i for i in chk.instances[before:] if i['rule'] == 'C11.F' or i['verdict'] != 'OK']
