"""C10 - source layout does not change the parsed program."""
import ast

from ..core import Unrecognised, norm, call_name, walk_no_nested, const_str
from ..absint import Sym, ALine, reify
from ..lowering import ParserModel, Shape, B, constructs
from ..rx import Rx, Lang, included, MAXREPEAT, RNode
from ..exprsim import classify_expr_regexes

EXPLANATION = (
    'C10.S: both input forms (one string, an iterable of chunks) feed every piece through the same line-split regex '
    'into one list, and that regex is an optional CR followed by LF. C10.W: every statement regex (and the comment '
    'regex) tolerates leading and trailing blanks - structurally: first consuming element after ^ is \\s* (possibly '
    'inside a leading group), the pattern ends in \\s*$ or in a dot-run group reaching $ whose text goes to '
    'parse_expression (which tests the stripped remainder); keywords are delimited by \\s or punctuation; thorough tier: '
    'the same closure L = \\s* L \\s* by automata over a representative alphabet. C10.T: every expression token regex '
    'starts with ^\\s*. C10.A: the argument-split regex consumes exactly the separator the function-begin regex '
    'allows between parameter names. C10.O/J: continuation is detected by a regex "backslash, blanks, end"; parts are '
    'stripped (first part right-stripped only) and joined with exactly one blank; E6 scenarios show comments/blank '
    'lines inside a continued statement neither end nor join it and that inserting comment/blank lines between the '
    'lines of any shape leaves the emitted model identical. C10.N: effect analysis - no function reachable from '
    'parse_script / parse_expression declares global/nonlocal, stores to a module-level name or mutates a '
    'module-level container: the parser is deterministic and keeps no state between calls. Decides these; the full '
    'metamorphic equality over all programs x rewrites (breaks inside string literals etc.) is execution-based.')
ENUMERATION = 'statement regexes, token regexes, splitter sites, continuation sites, comment-insertion scenarios per shape, module-state write candidates'


def check_split(chk, pm):
    """C10.S by abstract execution of parse_script's prologue: the string form and the chunk form of the input are cut into the same line list by one regex"""
    from ..absint import Interp, ARegex, AList, Sym, RaiseSig, ReturnSig
    mod, func = pm.mod, pm.func

    class SplitInterp(Interp):
        def method_hook(self, base, m, args, e):
            if isinstance(base, ARegex) and m == 'split' and args and isinstance(args[0], str):
                return AList([Sym('piece', base.name, args[0], 0), Sym('piece', base.name, args[0], 1)])
            if isinstance(base, str) and m in ('splitlines',):
                return AList([Sym('piece', 'str.splitlines', base, 0), Sym('piece', 'str.splitlines', base, 1)])
            return NotImplemented
    line_var = norm(pm.loop.iter)
    lines_name = next((n.id for n in ast.walk(pm.loop.iter) if isinstance(n, ast.Name) and n.id not in ('enumerate',)), None)
    results = {}
    for form, value in (('one string', 'T'), ('a list of chunks', AList(['T1', 'T2'])), ('a tuple of chunks', ('T1', 'T2'))):
        it = SplitInterp(mod, 'C10.S')
        it.repo = chk.repo
        env = {a.arg: Sym(a.arg) for a in func.args.args}
        env[func.args.args[0].arg] = value
        try:
            for s_ in pm.prologue:
                if isinstance(s_, ast.Expr) and isinstance(s_.value, ast.Constant):
                    continue
                it.exec_stmt(s_, env)
            lines = env.get(lines_name)
            results[form] = it.iterate(lines, pm.loop.iter)
        except RaiseSig as sig:
            chk.bad('C10.S', mod, 'parse_script', f'{form}: raises {sig.cls}', f'parse_script given {form} raises {sig.cls}{sig.args_!r} while splitting the input into lines', node=sig.node)
            return
    names = {p.args[0] for r in results.values() for p in r if isinstance(p, Sym) and p.kind == 'piece'}
    want = {'one string': [('T', 0), ('T', 1)], 'a list of chunks': [('T1', 0), ('T1', 1), ('T2', 0), ('T2', 1)], 'a tuple of chunks': [('T1', 0), ('T1', 1), ('T2', 0), ('T2', 1)]}
    for form, r in results.items():
        got = [(p.args[1], p.args[2]) if isinstance(p, Sym) and p.kind == 'piece' else p for p in r]
        if got == want[form]:
            chk.ok('C10.S', f'input given as {form}: every part is split and all pieces are kept in order ({len(got)} pieces)')
        else:
            chk.bad('C10.S', mod, 'parse_script', f'{form}: line list {got!r}', f'parse_script given {form} builds the line list {got!r}; every part must be split by the line regex and all pieces kept, in order: {want[form]!r}',
                    node=func)
    if len(names) != 1:
        chk.bad('C10.S', mod, 'parse_script', f'splitters {sorted(names)}', 'the string form and the chunk form of the input must both be split into lines by the same single regex', node=func)
        return
    rn = names.pop()
    if rn not in pm.regexes:
        chk.bad('C10.S', mod, 'parse_script', f'lines are split by {rn}', f'the input is split into lines by {rn}, not by the optional-CR + LF regex: other characters end lines (or empty pieces are dropped)', node=func)
        return
    chk.ok('C10.S', f'both input forms are split by the one regex {rn}')
    tree = pm.regexes[rn].tree
    items = tree.kids
    good = len(items) == 2 and items[0].kind == 'rep' and (items[0].a, items[0].b) == (0, 1) and Rx.literal_of(items[0].kids[0]) == '\r' and Rx.literal_of(items[1]) == '\n'
    if good:
        chk.ok('C10.S', f'{rn} = optional CR + LF (LF and CRLF line ends, nothing else consumed)')
    else:
        chk.bad('C10.S', mod, rn, pm.regexes[rn].pattern, 'the line splitter must be exactly an optional carriage return followed by a line feed')


def closure_by_automata(rx, alphabet):
    """L(R) == \\s* L(R) \\s*  over the alphabet (whole-line language): checks  \\s L ⊆ L  and  L \\s ⊆ L"""
    ws = RNode('in', False, [('cat', 'CATEGORY_SPACE')])
    base = Lang(rx.tree, alphabet)
    left = Lang(RNode('cat', kids=[ws, rx.tree]), alphabet)
    # appending blanks: insert before the final `$`
    items = list(rx.tree.kids)
    right_tree = RNode('cat', kids=items[:-1] + [ws] + items[-1:]) if items and items[-1].kind == 'at' else RNode('cat', kids=items + [ws])
    right = Lang(right_tree, alphabet)
    a, cex1 = included(left, base)
    b, cex2 = included(right, base)
    return a, cex1, b, cex2


def check_whitespace(chk, pm):
    mod = pm.mod
    stmt_regexes = [r for _k, rs, _n in pm.handlers for r in rs] + ([pm.comment_regex] if pm.comment_regex else [])
    alphabet = [' ', '\t', 'a', 'f', '5', '_', ':', '=', '(', ')', ',', '.', "'", '<', '>', '#', '\\', '+', 'x']
    for rn in stmt_regexes:
        rx = pm.regexes[rn]
        lead = rx.leading_blank_tolerant()
        trail = rx.trailing_blank_tolerant()
        if lead and trail:
            tdesc = 'ws*$' if trail is True else 'dot-run group to $ (parse_expression ignores trailing blanks)'
            chk.ok('C10.W', f'{rn}: leading ws* and trailing {tdesc}')
        elif chk.tier == 'thorough':
            pass
        else:
            which = ('leading' if not lead else '') + (' and ' if not lead and not trail else '') + ('trailing' if not trail else '')
            chk.bad('C10.W', mod, rn, f'{rn}: {which} blanks not tolerated',
                    f'statement regex {rn} ({rx.pattern}) does not accept {which} blanks: indentation or trailing whitespace changes how the line is parsed')
        if chk.tier == 'thorough':
            sa_, _c1, sb_, _c2 = closure_by_automata(Rx(r'^af\s+x$'), alphabet)
            if sa_ or sb_:
                raise Unrecognised('C10.W', 'automata engine self-check failed (synthetic non-closed language not detected)', mod.rel)
            try:
                a, c1, b, c2 = closure_by_automata(rx, alphabet)
            except Unrecognised as exc:
                chk.unrec('C10.W', f'{rn}: automata closure check not possible: {exc.what}')
                continue
            if a and b:
                chk.ok('C10.W', f'{rn}: language closed under prepending/appending blanks (automata, {len(alphabet)} representative characters)')
            else:
                chk.bad('C10.W', mod, rn, f'{rn}: blanks change acceptance',
                        f'statement regex {rn} accepts a line but not the same line with a blank {"prepended" if not a else "appended"} (representative text {(c1 if not a else c2)!r})')
    # keywords are delimited: after a keyword literal run comes \s, punctuation, an anchor or the end of an alternative
    for rn in stmt_regexes:
        rx = pm.regexes[rn]
        bad = keyword_not_delimited(rx.tree)
        if bad:
            chk.bad('C10.W', mod, rn, f'{rn}: keyword {bad!r} not delimited', f'in {rn} the keyword {bad!r} may be followed directly by an identifier character')
        else:
            chk.ok('C10.W', f'{rn}: keywords are followed by blanks, punctuation or the end', trivial=True)


def keyword_not_delimited(tree):
    """find a literal alphabetic run (>= 2 letters) directly followed by something that can match a word character"""
    def seqs(node):
        if node.kind == 'cat':
            yield node.kids
        for k in node.kids:
            yield from seqs(k)
    for kids in seqs(tree):
        run = ''
        for i, k in enumerate(kids):
            if k.kind == 'lit' and k.a.isalpha():
                run += k.a
                continue
            if len(run) >= 2:
                if k.kind == 'in' and not k.a and any(it == ('cat', 'CATEGORY_WORD') or it[0] == 'range' for it in k.b):
                    return run
                if k.kind == 'any':
                    return run
            run = ''
    return None


def check_optional_expression_groups(chk, pm):
    """C10.W (semantic part): an OPTIONAL sub-expression group must not be able to match blank-only text - otherwise trailing blanks
    after the keyword are taken for an (unparsable) expression and change the parse"""
    n = 0
    for kind, rnames, _node in pm.handlers:
        for rn in rnames:
            rx = pm.regexes[rn]
            for g in rx.group_names():
                node = rx.group_node(g)
                if not rx.group_optional(g):
                    continue
                # does the group feed parse_expression?  (its content is an expression: a dot-run)
                if not any(k.kind == 'any' for k in rx.walk(node)):
                    continue
                # only groups reachable directly after blanks at the end of the line matter (e.g. `return` + blanks); a group enclosed in
                # mandatory punctuation such as jumpif (...) cannot be produced by trailing blanks
                lo, hi = rx.suffix_gap(g, None)
                path = rx._path_to(node)
                opt_parent = next((p for p in reversed(path[:-1]) if p.kind == 'rep' and p.a == 0), None)
                if opt_parent is None:
                    continue
                inner = opt_parent.kids[0]
                lits = [k for k in rx.walk(inner) if k.kind == 'lit' and not any(k is x for x in rx.walk(node))]
                if lits:
                    continue
                n += 1
                blank = Lang(node.kids[0], [' ', '\t', 'x'])
                if blank.accepts(' ') or blank.accepts('  ') or blank.accepts('\t'):
                    chk.bad('C10.W', pm.mod, rn, f'{rn}: optional group {g!r} can match blank-only text',
                            f'in {rn} ({rx.pattern}) the optional expression group {g!r} can match text consisting only of blanks: `{kind}` followed by two or more trailing blanks is parsed as '
                            f'`{kind} <blank expression>` and rejected, although `{kind}` and `{kind} ` are accepted - trailing whitespace changes the program')
                else:
                    chk.ok('C10.W', f'{rn}: optional expression group {g!r} cannot match blank-only text (trailing blanks stay trailing blanks)')
    if n == 0:
        raise Unrecognised('C10.W', 'no optional expression group found in the statement regexes', pm.mod.rel)


def check_tokens(chk, pm):
    rxs = classify_expr_regexes(pm.mod)
    n = 0
    for name, (kind, rx) in sorted(rxs.items()):
        n += 1
        items = rx.top_items()
        if len(items) >= 2 and items[0].kind == 'at' and Rx.is_ws_star(items[1]):
            chk.ok('C10.T', f'{name} ({kind}) starts with ^\\s*')
        else:
            chk.bad('C10.T', pm.mod, name, f'{name}: no leading \\s*', f'expression token regex {name} does not skip leading blanks: blanks before this token change the parse')
    if n < 10:
        raise Unrecognised('C10.T', f'only {n} expression token regexes classified', pm.mod.rel)


def check_no_splitlines(chk, pm, rule='C10.S'):
    for n in ast.walk(pm.func):
        if isinstance(n, ast.Call) and isinstance(n.func, ast.Attribute) and n.func.attr == 'splitlines':
            chk.bad(rule, pm.mod, 'parse_script', norm(n)[:80],
                    'lines are split with str.splitlines(): it also breaks lines at form feed, vertical tab, NEL, U+2028/2029 and a lone CR, which are ordinary characters of a comment or string '
                    'literal, and it drops the empty pieces the documented split (optional CR + LF) keeps - reported line numbers and the program itself change', node=n)


def check_arg_split(chk, pm):
    mod = pm.mod
    fb = pm.kind_regex.get('function')
    if not fb:
        raise Unrecognised('C10.A', 'function-begin regex not found', mod.rel)
    rx = pm.regexes[fb[0]]
    g = rx.group_node('args')
    if g is None:
        raise Unrecognised('C10.A', 'function-begin regex has no args group', mod.rel)
    reps = [n for n in rx.walk(g) if n.kind == 'rep' and n.b >= MAXREPEAT and n.kids[0].kind == 'cat' and any(Rx.literal_of(k) == ',' for k in n.kids[0].kids)]
    if len(reps) != 1:
        raise Unrecognised('C10.A', 'separator repetition inside the args group not found', mod.rel)
    kids = reps[0].kids[0].kids
    # separator = everything before the identifier (first class with ranges)
    sep = []
    for k in kids:
        if k.kind == 'in' and any(it[0] == 'range' for it in k.b):
            break
        sep.append(k)
    split_calls = [n for n in ast.walk(pm.loop) if isinstance(n, ast.Call) and isinstance(n.func, ast.Attribute) and n.func.attr == 'split'
                   and isinstance(n.func.value, ast.Name) and n.func.value.id in pm.regexes and "'args'" in norm(n)]
    if len(split_calls) != 1:
        raise Unrecognised('C10.A', 'the split of the args group was not found in the function handler', mod.rel)
    srx = pm.regexes[split_calls[0].func.value.id]
    if repr(RNode('cat', kids=sep)) == repr(srx.tree):
        chk.ok('C10.A', f'{srx.name} consumes exactly the separator ({srx.pattern}) that {rx.name} allows between parameter names')
    else:
        chk.bad('C10.A', mod, srx.name, f'{srx.name} = {srx.pattern}',
                f'the function-begin regex allows {repr(RNode("cat", kids=sep))} between parameter names but the names are split with {srx.pattern}: blanks the statement '
                f'regex accepts (e.g. before a comma, or around a continuation join) end up inside parameter names')


def check_continuation_form(chk, pm):
    mod = pm.mod
    loop = pm.loop
    # detection
    subs = [n for n in ast.walk(loop) if isinstance(n, ast.Call) and isinstance(n.func, ast.Attribute) and n.func.attr == 'sub'
            and isinstance(n.func.value, ast.Name) and n.func.value.id in pm.regexes and len(n.args) == 2 and const_str(n.args[0]) == '']
    ends = [n for n in ast.walk(loop) if isinstance(n, ast.Call) and isinstance(n.func, ast.Attribute) and n.func.attr in ('endswith', 'rstrip') and n.args and const_str(n.args[0]) == '\\']
    if ends and not subs:
        chk.bad('C10.J', mod, 'parse_script', norm(ends[0])[:80],
                'a continuation is detected with str.endswith: a backslash followed by trailing blanks is no longer a continuation, so trailing whitespace changes the program', node=ends[0])
        return
    if len(subs) != 1:
        raise Unrecognised('C10.J', f'{len(subs)} continuation-removal substitutions found', mod.rel)
    rx = pm.regexes[subs[0].func.value.id]
    items = rx.tree.kids
    if len(items) == 3 and Rx.literal_of(items[0]) == '\\' and Rx.is_ws_star(items[1]) and items[2].kind == 'at' and items[2].a in ('AT_END', 'AT_END_STRING'):
        chk.ok('C10.J', f'{rx.name} = backslash, blanks, end of line')
    else:
        chk.bad('C10.J', mod, rx.name, rx.pattern, 'the continuation marker must be a backslash followed only by blanks up to the end of the physical line')
    # join with one blank
    joins = [n for n in ast.walk(loop) if isinstance(n, ast.Call) and isinstance(n.func, ast.Attribute) and n.func.attr == 'join']
    if len(joins) == 1 and const_str(joins[0].func.value) == ' ':
        chk.ok('C10.J', "continuation parts are joined with exactly one blank")
    else:
        chk.bad('C10.J', mod, 'parse_script', '; '.join(norm(j)[:40] for j in joins) or 'no join',
                'continuation parts must be joined with exactly one blank (a blank is allowed wherever a line may be broken)', node=joins[0] if joins else loop)
    # parts stripped
    appends = [n for n in ast.walk(loop) if isinstance(n, ast.Call) and isinstance(n.func, ast.Attribute) and n.func.attr == 'append' and n.args
               and any(isinstance(x, ast.Attribute) and x.attr in ('strip', 'rstrip') for x in ast.walk(n.args[0]))]
    stripped = all('.strip()' in norm(a.args[0]) for a in appends)
    first_rstrip = any('.rstrip()' in norm(a.args[0]) for a in appends)
    if len(appends) >= 2 and stripped and first_rstrip:
        chk.ok('C10.J', 'continuation parts are stripped before joining (the first part keeps only its indentation)')
    else:
        chk.bad('C10.J', mod, 'parse_script', f'{len(appends)} stripped appends', 'every continuation part must be stripped of surrounding blanks before it is joined (first part: trailing blanks only)', node=loop)
    # comment test: a top-level `if COMMENT.match(line): continue`; nothing before it may touch an accumulator
    first = next((s for s in loop.body if isinstance(s, ast.If) and pm.comment_regex and pm.comment_regex in norm(s.test)
                  and len(s.body) == 1 and isinstance(s.body[0], ast.Continue) and not s.orelse), None)
    if first is not None:
        ix = loop.body.index(first)
        touches = [s for s in loop.body[:ix] if any((isinstance(n, ast.Call) and isinstance(n.func, ast.Attribute) and n.func.attr in ('append', 'clear', 'pop', 'extend', 'insert'))
                                                     or (isinstance(n, (ast.Assign, ast.AugAssign)) and any(isinstance(t, ast.Subscript) for t in (n.targets if isinstance(n, ast.Assign) else [n.target])))
                                                     for n in ast.walk(s))]
        if not touches:
            chk.ok('C10.O', 'comment / blank lines are skipped by a top-level test of the line loop before any accumulator is touched')
        else:
            chk.bad('C10.O', mod, 'parse_script', norm(touches[0])[:80], 'an accumulator is modified before the comment test: a comment / blank line changes parser state', node=touches[0])
    else:
        chk.note('C10.O: no top-level `if COMMENT.match(line): continue` in the line loop; comment transparency is decided by the E6 scenarios only')


def normalise(model, lines):
    """reified model with line ids replaced by the ordinal among non-comment lines"""
    order = {}
    for ln in lines:
        if ln.regex is None or 'COMMENT' not in (ln.regex or '') and True:
            pass
    comment = None

    def rec(v):
        if isinstance(v, dict):
            return {k: rec(x) for k, x in v.items()}
        if isinstance(v, list):
            return [rec(x) for x in v]
        if isinstance(v, ALine):
            return ('line', order[v.lid])
        if isinstance(v, Sym):
            return (v.kind,) + tuple(rec(a) if not (v.kind == 'group' and i == 2) else order[a] for i, a in enumerate(v.args))
        if isinstance(v, tuple):
            return tuple(rec(x) for x in v)
        return v
    return rec, order


def check_comment_insertion(chk, pm):
    shapes = constructs(2, 'some')
    extra = [[('func', [B, ('while', [B, ('if', [[('break',)]], None)])], True), B],
             [('include', 0), ('include', 1), ('include', 0)], [B, ('include', 0), ('include', 0), B], [('func', [('include', 1), ('include', 1), B], False)]]
    n = 0
    for item in [[s] for s in shapes[:60]] + extra:
        sh = Shape(pm)
        sh.emit_block(item, 0)
        sh2 = Shape(pm)
        # same lines with a comment and a blank line before every line
        for ln, src in zip(sh.lines, sh.src):
            sh2.add('comment', '# c')
            sh2.add('comment', '')
            new = ALine(len(sh2.lines), ln.regex, dict(ln.groups), ln.also)
            sh2.lines.append(new)
            sh2.src.append(src)
        sh2.add('comment', '# trailing')
        st1, v1, _ = pm.lower(sh.lines)
        st2, v2, _ = pm.lower(sh2.lines)
        if st1 != 'ok' or st2 != 'ok':
            chk.bad('C10.O', pm.mod, 'parse_script', f'comment insertion changes acceptance ({st1} vs {st2})',
                    'inserting comment / blank lines changes whether the program parses:\n' + '\n'.join(sh.src))
            continue
        o1 = {ln.lid: i for i, ln in enumerate(sh.lines)}
        o2 = {ln.lid: i for i, ln in enumerate([l for l in sh2.lines if l.regex != pm.comment_regex])}

        def norm_model(v, order):
            if isinstance(v, dict):
                return {k: norm_model(x, order) for k, x in v.items()}
            if isinstance(v, list):
                return [norm_model(x, order) for x in v]
            if isinstance(v, ALine):
                return ('line', order[v.lid])
            if isinstance(v, Sym):
                return (v.kind,) + tuple(order[a] if (v.kind == 'group' and i == 2) else norm_model(a, order) for i, a in enumerate(v.args))
            if isinstance(v, tuple):
                return tuple(norm_model(x, order) for x in v)
            return v
        m1 = norm_model(reify(v1), o1)
        m2 = norm_model(reify(v2), o2)
        n += 1
        if m1 == m2:
            chk.ok('C10.O', f'shape {n}: model unchanged by inserting comment and blank lines between all lines')
        else:
            chk.bad('C10.O', pm.mod, 'parse_script', 'comment / blank lines change the model', 'inserting comment / blank lines changes the emitted model of:\n' + '\n'.join(sh.src))
    # a comment inside a continuation
    def mk(specs):
        sh = Shape(pm)
        for kind, cont in specs:
            lid = sh.add(kind, kind)
            sh.lines[lid].cont = cont
        return sh
    a = mk([('assign', 'text'), ('expr', 'text'), ('assign', None)])
    b = mk([('assign', 'text'), ('comment', None), ('expr', 'text'), ('comment', None), ('assign', None)])
    sa, va, _ = pm.lower(a.lines)
    sb, vb, _ = pm.lower(b.lines)
    if sa == sb == 'ok' and len(reify(va)['statements']) == len(reify(vb)['statements']) == 1:
        chk.ok('C10.O', 'comment / blank lines inside a continued statement neither end nor join it')
    else:
        chk.bad('C10.O', pm.mod, 'parse_script', 'comment inside a continued statement', 'a comment or blank line inside a continued statement changes the parse')


def check_no_state(chk, pm):
    mod = pm.mod
    module_names = set(mod.assigns)
    reach = set()
    work = ['parse_script', 'parse_expression']
    while work:
        f = work.pop()
        if f in reach or f not in mod.funcs:
            continue
        reach.add(f)
        for n in walk_no_nested(mod.funcs[f]):
            if isinstance(n, ast.Call) and isinstance(n.func, ast.Name) and n.func.id in mod.funcs:
                work.append(n.func.id)
            if isinstance(n, ast.Call) and isinstance(n.func, ast.Name) and n.func.id in mod.classes:
                work.append(f'{n.func.id}.__init__')
    MUT = {'append', 'extend', 'insert', 'pop', 'remove', 'clear', 'sort', 'reverse', 'update', 'setdefault', 'popitem', 'add', 'discard', '__setitem__'}
    for f in sorted(reach):
        func = mod.funcs[f]
        local_names = {a.arg for a in func.args.args}
        for n in walk_no_nested(func):
            if isinstance(n, ast.Assign):
                for t in n.targets:
                    for x in ast.walk(t):
                        if isinstance(x, ast.Name) and isinstance(x.ctx, ast.Store):
                            local_names.add(x.id)
            elif isinstance(n, (ast.For, ast.comprehension)):
                for x in ast.walk(n.target):
                    if isinstance(x, ast.Name):
                        local_names.add(x.id)
        for n in walk_no_nested(func):
            if isinstance(n, (ast.Global, ast.Nonlocal)):
                chk.bad('C10.N', mod, f, norm(n), 'the parser writes module-level state (global/nonlocal): results depend on earlier calls', node=n)
            tgt = None
            if isinstance(n, (ast.Assign, ast.AugAssign, ast.Delete)):
                for t in (n.targets if not isinstance(n, ast.AugAssign) else [n.target]):
                    if isinstance(t, (ast.Subscript, ast.Attribute)):
                        base = t.value
                        while isinstance(base, (ast.Subscript, ast.Attribute)):
                            base = base.value
                        if isinstance(base, ast.Name) and base.id in module_names and base.id not in local_names:
                            tgt = (base.id, n)
            if isinstance(n, ast.Call) and isinstance(n.func, ast.Attribute) and n.func.attr in MUT:
                base = n.func.value
                while isinstance(base, (ast.Subscript, ast.Attribute)):
                    base = base.value
                if isinstance(base, ast.Name) and base.id in module_names and base.id not in local_names:
                    tgt = (base.id, n)
            if tgt:
                chk.bad('C10.N', mod, f, norm(tgt[1])[:100],
                        f'{f} modifies the module-level object {tgt[0]}: the parser keeps state between calls, so the result for a text depends on what was parsed before', node=tgt[1])
        chk.ok('C10.N', f'{f}: no global/nonlocal, no store to or mutation of a module-level object')
    chk.extra['parser_functions_reachable'] = sorted(reach)


def check_layout_sim(chk, rule='C10.L'):
    """parse_script evaluated (E6p) on layout variants of two programs covering every statement form: each variant must give the model of the canonical layout -> True when all agree"""
    from .. import parsesim
    cache = getattr(chk, '_layout_sim', None)
    if cache is None:
        cache = chk._layout_sim = parsesim.run_layout(chk.repo, chk.tier, rule)
    n, problems = cache
    mod = chk.repo.module('parser')
    if problems:
        kinds = {}
        for k, msg in problems:
            kinds.setdefault(k, []).append(msg)
        for k, msgs in kinds.items():
            chk.bad(rule, mod, 'parse_script', f'{k}: {msgs[0][:110]}', f'evaluation of parse_script on {n} layout variants: {msgs[0][:500]} ({len(msgs)} variants deviate this way)',
                    node=mod.funcs.get('parse_script'))
        return False
    chk.ok(rule, f'{n} layout variants (each line respelled with blanks added / removed wherever the language definition allows one, tabs, trailing blanks, CRLF, no final newline, '
           f'chunkings at line boundaries, blank / comment lines inserted at every position, continuation at every blank with and without comments inside and across chunks) '
           f'of programs covering every statement form give the model of the canonical layout', count=n)
    return True


def run(chk):
    chk.rule('C10.L', 'layout variants give the model of the canonical layout (parse_script evaluated on concrete texts, E6p; variants generated from the language definition)', floor=400)
    layout_ok = chk.guard('C10.L', check_layout_sim, chk)
    chk.rule('C10.S', 'one line splitter (\\r?\\n) for both input forms', floor=2)
    chk.rule('C10.W', 'statement regexes tolerate leading / trailing blanks; keywords delimited', floor=18)
    chk.rule('C10.T', 'expression token regexes start with ^\\s*', floor=10)
    chk.rule('C10.A', 'argument split regex = separator allowed by the function-begin regex', floor=1)
    chk.rule('C10.J', 'continuation marker regex; parts stripped and joined with one blank', floor=3)
    chk.rule('C10.O', 'comments/blank lines are skipped first and never change the model (E6 scenarios)', floor=30)
    chk.rule('C10.N', 'parser keeps no state (effect analysis on module-level objects)', floor=4)
    chk.assumptions += ['str.split / re semantics are CPython\'s; breaks inside string literals or multi-character operators are excluded by the property ("where a space is allowed")']
    try:
        pm = ParserModel(chk.repo, 'C10.W')
    except Unrecognised as exc:
        if layout_ok:
            chk.note(f'the structural model of parse_script could not be built ({exc.what}); the statement-level clauses are decided by the evaluation C10.L')
            for r in ('C10.S', 'C10.W', 'C10.A', 'C10.J', 'C10.O'):
                chk.floors.pop(r, None)
            chk.unrec('C10.T', f'expression token regexes not examined: {exc.what}', exc.where)
        else:
            chk.unrec(exc.rule or 'C10.W', exc.what, exc.where)
            for r in list(chk.floors):
                if r != 'C10.L':
                    chk.floors.pop(r)
        return
    # statement-level shape rules: advisory read-backs once the evaluation C10.L decided positively (they explain a deviation otherwise)
    run_rule = chk.readback(layout_ok)
    run_rule('C10.S', check_split, chk, pm)
    run_rule('C10.S', check_no_splitlines, chk, pm)
    run_rule('C10.W', check_whitespace, chk, pm)
    run_rule('C10.W', check_optional_expression_groups, chk, pm)
    chk.guard('C10.T', check_tokens, chk, pm)
    run_rule('C10.A', check_arg_split, chk, pm)
    run_rule('C10.J', check_continuation_form, chk, pm)
    run_rule('C10.O', check_comment_insertion, chk, pm)
    if layout_ok:
        for r in ('C10.S', 'C10.W', 'C10.A', 'C10.J', 'C10.O'):
            chk.floors.pop(r, None)
    chk.guard('C10.N', check_no_state, chk, pm)
