"""C14 - JSON serialisation is faithful."""
import ast

from ..core import Unrecognised, norm, call_name, walk_no_nested, const_str, Regex
from ..rx import Rx, Lang, included, parse_tree, MAXREPEAT, RNode
from ..lib import library_functions

EXPLANATION = (
    'jsonParse(jsonStringify(v)) == v over all values is the host json module\'s contract plus what the repository '
    'configures and post-processes - that part is decided. C14.E: every encoder construction has sort_keys=True, '
    'allow_nan=False, the separators of its layout and the default ensure_ascii (every non-ASCII / control character '
    'leaves as an escape); default() maps datetimes and callables through value_string; jsonParse hands the validated '
    'string itself to json.loads (no pre-processing of the JSON text); jsonStringify passes int(indent). C14.S (the '
    'heart): every regex substitution applied to encoder output is applied to string contents too, so it must be unable '
    'to change a string token: either its pattern cannot match inside a token (mandatory quote / only end-anchored), or '
    'it is token-aware - an alternation whose FIRST alternative is a capturing group equal (automata equivalence) to '
    'the JSON string-token language "(escape-pair | non-quote non-backslash)*" and whose replacement returns that group '
    'unchanged. C14.N: the number clean-up alternative deletes ".0*" exactly before a structural follower of a number, '
    'and its follow set contains every follower: comma, }, ], whitespace and end of text - so integral numbers are '
    'written without a fraction in every position. C14.K: both sides of every key comparison in data.py are serialised '
    'by the same value_json (recorded dependency). Decides these; the host json contract is the trusted base.')
ENUMERATION = 'encoder constructions, substitutions on encoder output, follow-set members, json.loads sites, key-serialisation sites'

STRING_TOKEN = r'"(?:\\.|[^"\\])*"'
FOLLOWERS = [',', '}', ']', ' ', '\n']


def check_encoders(chk):
    vmod = chk.repo.module('value')
    ctors = [n for n in ast.walk(vmod.tree) if isinstance(n, ast.Call) and (call_name(n) or '').endswith('JSONEncoder') and n.keywords]
    if len(ctors) < 2:
        raise Unrecognised('C14.E', f'{len(ctors)} JSON encoder constructions found', vmod.rel)
    for c in ctors:
        kw = {k.arg: k.value for k in c.keywords if k.arg is not None}
        opaque_kwargs = False
        for k in c.keywords:
            if k.arg is None:        # **OPTIONS: a module-level dict literal of constant options is expanded, anything else is not decided
                src = vmod.assigns.get(k.value.id, [None])[0] if isinstance(k.value, ast.Name) and len(vmod.assigns.get(k.value.id, [])) == 1 else None
                if isinstance(src, ast.Dict) and all(isinstance(x, ast.Constant) and isinstance(x.value, str) for x in src.keys):
                    for kk, vv in zip(src.keys, src.values):
                        kw.setdefault(kk.value, vv)
                else:
                    opaque_kwargs = True
        if opaque_kwargs:
            chk.unrec('C14.E', f'encoder options of {norm(c)[:70]} are passed through ** of a value that is not a module-level dict literal', vmod.rel)
            continue
        indent = 'indent' in kw
        problems = []
        if not (isinstance(kw.get('sort_keys'), ast.Constant) and kw['sort_keys'].value is True):
            problems.append('sort_keys=True is missing: object keys are written in insertion order, equal objects serialise differently')
        if not (isinstance(kw.get('allow_nan'), ast.Constant) and kw['allow_nan'].value is False):
            problems.append('allow_nan=False is missing: NaN/Infinity are written, which is not JSON')
        if 'ensure_ascii' in kw and not (isinstance(kw['ensure_ascii'], ast.Constant) and kw['ensure_ascii'].value is True):
            problems.append('ensure_ascii is disabled: raw non-ASCII characters reach the post-processing regexes')
        sep = vmod.lit(kw['separators']) if 'separators' in kw else None
        want = (',', ': ') if indent else (',', ':')
        if sep != want:
            problems.append(f'separators {sep!r} differ from the layout {want!r}')
        if 'cls' in kw:
            problems.append('cls overridden')
        if 'default' in kw:
            dname = norm(kw['default'])
            dfn = vmod.funcs.get(dname)
            rets_d = [norm(r.value) if r.value is not None else 'None' for r in walk_no_nested(dfn) if isinstance(r, ast.Return)] if dfn is not None else None
            if dfn is None:
                chk.unrec('C14.E', f'default= hook {dname} of {norm(c)[:50]} is not a module-level function', vmod.rel)
                continue
            arg0 = dfn.args.args[0].arg if dfn.args.args else ''
            if not (set(rets_d) <= {f'value_string({arg0})', 'None'} and f'value_string({arg0})' in rets_d):
                problems.append(f'the default= hook {dname} returns {rets_d}: it must map datetimes/functions through value_string and everything else to null')
        for p in problems:
            chk.bad('C14.E', vmod, 'value_json', f'{norm(c)[:80]}: {p.split(":")[0]}', p, node=c)
        if not problems:
            chk.ok('C14.E', f'{"indented" if indent else "compact"} encoder: sort_keys=True, allow_nan=False, separators {want}, ensure_ascii default')
    # default()
    dflt = vmod.funcs.get('_JSONEncoder.default')
    if dflt is None:
        hooks = [c for c in ctors if any(k.arg == 'default' for k in c.keywords) or any(k.arg is None for k in c.keywords)]
        if len(hooks) == len(ctors):
            chk.ok('C14.E', 'every encoder is given a default= hook (checked with its constructor) instead of a subclass')
            dflt = False
        else:
            raise Unrecognised('C14.E', '_JSONEncoder.default not found', vmod.rel)
    rets = [norm(r.value) if r.value is not None else 'None' for r in walk_no_nested(dflt) if isinstance(r, ast.Return)] if dflt else []
    if dflt is False:
        pass
    elif set(rets) <= {'value_string(o)', 'None'} and 'value_string(o)' in rets:
        chk.ok('C14.E', 'encoder default(): datetimes and callables through value_string, everything else null')
    else:
        chk.bad('C14.E', vmod, '_JSONEncoder.default', str(rets), 'the encoder fallback must map datetimes/functions through value_string and everything else to null', node=dflt)
    # jsonParse / jsonStringify
    libfuncs = {lf.name: lf for lf in library_functions(chk.repo, 'C14.E')}
    lf = libfuncs['jsonParse']
    loads = [n for n in ast.walk(lf.func) if isinstance(n, ast.Call) and call_name(n) in ('json.loads', 'loads')]
    if len(loads) == 1 and lf.targets and len(loads[0].args) == 1 and norm(loads[0].args[0]) == lf.targets[0] and not loads[0].keywords:
        reassigned = [n for n in walk_no_nested(lf.func) if isinstance(n, ast.Assign) and any(norm(t) == lf.targets[0] for t in n.targets) and n.value is not lf.validate]
        if reassigned:
            chk.bad('C14.E', lf.mod, lf.pyname, norm(reassigned[0])[:100],
                    'the JSON text is rewritten before json.loads: a textual pre-processing step also applies inside string values and keys, so characters of strings are altered', node=reassigned[0])
        else:
            chk.ok('C14.E', 'jsonParse = json.loads(<the validated string itself>)')
    else:
        chk.bad('C14.E', lf.mod, lf.pyname, '; '.join(norm(l)[:60] for l in loads) or 'no json.loads',
                'jsonParse must hand the validated string itself to json.loads (any textual pre-processing also rewrites string contents)', node=lf.func)
    lf = libfuncs['jsonStringify']
    calls = [n for n in ast.walk(lf.func) if isinstance(n, ast.Call) and call_name(n) == 'value_json']
    if len(calls) == 1 and lf.targets and norm(calls[0].args[0]) == lf.targets[0] and len(calls[0].args) == 2:
        chk.ok('C14.E', f'jsonStringify = value_json(value, {norm(calls[0].args[1])[:50]}) (that the indent is an int is C12.sink)')
    elif calls:
        chk.unrec('C14.E', f'jsonStringify: {"; ".join(norm(c)[:60] for c in calls)} not recognised', lf.mod.rel)
    else:
        chk.bad('C14.E', lf.mod, lf.pyname, '; '.join(norm(c)[:80] for c in calls), 'jsonStringify must serialise the value itself with value_json and an int() indent', node=lf.func)


def subs_on_encoder_output(vmod):
    """(call, regex name, replacement node) for every .sub applied in value_json"""
    func = vmod.func('value_json', 'C14.S')
    out = []
    for n in walk_no_nested(func):
        if isinstance(n, ast.Call) and isinstance(n.func, ast.Attribute) and n.func.attr == 'sub':
            out.append(n)
        if isinstance(n, ast.Call) and call_name(n) in ('re.sub',):
            out.append(n)
        if isinstance(n, ast.Call) and isinstance(n.func, ast.Attribute) and n.func.attr in ('replace', 'strip', 'rstrip', 'translate'):
            out.append(n)
    return func, out


def _callable_keeps_group(vmod, repl, gid, gname, rname):
    """a replacement callable (lambda or module function) evaluated abstractly: returns the string-token group when it participates, '' otherwise"""
    from ..absint import Interp, AMatch, ALine, Sym, RaiseSig, ModuleFunc
    it = Interp(vmod, 'C14.S')
    if isinstance(repl, ast.Lambda):
        fn = ('closure', repl, {})
    elif isinstance(repl, ast.Name) and repl.id in vmod.funcs:
        fn = ModuleFunc(vmod.funcs[repl.id])
    else:
        return False
    for present in (True, False):
        groups = {gid: 'sym' if present else None}
        if gname:
            groups[gname] = 'sym' if present else None
        m = AMatch(rname, ALine(0, rname, groups))
        try:
            r = it.apply(fn, [m], repl)
        except Unrecognised:
            return None          # not understood
        except RaiseSig:
            return False
        if present:
            if not (isinstance(r, Sym) and r.kind == 'group' and r.args[1] in (gid, gname)):
                return False
        elif r != '':
            return False
    return True


def check_substitutions(chk):
    vmod = chk.repo.module('value')
    func, subs = subs_on_encoder_output(vmod)
    alphabet = ['"', '\\', 'a', 'u', '.', '0', ',', ']', '}', ' ', '\n', '5']
    ref = Lang(parse_tree(STRING_TOKEN, 0), alphabet, dotall=True)
    if not ref.accepts('"a\\"."') or ref.accepts('"a\\"') or ref.accepts('"a"a"'):
        raise Unrecognised('C14.S', 'automata engine self-check failed', vmod.rel)
    if not subs:
        chk.ok('C14.S', 'no textual post-processing of the encoder output')
        return []
    aware = []
    for call in subs:
        if isinstance(call.func, ast.Attribute) and call.func.attr in ('replace', 'strip', 'rstrip', 'translate'):
            chk.bad('C14.S', vmod, 'value_json', norm(call)[:100], f'str.{call.func.attr}() is applied to the whole encoder output: it also changes the contents of string values and keys', node=call)
            continue
        subject = call.args[-1] if call.args else None
        if isinstance(subject, ast.Subscript) and isinstance(subject.slice, ast.Slice):
            chk.bad('C14.S', vmod, 'value_json', norm(call)[:100],
                    f'the clean-up substitution is applied to a slice of the encoder output ({norm(subject)}): a token-aware pattern that starts in the middle of a string token is out of step, so '
                    f'string contents are rewritten and numbers after it keep their fraction', node=call)
            continue
        rname = norm(call.func.value) if isinstance(call.func, ast.Attribute) else norm(call.args[0])
        rg = vmod.const(rname, 'C14.S') if rname in vmod.assigns else None
        if not isinstance(rg, Regex):
            raise Unrecognised('C14.S', f'substitution pattern {rname} is not a module-level regex constant', vmod.rel)
        rx = Rx(rg.pattern, rg.flags, rname)
        repl = call.args[0] if isinstance(call.func, ast.Attribute) else call.args[1]
        items = rx.tree.kids
        # (b) token-aware form
        if len(items) == 1 and items[0].kind == 'alt' and len(items[0].kids) >= 2:
            first = items[0].kids[0]
            fk = first.kids if first.kind == 'cat' else [first]
            if len(fk) == 1 and fk[0].kind == 'group' and fk[0].a is not None:
                cand = Lang(fk[0].kids[0], alphabet, dotall=True)
                a, c1 = included(cand, ref)
                b, c2 = included(ref, cand)
                gid = fk[0].a
                repl_ok = const_str(repl) == f'\\{gid}' or const_str(repl) == f'\\g<{fk[0].b}>' or _callable_keeps_group(vmod, repl, gid, fk[0].b, rname)
                if a and b and repl_ok is None:
                    if getattr(chk, '_json_roundtrip_ok', False):
                        chk.ok('C14.S', f'{rname}: token-aware - alternative 1 is exactly the JSON string-token language (automata equivalence); that the replacement function '
                               f'{norm(repl)[:50]} keeps the token is decided by the evaluation C14.R')
                        aware.append((rname, rx, items[0].kids[1:]))
                    else:
                        chk.unrec('C14.S', f'{rname}: the replacement {norm(repl)[:60]} is not understood (does it return the matched string token unchanged?)', vmod.rel)
                    continue
                if a and b and repl_ok:
                    chk.ok('C14.S', f'{rname}: token-aware - alternative 1 is exactly the JSON string-token language (automata equivalence) and the replacement returns it unchanged')
                    aware.append((rname, rx, items[0].kids[1:]))
                    continue
                if not (a and b):
                    cex = c1 if not a else c2
                    chk.bad('C14.S', vmod, rname, f'{rname}: string-token alternative is not the JSON string-token language',
                            f'the alternative meant to skip string tokens ({rg.pattern!r}) {"accepts" if not a else "rejects"} {cex!r}, which {"is not" if not a else "is"} a complete JSON string '
                            f'token: after such a string the scanner is out of step and the number clean-up is applied inside the following string (or numbers keep their fraction)')
                    continue
                chk.bad('C14.S', vmod, 'value_json', f'{rname}: replacement {norm(repl)}', 'the replacement does not return the matched string token unchanged', node=call)
                continue
        # (a) cannot match inside a string token: mandatory quote, or every match must end at end-of-line
        mand = rx.mandatory_chars()
        end_anchored = bool(items) and items[-1].kind == 'at' and items[-1].a in ('AT_END', 'AT_END_STRING')
        if '"' in mand or end_anchored:
            chk.ok('C14.S', f'{rname}: cannot match inside a string token ({"mandatory quote" if chr(34) in mand else "anchored at end of line"})')
        else:
            chk.bad('C14.S', vmod, rname, f'{rname} = {rg.pattern}',
                    f'the substitution {rg.pattern!r} is applied to the whole encoder output and can match inside a string token: string contents such as "etc., x" are rewritten, '
                    f'and two different values serialise to the same text')
    return aware


def check_number_cleanup(chk, aware):
    vmod = chk.repo.module('value')
    if not aware:
        # legacy form: separate patterns; nothing to check here
        chk.note('no token-aware clean-up pattern: C14.N not applicable')
        return
    for rname, rx, alts in aware:
        if len(alts) != 1:
            raise Unrecognised('C14.N', f'{rname}: expected one number clean-up alternative', vmod.rel)
        kids = alts[0].kids if alts[0].kind == 'cat' else [alts[0]]
        if not (len(kids) == 3 and Rx.literal_of(kids[0]) == '.' and kids[1].kind == 'rep' and kids[1].a == 0 and Rx.literal_of(kids[1].kids[0]) == '0' and kids[2].kind == 'assert'
                and kids[2].a == 1 and not kids[2].b):
            raise Unrecognised('C14.N', f'{rname}: clean-up alternative is not "\\.0*(?=followers)"', vmod.rel)
        la = kids[2].kids[0]
        la_items = la.kids if la.kind == 'cat' else [la]
        accepts_end = False
        classes = []
        node = la_items[0] if len(la_items) == 1 else None
        if node is not None and node.kind == 'alt':
            for a in node.kids:
                ak = a.kids if a.kind == 'cat' else [a]
                if len(ak) == 1 and ak[0].kind == 'at' and ak[0].a in ('AT_END', 'AT_END_STRING'):
                    accepts_end = True
                elif len(ak) == 1 and ak[0].kind in ('in', 'lit'):
                    classes.append(ak[0])
        elif node is not None and node.kind in ('in', 'lit'):
            classes.append(node)
        from ..rx import class_matches
        for ch in FOLLOWERS:
            if any(class_matches(c, ch) for c in classes):
                chk.ok('C14.N', f'{rname}: number clean-up applies before {ch!r}')
            else:
                chk.bad('C14.N', vmod, rname, f'{rname}: follower {ch!r} missing',
                        f'the number clean-up does not apply when an integral number is followed by {ch!r}: such numbers are written with a fraction (e.g. [1,2,3.0]), and the float and int '
                        f'spellings of one number serialise differently (which also splits serialised grouping keys)')
        if accepts_end:
            chk.ok('C14.N', f'{rname}: number clean-up applies at the end of the text')
        else:
            chk.bad('C14.N', vmod, rname, f'{rname}: end of text missing', 'a top-level integral number keeps its fraction (jsonStringify(5) = 5.0)')
        for ch in ['5', 'e', '0', '.', '"', 'a']:
            if any(class_matches(c, ch) for c in classes):
                chk.bad('C14.N', vmod, rname, f'{rname}: follower {ch!r}', f'the clean-up also fires before {ch!r}: digits of a fraction or exponent are deleted (1.05 -> 15)')


def check_key_serialisation(chk):
    dmod = chk.repo.module('data')
    n = 0
    for fname in ('join_data', 'aggregate_data', 'top_data'):
        func = dmod.func(fname, 'C14.K')
        keys = [node for node in walk_no_nested(func) if isinstance(node, ast.Assign) and isinstance(node.targets[0], ast.Name) and node.targets[0].id.endswith('_key')]
        for k in keys:
            n += 1
            v = k.value
            ser = [c for c in ast.walk(v) if isinstance(c, ast.Call) and call_name(c) == 'value_json']
            if ser or (isinstance(v, ast.Constant)):
                chk.ok('C14.K', f'{fname}: {norm(k)[:80]} (serialised by value_json)')
            else:
                chk.bad('C14.K', dmod, fname, norm(k)[:100],
                        'a grouping/join key is not the value_json serialisation of the key value: host hashing/equality (1 == True == 1.0, unhashable lists) replaces value equality', node=k)
    if n < 4:
        raise Unrecognised('C14.K', f'only {n} key computations found in data.py', dmod.rel)


def check_roundtrip_sim(chk, rule='C14.R'):
    """jsonStringify / jsonParse evaluated (E6l) on concrete JSON values: valid JSON denoting the value, sorted keys, no fraction on integral numbers, no collisions, parse inverts"""
    from .. import libsim
    from ..lib import library_functions
    libfuncs = {f.name: f for f in library_functions(chk.repo, rule)}
    n, problems = libsim.run_json_roundtrip(chk.repo, libfuncs, chk.tier, rule)
    vmod = chk.repo.module('value')
    if problems:
        kinds = {}
        for k, msg in problems:
            kinds.setdefault(k, []).append(msg)
        for k, msgs in kinds.items():
            where = ('jsonParse', libfuncs['jsonParse']) if k == 'parse' else ('value_json', None)
            mod = where[1].mod if where[1] else vmod
            fn = where[1].pyname if where[1] else 'value_json'
            chk.bad(rule, mod, fn, f'{k}: {msgs[0][:100]}', f'evaluation on {n} calls: {msgs[0][:400]} ({len(msgs)} deviations of this kind)',
                    node=(where[1].func if where[1] else vmod.funcs.get('value_json')))
        return False
    chk.ok(rule, f'{n} evaluated calls: jsonStringify (no indent, indent 2, indent 3.0) of JSON values whose strings and keys contain . 0 , ] }} " \\ / newline, control and '
           f'non-BMP characters, trailing backslashes and newlines, gives valid JSON denoting exactly the value with sorted keys and no fraction on integral numbers; no two '
           f'different values share a text; jsonParse maps the text back', count=n)
    return True


def run(chk):
    chk.rule('C14.R', 'jsonParse(jsonStringify(v)) = v, valid JSON, sorted keys, integral numbers without fraction: evaluation on concrete JSON values (E6l)', floor=500)
    rt = chk.guard('C14.R', check_roundtrip_sim, chk)
    chk._json_roundtrip_ok = bool(rt)
    chk.rule('C14.E', 'encoder configuration; jsonParse / jsonStringify wiring', floor=5)
    chk.rule('C14.S', 'substitutions on encoder output cannot change string tokens (token-aware by automata equivalence, or unable to match inside a token)', floor=1)
    chk.rule('C14.N', 'number clean-up follow set = all structural followers of a number', floor=6)
    chk.rule('C14.K', 'grouping / join keys are value_json serialisations', floor=4)
    chk.assumptions += ['host json: JSONEncoder with ensure_ascii writes every non-ASCII/control character as an escape; json.loads inverts it; float repr round-trips (C13)']
    chk.readback(rt)('C14.E', check_encoders, chk)
    if chk._json_roundtrip_ok:
        chk.floors.pop('C14.E', None)
    # the automata arguments about the clean-up substitution (universal over texts) are keyed on the spelling `regex.sub(...)` applied to the encoder output: read-backs of C14.R
    aware = chk.readback(rt)('C14.S', check_substitutions, chk)
    chk.readback(rt)('C14.N', check_number_cleanup, chk, aware or [])
    if rt:
        chk.floors.pop('C14.S', None)
        chk.floors.pop('C14.N', None)
    chk.guard('C14.K', check_key_serialisation, chk)
