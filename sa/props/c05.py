"""C05 - runtime errors are contained: only documented exceptions escape."""
import ast

from ..core import Unrecognised, call_name, const_str, norm, walk_no_nested, if_chain
from ..raises import Effects, handler_names, handler_reraises, is_subclass, caught_by
from ..rt import EvalExpr

EXPLANATION = (
    'C05.W: every call of a dynamic function value in runtime.py lies in a try whose handlers, in order, re-raise '
    'exactly BareScriptRuntimeError and then catch Exception (or bare) without re-raising, log through logFn under '
    'the debug flag, and return error.return_value for ValueArgsError and None otherwise; fetchFn is called under a '
    'catch-all that converts to the include-failure runtime error. C05.E: exception-escape (effect) analysis over '
    'the call graph from execute_script and evaluate_expression through every resolved repository callee outside '
    'the wrapper (value_boolean, value_compare, value_string, value_json, value_normalize_datetime, '
    'value_round_number, url_file_relative ...): each raising primitive of a frozen CPython table (/, %, //, **, '
    '+ - * on script numbers, timedelta construction and datetime arithmetic, int() of a float expression, '
    '.astimezone(), JSON encode with allow_nan=False, ordering of raw possibly-aware datetimes, explicit raises) must '
    'be caught by an enclosing handler on the path to the API boundary; only BareScriptRuntimeError and '
    'BareScriptParserError may escape. C05.L: explicit ValueArgsError failure values agree with the declared one. '
    'Decides "no path from a raising primitive to the API boundary without a handler"; does not enumerate causes of '
    'failures inside library functions (contained wholesale by the wrapper).')
ENUMERATION = ('one instance per raising primitive reachable from the two entry points (OK when caught, VIOLATION when it '
               'escapes), per dynamic call site, per wrapper clause; distinct by (rule, function, construct, exception)')

ALLOWED = {'BareScriptRuntimeError', 'BareScriptParserError'}


def runtime_value_vars(mod):
    out = {}
    for fname, func in mod.funcs.items():
        names = set()
        for n in walk_no_nested(func):
            if isinstance(n, ast.Assign) and isinstance(n.value, ast.Call) and call_name(n.value) == 'evaluate_expression':
                for t in n.targets:
                    if isinstance(t, ast.Name):
                        names.add(t.id)
        # locals derived by value_normalize_datetime / arithmetic of value vars are script-derived too
        changed = True
        while changed:
            changed = False
            for n in walk_no_nested(func):
                if isinstance(n, ast.Assign) and len(n.targets) == 1 and isinstance(n.targets[0], ast.Name) and n.targets[0].id not in names:
                    if isinstance(n.value, ast.BinOp) and any(isinstance(x, ast.Name) and x.id in names for x in ast.walk(n.value)):
                        names.add(n.targets[0].id)
                        changed = True
        out[(mod.name, fname)] = names
    return out


def dynamic_calls(func):
    """calls whose callee is a local variable (function value / option callback)"""
    assigned = set()
    for n in walk_no_nested(func):
        if isinstance(n, ast.Assign):
            for t in n.targets:
                if isinstance(t, ast.Name):
                    assigned.add(t.id)
    params = {a.arg for a in func.args.args}
    out = []
    for n in walk_no_nested(func):
        if isinstance(n, ast.Call):
            f = n.func
            if isinstance(f, ast.Name) and (f.id in assigned or f.id in params):
                out.append((n, f.id))
            elif isinstance(f, ast.Subscript):
                out.append((n, norm(f)))
    return out


def origin_of(func, name):
    """textual origins of a local: the RHS of its assignments"""
    return [norm(n.value) for n in walk_no_nested(func) if isinstance(n, ast.Assign) and any(isinstance(t, ast.Name) and t.id == name for t in n.targets)]


def provenance(mod, func, name, depth=0):
    """textual origins of a callee variable; a helper's parameter is traced to the arguments of the helper's call sites (one level)"""
    out = list(origin_of(func, name))
    params = [a.arg for a in func.args.args]
    if name in params and depth < 2:
        ix = params.index(name)
        for caller in mod.funcs.values():
            for n in walk_no_nested(caller):
                if isinstance(n, ast.Call) and isinstance(n.func, ast.Name) and n.func.id == func.name and len(n.args) > ix:
                    arg = n.args[ix]
                    out.append(norm(arg))
                    if isinstance(arg, ast.Name):
                        out += provenance(mod, caller, arg.id, depth + 1)
    return out


def _host_operator_table_call(mod, func, call, callee):
    """the callee is TABLE[key] / TABLE.get(key) (directly or through a local) where TABLE is a module-level dict whose values are all operator.* / math.* functions, builtins or lambdas"""
    def table_of(e, depth=0):
        if isinstance(e, ast.Subscript) and isinstance(e.value, ast.Name):
            return e.value.id
        if isinstance(e, ast.Call) and isinstance(e.func, ast.Attribute) and e.func.attr == 'get' and isinstance(e.func.value, ast.Name):
            return e.func.value.id
        if isinstance(e, ast.Name) and depth < 2:
            defs = [a.value for a in walk_no_nested(func) if isinstance(a, ast.Assign) and len(a.targets) == 1 and isinstance(a.targets[0], ast.Name) and a.targets[0].id == e.id]
            tabs = {table_of(d, depth + 1) for d in defs}
            return tabs.pop() if len(tabs) == 1 else None
        return None
    t = table_of(call.func)
    if not t or t not in mod.assigns or len(mod.assigns[t]) != 1 or not isinstance(mod.assigns[t][0], ast.Dict):
        return False
    for v in mod.assigns[t][0].values:
        ok = (isinstance(v, ast.Attribute) and isinstance(v.value, ast.Name) and v.value.id in ('operator', 'math')) or isinstance(v, ast.Lambda) or \
            (isinstance(v, ast.Name) and v.id in ('abs', 'min', 'max', 'pow', 'divmod', 'round'))
        if not ok:
            return False
    return True


def check_wrapper(chk):
    from .. import raises as _raises
    _raises.CM_REPO[0] = chk.repo          # with statements over the repository's own context managers are resolved (a guard class whose __exit__ may absorb counts as a handler)
    mod = chk.repo.module('runtime')
    n_fv = 0
    for fname, func in mod.funcs.items():
        params = [a.arg for a in func.args.args]
        for call, callee in dynamic_calls(func):
            origins = ' | '.join(provenance(mod, func, callee) if callee.isidentifier() else [callee]) + ' | ' + callee
            is_fetch = "'fetchFn'" in origins
            import re as _re
            # a callback the host configured through an options key named ...Fn (logFn, urlFn, or one added later): trusted host configuration
            is_option_cb = bool(_re.search(r"(?:get\w*\(|\[)'[A-Za-z]+Fn'", origins)) and not is_fetch
            # calling convention of function values: f(<argument list>, options)
            is_fv = len(call.args) == 2 and not call.keywords and isinstance(call.args[1], ast.Name) and call.args[1].id in params and call.args[1].id == 'options' \
                and not is_fetch and not is_option_cb
            if is_fetch:
                h = caught_by(call, 'Exception', func)
                if h is None:
                    chk.bad('C05.W', mod, fname, norm(call), 'fetchFn is called outside a catch-all handler: a throwing fetch function reaches the embedding application '
                            'instead of the "Include of ... failed" runtime error', node=call)
                else:
                    chk.ok('C05.W', f'{fname}: {norm(call)} under a catch-all handler')
                continue
            if is_option_cb:
                chk.ok('C05.W', f'{fname}: {norm(call)[:60]} is a host option callback (logFn/urlFn: trusted host configuration)', trivial=True)
                continue
            if not is_fv and _host_operator_table_call(mod, func, call, callee):
                chk.ok('C05.W', f'{fname}: {norm(call)[:60]} calls an entry of a module-level table of host operator functions (not a script function value)', trivial=True)
                continue
            prov = provenance(mod, func, callee) if callee.isidentifier() else []
            if not is_fv and prov and all(p in mod.funcs or p in mod.imports for p in prov):
                # a local alias of module-level functions (evaluate = evaluate_expression): a static call under another name; its effects are those of the functions
                chk.ok('C05.W', f'{fname}: {norm(call)[:60]} calls a local alias of {", ".join(prov)}', trivial=True)
                continue
            if not is_fv and prov and all(len(p.split('.')) == 2 and p.split('.')[0] in params and p.split('.')[1] in ('get', 'items', 'keys', 'values', 'setdefault', 'pop', 'update', 'append')
                                          for p in prov):
                chk.ok('C05.W', f'{fname}: {norm(call)[:60]} calls a bound method of a host container parameter ({", ".join(prov)})', trivial=True)
                continue
            if not is_fv:
                chk.unrec('C05.W', f'{fname}: dynamic call {norm(call)[:80]} is neither a function value call f(args, options) nor a known option callback (origins: {origins[:120]})', mod.rel)
                continue
            n_fv += 1
            if fname != 'evaluate_expression':
                _check_function_value_call(chk, mod, fname, func, call, callee)
            elif caught_by(call, 'RecursionError', func) is None:
                # The abstract evaluation below decides the wrapper on the paths a host function takes.  A further call site of a function value
                # outside every catch-all - e.g. a fast path for script functions - is not on those paths, and no function value is safe to call
                # bare: a script function that recurses deeply raises the host's RecursionError (necessary condition, decided per call site).
                chk.bad('C05.W', mod, fname, norm(call), 'a function value is called outside any catch-all handler: a host exception raised inside the called function '
                        '(a library failure, or RecursionError from a deeply recursive script function) reaches the embedding application instead of the call '
                        'evaluating to null', node=call)
            else:
                chk.ok('C05.W', f'{fname}: {norm(call)[:60]} lies under a catch-all handler')
    if n_fv == 0:
        raise Unrecognised('C05.W', 'no call of a function value found in runtime.py', mod.rel)
    # the wrapper around the function value call of evaluate_expression: decided by abstract evaluation (E6e)
    from .. import evalsim
    evalsim.report(chk, {'wrapper': 'C05.W', 'truth': 'C05.W', 'wrapper-rt': 'C05.O'},
                   {'wrapper': 'a host function that raises ValueArgsError / TypeError / BareScriptParserError evaluates to the declared failure value / null / null, also as an argument of another call; '
                               'the failure is logged through logFn exactly when a logFn exists and debug is on; no KeyError without logFn / options',
                    'wrapper-rt': 'BareScriptRuntimeError raised inside a called function propagates (is not absorbed by the catch-all)'})


def _handler_outcomes(stmts, err, is_va, local_defs, after):
    """set of outcomes of a handler body when the caught error is / is not a ValueArgsError:
    'RV' (error.return_value), 'None', ('const', v), ('other', text), 'raise'"""
    def truth(test):
        t = norm(test)
        if err and t == f'isinstance({err}, ValueArgsError)':
            return is_va
        if err and t == f'not isinstance({err}, ValueArgsError)':
            return not is_va
        if isinstance(test, ast.Name) and test.id in local_defs:
            return truth(local_defs[test.id])
        return None

    def value(v):
        if v is None or (isinstance(v, ast.Constant) and v.value is None):
            return {'None'}
        if isinstance(v, ast.IfExp):
            t = truth(v.test)
            if t is True:
                return value(v.body)
            if t is False:
                return value(v.orelse)
            return value(v.body) | value(v.orelse)
        if err and norm(v) == f'{err}.return_value':
            return {'RV'} if is_va else {('other', f'{err}.return_value of a non-ValueArgsError')}
        if isinstance(v, ast.Name) and v.id in local_defs:
            return value(local_defs[v.id])
        if isinstance(v, ast.Constant):
            return {('const', repr(v.value))}
        return {('other', norm(v)[:60])}

    def block(body):
        out = set()
        for s in body:
            if isinstance(s, ast.Return):
                return out | value(s.value), False
            if isinstance(s, ast.Raise):
                return out | {'raise'}, False
            if isinstance(s, ast.If):
                t = truth(s.test)
                branches = [s.body] if t is True else [s.orelse] if t is False else [s.body, s.orelse]
                falls = False
                for br in branches:
                    o, f = block(br)
                    out |= o
                    falls = falls or f
                if not falls:
                    return out, False
            elif isinstance(s, ast.Assign) and len(s.targets) == 1 and isinstance(s.targets[0], ast.Name):
                local_defs[s.targets[0].id] = s.value
        return out, True
    out, falls = block(stmts)
    if falls:
        o2, f2 = block(after)
        out |= o2
        if f2:
            out.add('None')       # falls off the end of the function
    return out


def _check_function_value_call(chk, mod, fname, func, call, callee):
    # innermost try whose body contains the call
    child = call
    cur = getattr(call, '_parent', None)
    tr = None
    while cur is not None and cur is not func:
        if isinstance(cur, ast.Try) and any(child is s for s in cur.body):
            tr = cur
            break
        child = cur
        cur = getattr(cur, '_parent', None)
    if tr is None:
        chk.bad('C05.W', mod, fname, norm(call), 'a function value is called outside any try: a failing library/host function raises into the embedding application '
                'instead of evaluating to null', node=call)
        return
    hs = tr.handlers
    names = [handler_names(h) for h in hs]
    # first: re-raise exactly BareScriptRuntimeError
    ix_all = next((i for i, nm in enumerate(names) if nm is None or nm & {'Exception', 'BaseException'}), None)
    if ix_all is None:
        chk.bad('C05.W', mod, fname, f'try around {norm(call)}: handlers {[sorted(n) if n else "bare" for n in names]}',
                'the wrapper around function calls has no catch-all handler: host exceptions (TypeError, KeyError, ...) from library functions escape', node=tr)
        return
    catch_all = hs[ix_all]
    rer = [(i, nm) for i, nm in enumerate(names) if i != ix_all and handler_reraises(hs[i])]
    rer_names = set().union(*[nm for _i, nm in rer]) if rer else set()
    if any(i > ix_all for i, _nm in rer) or 'BareScriptRuntimeError' not in rer_names:
        chk.bad('C05.O', mod, fname, f'handler order around {norm(call)}',
                'BareScriptRuntimeError must be re-raised by a handler placed BEFORE the catch-all: otherwise the statement-limit and unknown-label errors '
                'raised inside a called function are swallowed and the run continues', node=tr)
    elif rer_names != {'BareScriptRuntimeError'}:
        chk.bad('C05.W', mod, fname, f're-raised: {sorted(rer_names)}',
                f'the call wrapper re-raises {sorted(rer_names - {"BareScriptRuntimeError"})} in addition to BareScriptRuntimeError: a failure inside a library function '
                f'(e.g. a syntax error in a dataFilter expression) escapes instead of evaluating to null', node=tr)
    else:
        chk.ok('C05.O', f'{fname}: BareScriptRuntimeError re-raised before the catch-all around {norm(call)}')
    # outcomes of the catch-all: error.return_value for ValueArgsError, None otherwise (evaluated per case over the handler's branches)
    err = catch_all.name
    after = []
    blk = getattr(tr, '_parent', None)
    for field in ('body', 'orelse', 'finalbody'):
        lst = getattr(blk, field, None)
        if isinstance(lst, list) and tr in lst:
            after = lst[lst.index(tr) + 1:] if blk is func else []
            if blk is not func and lst[lst.index(tr) + 1:]:
                after = None
    if after is None:
        raise Unrecognised('C05.W', f'{fname}: the call wrapper is followed by statements in a nested block', mod.rel)
    good = True
    for is_va in (True, False):
        out = _handler_outcomes(catch_all.body, err, is_va, {}, after)
        want = {'RV'} if is_va else {'None'}
        if out == want:
            continue
        good = False
        soft = {o for o in out if isinstance(o, tuple) and o[0] == 'other' and 'non-ValueArgsError' not in o[1]}
        if soft and not (out - soft - want):
            chk.unrec('C05.W', f'{fname}: catch-all outcome {sorted(map(str, out))} for {"ValueArgsError" if is_va else "other errors"} not understood', mod.rel)
        else:
            chk.bad('C05.W', mod, fname, f'catch-all outcome for {"ValueArgsError" if is_va else "other exceptions"}: {sorted(map(str, out))}',
                    'a failing function call must evaluate to error.return_value for ValueArgsError and to null otherwise (and must not raise)', node=catch_all)
    if good:
        chk.ok('C05.W', f'{fname}: failing call evaluates to the declared failure value (ValueArgsError.return_value) or null (both cases evaluated over the handler)')
    # logging under debug through logFn
    local_defs = {}
    for n in walk_no_nested(func):
        if isinstance(n, ast.Assign) and len(n.targets) == 1 and isinstance(n.targets[0], ast.Name):
            local_defs.setdefault(n.targets[0].id, []).append(n.value)

    def expand(test, depth=0):
        t = norm(test)
        if depth < 3:
            for x in ast.walk(test):
                if isinstance(x, ast.Name) and x.id in local_defs and len(local_defs[x.id]) == 1:
                    t += ' <- ' + expand(local_defs[x.id][0], depth + 1)
        return t
    logs = [n for s in catch_all.body for n in ast.walk(s) if isinstance(n, ast.Call) and ('logFn' in norm(n.func) or (isinstance(n.func, ast.Name) and any("'logFn'" in o for o in provenance(mod, func, n.func.id))))]
    if logs:
        guards = []
        cur = getattr(logs[0], '_parent', None)
        while cur is not None and cur is not catch_all:
            if isinstance(cur, ast.If):
                guards.append(expand(cur.test))
            cur = getattr(cur, '_parent', None)
        guard = ' && '.join(guards)
        if "'debug'" in guard and ('logFn' in guard or 'log_fn' in guard):
            chk.ok('C05.W', f'{fname}: failure reported through logFn only when configured and in debug mode')
        elif not guards or "'debug'" not in guard and 'debug' not in guard:
            chk.bad('C05.W', mod, fname, f'log guard: {guard or None}', 'the failure must be reported through logFn under the debug flag (and only when a logFn exists)', node=logs[0])
        else:
            chk.unrec('C05.W', f'{fname}: log guard {guard[:100]} not understood', mod.rel)
    else:
        chk.bad('C05.W', mod, fname, 'no logFn call in the catch-all', 'a failure inside a library or host function is no longer reported through logFn in debug mode', node=catch_all)


def check_escape(chk):
    mod = chk.repo.module('runtime')
    vv = runtime_value_vars(mod)
    eff = Effects(chk.repo, value_vars=vv, summaries={
        'parse_script': {'BareScriptParserError'},      # C06.E
        'lint_script': set(),                            # C18.K
        'parse_expression': {'BareScriptParserError'},
    })
    reported = 0
    for entry in ('execute_script', 'evaluate_expression'):
        func = mod.func(entry, 'C05.E')
        sites = eff.escapes(mod, func)
        for s in sites:
            if s.exc in ALLOWED:
                chk.ok('C05.E', f'{entry}: {s.exc} from {s.mod.name}.{s.func}: {norm(s.node)[:60]} (documented)', trivial=True)
                continue
            reported += 1
            path = ' -> '.join(s.via + (f'{s.mod.name}.{s.func}',))
            chk.bad('C05.E', s.mod, s.func, f'{norm(s.node)[:100]} [{s.exc}]',
                    f'{s.exc} ({s.why}) can escape {entry}: no handler between the primitive and the API boundary (path {path}); '
                    f'the host application receives a Python exception instead of null / BareScriptRuntimeError', node=s.node,
                    detail={'entry': entry, 'path': path, 'exception': s.exc})
    from ..raises import UNCERTAIN_CM
    if UNCERTAIN_CM:
        w, why = UNCERTAIN_CM[0]
        chk.unrec('C05.E', f'exception containment below a with statement is not decided: {why} (line {getattr(w, "lineno", "?")}); {len(UNCERTAIN_CM)} site(s) of this kind', mod.rel)
    # OK instances: every primitive reachable that IS caught
    seen = set()

    def visit(m, f, depth=0):
        if (m.name, f.name) in seen or depth > 10:
            return
        seen.add((m.name, f.name))
        for node, exc, why in eff.primitives(m, f):
            if isinstance(node, ast.Raise):
                continue
            chk.ok('C05.E', f'{m.name}.{f.name}: {norm(node)[:70]} [{exc}] is caught locally or by every caller on the path' if True else '',
                   trivial=False) if not _escapes_entry(eff, mod, node, exc) else None
        for n in walk_no_nested(f):
            if isinstance(n, ast.Call) and isinstance(n.func, ast.Name):
                res = chk.repo.resolve_function(m, n.func.id)
                if res and n.func.id not in eff.summaries:
                    visit(res[0], res[1], depth + 1)
    for entry in ('execute_script', 'evaluate_expression'):
        visit(mod, mod.func(entry, 'C05.E'))
    chk.extra['functions_in_escape_analysis'] = sorted(f'{m}.{f}' for m, f in seen)


def _escapes_entry(eff, mod, node, exc):
    for entry in ('execute_script', 'evaluate_expression'):
        for s in eff.cache.get((mod.name, entry), []):
            if s.node is node and s.exc == exc:
                return True
    return False


def check_value_domain(chk):
    """C05.V: a host ** on script numbers can produce a complex number (negative base, fractional exponent): a non-BareScript value
    must not be returned"""
    mod = chk.repo.module('runtime')
    func = mod.func('evaluate_expression', 'C05.V')
    vv = runtime_value_vars(mod).get(('runtime', 'evaluate_expression'), set())
    n = 0
    for node in walk_no_nested(func):
        if isinstance(node, ast.BinOp) and isinstance(node.op, ast.Pow) and isinstance(node.left, ast.Name) and node.left.id in vv:
            n += 1
            par = getattr(node, '_parent', None)
            guarded = False
            if isinstance(par, ast.Assign) and isinstance(par.targets[0], ast.Name):
                res = par.targets[0].id
                for r in walk_no_nested(func):
                    if isinstance(r, ast.Return) and r.value is not None and res in {x.id for x in ast.walk(r.value) if isinstance(x, ast.Name)}:
                        if f'isinstance({res}, complex)' in norm(r.value) or f'isinstance({res}, (int, float))' in norm(r.value):
                            guarded = True
                    if isinstance(r, ast.If) and f'isinstance({res}, complex)' in norm(r.test):
                        guarded = True
            if guarded:
                chk.ok('C05.V', f'{norm(node)}: a complex result is mapped to null before it is returned')
            else:
                chk.bad('C05.V', mod, 'evaluate_expression', f'{norm(node)} returned unchecked',
                        'left ** right with a negative base and a fractional exponent yields a Python complex number: a value that is not a BareScript value reaches the script / host '
                        '(it must evaluate to null like other invalid operations)', node=node)
    if n == 0:
        raise Unrecognised('C05.V', 'no ** on script values found in evaluate_expression', mod.rel)


def check_object_keys(chk):
    """C05.K: objects produced for scripts have string keys only - csv.DictReader stores cells beyond the header under the key None unless restkey is given or the key is removed;
    serialising such an object (sort_keys=True) raises a host TypeError out of execute_script"""
    n = 0
    for modname in ('library', 'data'):
        mod = chk.repo.module(modname)
        for fname, func in mod.funcs.items():
            for node in walk_no_nested(func):
                if isinstance(node, ast.Call) and (call_name(node) or '').endswith('DictReader'):
                    n += 1
                    restkey = next((k.value for k in node.keywords if k.arg == 'restkey'), None)
                    removed = any((isinstance(x, ast.Call) and isinstance(x.func, ast.Attribute) and x.func.attr == 'pop' and x.args and isinstance(x.args[0], ast.Constant) and x.args[0].value is None)
                                  or (isinstance(x, ast.Delete) and any(isinstance(t, ast.Subscript) and isinstance(t.slice, ast.Constant) and t.slice.value is None for t in x.targets))
                                  or (isinstance(x, ast.Compare) and isinstance(x.ops[0], ast.IsNot) and isinstance(x.comparators[0], ast.Constant) and x.comparators[0].value is None
                                      and isinstance(getattr(x, '_parent', None), ast.comprehension))
                                  for x in ast.walk(func))
                    if (restkey is not None and const_str(restkey) is not None) or removed:
                        chk.ok('C05.K', f'{modname}.{fname}: rows of csv.DictReader cannot keep the None rest key ({"restkey given" if restkey is not None else "key None removed"})')
                    else:
                        chk.bad('C05.K', mod, fname, norm(node)[:80],
                                'csv.DictReader stores the cells of a row that is longer than the header under the key None: the resulting object has a non-string key, and serialising it '
                                '(string concatenation, stringNew, jsonStringify, grouping keys: sort_keys=True) raises a host TypeError out of execute_script', node=node)
    if n == 0:
        chk.note('C05.K: no csv.DictReader call found')


def check_object_keys_sim(chk, rule='C05.K'):
    """primary for C05.K: dataParseCSV evaluated (E6l) on concrete texts with ragged rows; csv.reader / csv.DictReader are exact host models -> True when decided OK"""
    from .. import libsim
    from ..lib import library_functions
    libfuncs = {f.name: f for f in library_functions(chk.repo, rule)}
    n, problems = libsim.run_parse_csv(chk.repo, libfuncs, rule)
    lf = libfuncs['dataParseCSV']
    if problems:
        chk.bad(rule, lf.mod, lf.pyname, problems[0][1][:110], f'evaluation of dataParseCSV on {n} texts: {problems[0][1]} ({len(problems)} deviations)', node=lf.func)
        return False
    chk.ok(rule, f'dataParseCSV evaluated on {n} concrete texts (rows longer and shorter than the header, CRLF, quoted commas, null parts): every row is an object whose keys are '
           f'exactly the header fields (strings); cells beyond the header are dropped, missing cells are null', count=n)
    return True


def check_failure_values(chk):
    from .c15 import check_failure_values as cfv
    cfv(chk, rule='C05.L')


def run(chk):
    chk.rule('C05.W', 'function values are called under the catch-all wrapper with the documented handler behaviour', floor=3)
    chk.rule('C05.O', 'BareScriptRuntimeError is re-raised before the catch-all', floor=1)
    chk.rule('C05.E', 'no raising primitive escapes execute_script / evaluate_expression (effect analysis over the call graph)', floor=10)
    chk.rule('C05.L', 'explicit ValueArgsError failure values agree with the declared failure value (shared with C15.V)')
    chk.assumptions += [
        'host option callbacks logFn / urlFn do not raise (host configuration); models are schema-valid; values are acyclic and recursion depth is bounded',
        'CPython primitive table: see sa/raises.py; comparisons of numbers/strings/booleans, unary minus, isinstance, len never raise',
    ]
    chk.rule('C05.V', 'no non-BareScript value (complex) is produced by the arithmetic operators', floor=1)
    chk.guard('C05.W', check_wrapper, chk)
    chk.guard('C05.E', check_escape, chk)
    chk.guard('C05.V', check_value_domain, chk)
    # evaluations whose 'raises' outcomes are host exceptions reaching the API (shared): the operator table on operands of every type incl. a 400-digit int, and the
    # include resolver on references with regex / path metacharacters
    from . import c03, c17
    chk.rule('C03.T', 'shared with C03: no operator raises on any pair of sample operands (incl. an arbitrary-precision int with a float)')
    c03.check_operator_table(chk, keep=lambda text: False)
    chk.rule('C17.U', 'shared with C17: url_file_relative never raises on references with backslashes / regex metacharacters')
    chk.guard('C17.U', c17.check_url_file_relative_sim, chk)
    chk.rule('C05.K', 'objects produced by the library have string keys only (no None rest key from csv.DictReader)')
    if chk.guard('C05.K', check_object_keys_sim, chk):
        chk.advisory('C05.K', check_object_keys, chk)
    else:
        chk.guard('C05.K', check_object_keys, chk)
    from . import c15
    chk.rule('C15.R', 'shared with C15: every array / object / string function evaluated on invalid calls (wrong type in each position, missing, surplus) returns its documented failure value')
    ref_ok = chk.guard('C15.R', c15.check_reference_sim, chk)
    chk.readback(ref_ok)('C05.L', check_failure_values, chk)
