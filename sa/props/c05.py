"""C05 - runtime errors are contained: only documented exceptions escape."""
import ast

from ..core import Unrecognised, call_name, const_str, norm, walk_no_nested, if_chain
from ..raises import Effects, handler_names, handler_reraises, is_subclass, caught_by
from ..rt import EvalExpr

EXPLANATION = (
    'C05.W: every call of a dynamic function value in runtime.py lies in a try whose handlers, in order, re-raise '
    'exactly BareScriptRuntimeError and then catch Exception (or bare) without re-raising, log through logFn under '
    'the debug flag, and return error.return_value for ValueArgsError and None otherwise; fetchFn is called under a '
    'catch-all that converts to the include-failure runtime error. C05.E: exception-escape (effect) analysis over '
    'the call graph from execute_script and evaluate_expression through every resolved repository callee outside '
    'the wrapper (value_boolean, value_compare, value_string, value_json, value_normalize_datetime, '
    'value_round_number, url_file_relative ...): each raising primitive of a frozen CPython table (/, %, //, **, '
    '+ - * on script numbers, timedelta construction and datetime arithmetic, int() of a float expression, '
    '.astimezone(), JSON encode with allow_nan=False, ordering of raw possibly-aware datetimes, explicit raises) must '
    'be caught by an enclosing handler on the path to the API boundary; only BareScriptRuntimeError and '
    'BareScriptParserError may escape. C05.L: explicit ValueArgsError failure values agree with the declared one. '
    'Decides "no path from a raising primitive to the API boundary without a handler"; does not enumerate causes of '
    'failures inside library functions (contained wholesale by the wrapper).')
ENUMERATION = ('one instance per raising primitive reachable from the two entry points (OK when caught, VIOLATION when it '
               'escapes), per dynamic call site, per wrapper clause; distinct by (rule, function, construct, exception)')

ALLOWED = {'BareScriptRuntimeError', 'BareScriptParserError'}


def runtime_value_vars(mod):
    out = {}
    for fname, func in mod.funcs.items():
        names = set()
        for n in walk_no_nested(func):
            if isinstance(n, ast.Assign) and isinstance(n.value, ast.Call) and call_name(n.value) == 'evaluate_expression':
                for t in n.targets:
                    if isinstance(t, ast.Name):
                        names.add(t.id)
        # locals derived by value_normalize_datetime / arithmetic of value vars are script-derived too
        changed = True
        while changed:
            changed = False
            for n in walk_no_nested(func):
                if isinstance(n, ast.Assign) and len(n.targets) == 1 and isinstance(n.targets[0], ast.Name) and n.targets[0].id not in names:
                    if isinstance(n.value, ast.BinOp) and any(isinstance(x, ast.Name) and x.id in names for x in ast.walk(n.value)):
                        names.add(n.targets[0].id)
                        changed = True
        out[(mod.name, fname)] = names
    return out


def dynamic_calls(func):
    """calls whose callee is a local variable (function value / option callback)"""
    assigned = set()
    for n in walk_no_nested(func):
        if isinstance(n, ast.Assign):
            for t in n.targets:
                if isinstance(t, ast.Name):
                    assigned.add(t.id)
    params = {a.arg for a in func.args.args}
    out = []
    for n in walk_no_nested(func):
        if isinstance(n, ast.Call):
            f = n.func
            if isinstance(f, ast.Name) and (f.id in assigned or f.id in params):
                out.append((n, f.id))
            elif isinstance(f, ast.Subscript):
                out.append((n, norm(f)))
    return out


def origin_of(func, name):
    """textual origins of a local: the RHS of its assignments"""
    return [norm(n.value) for n in walk_no_nested(func) if isinstance(n, ast.Assign) and any(isinstance(t, ast.Name) and t.id == name for t in n.targets)]


def check_wrapper(chk):
    mod = chk.repo.module('runtime')
    n_fv = 0
    for fname, func in mod.funcs.items():
        for call, callee in dynamic_calls(func):
            origins = ' | '.join(origin_of(func, callee))
            is_option_cb = ("options.get('logFn')" in origins or "options['logFn']" in callee or "options.get('urlFn')" in origins
                            or "options['urlFn']" in callee)
            is_fetch = "options.get('fetchFn')" in origins or "options['fetchFn']" in callee
            if is_fetch:
                h = caught_by(call, 'Exception', func)
                if h is None:
                    chk.bad('C05.W', mod, fname, norm(call), 'fetchFn is called outside a catch-all handler: a throwing fetch function reaches the embedding application '
                            'instead of the "Include of ... failed" runtime error', node=call)
                else:
                    chk.ok('C05.W', f'{fname}: {norm(call)} under a catch-all handler')
                continue
            if is_option_cb:
                chk.ok('C05.W', f'{fname}: {norm(call)[:60]} is a host option callback (logFn/urlFn: trusted host configuration)', trivial=True)
                continue
            # a function value (script / library / host function)
            n_fv += 1
            _check_function_value_call(chk, mod, fname, func, call, callee)
    if n_fv == 0:
        raise Unrecognised('C05.W', 'no call of a function value found in runtime.py', mod.rel)


def _check_function_value_call(chk, mod, fname, func, call, callee):
    # innermost try whose body contains the call
    child = call
    cur = getattr(call, '_parent', None)
    tr = None
    while cur is not None and cur is not func:
        if isinstance(cur, ast.Try) and any(child is s for s in cur.body):
            tr = cur
            break
        child = cur
        cur = getattr(cur, '_parent', None)
    if tr is None:
        chk.bad('C05.W', mod, fname, norm(call), 'a function value is called outside any try: a failing library/host function raises into the embedding application '
                'instead of evaluating to null', node=call)
        return
    hs = tr.handlers
    names = [handler_names(h) for h in hs]
    # first: re-raise exactly BareScriptRuntimeError
    ix_all = next((i for i, nm in enumerate(names) if nm is None or nm & {'Exception', 'BaseException'}), None)
    if ix_all is None:
        chk.bad('C05.W', mod, fname, f'try around {norm(call)}: handlers {[sorted(n) if n else "bare" for n in names]}',
                'the wrapper around function calls has no catch-all handler: host exceptions (TypeError, KeyError, ...) from library functions escape', node=tr)
        return
    catch_all = hs[ix_all]
    rer = [(i, nm) for i, nm in enumerate(names) if i != ix_all and handler_reraises(hs[i])]
    rer_names = set().union(*[nm for _i, nm in rer]) if rer else set()
    if any(i > ix_all for i, _nm in rer) or 'BareScriptRuntimeError' not in rer_names:
        chk.bad('C05.O', mod, fname, f'handler order around {norm(call)}',
                'BareScriptRuntimeError must be re-raised by a handler placed BEFORE the catch-all: otherwise the statement-limit and unknown-label errors '
                'raised inside a called function are swallowed and the run continues', node=tr)
    elif rer_names != {'BareScriptRuntimeError'}:
        chk.bad('C05.W', mod, fname, f're-raised: {sorted(rer_names)}',
                f'the call wrapper re-raises {sorted(rer_names - {"BareScriptRuntimeError"})} in addition to BareScriptRuntimeError: a failure inside a library function '
                f'(e.g. a syntax error in a dataFilter expression) escapes instead of evaluating to null', node=tr)
    else:
        chk.ok('C05.O', f'{fname}: BareScriptRuntimeError re-raised before the catch-all around {norm(call)}')
    if handler_reraises(catch_all) or any(isinstance(s, ast.Raise) for s in ast.walk(ast.Module(body=catch_all.body, type_ignores=[]))):
        chk.bad('C05.W', mod, fname, f'catch-all around {norm(call)} raises', 'the catch-all handler of the call wrapper raises: host exceptions escape', node=catch_all)
        return
    # returns: error.return_value for ValueArgsError else None, on all paths
    err = catch_all.name
    rets = [s for s in ast.walk(ast.Module(body=catch_all.body, type_ignores=[])) if isinstance(s, ast.Return)]
    texts = [norm(r.value) for r in rets]
    va_ok = any(isinstance(s, ast.If) and err and f'isinstance({err}, ValueArgsError)' in norm(s.test) and
                any(isinstance(b, ast.Return) and norm(b.value) == f'{err}.return_value' for b in s.body) for s in catch_all.body)
    last = catch_all.body[-1]
    none_ok = isinstance(last, ast.Return) and (last.value is None or norm(last.value) == 'None')
    if va_ok and none_ok and set(texts) <= {f'{err}.return_value', 'None'}:
        chk.ok('C05.W', f'{fname}: failing call evaluates to the declared failure value (ValueArgsError.return_value) or null')
    else:
        chk.bad('C05.W', mod, fname, f'catch-all returns {texts}',
                'a failing function call must evaluate to error.return_value for ValueArgsError and to null otherwise', node=catch_all)
    # logging under debug through logFn
    logs = [n for s in catch_all.body for n in ast.walk(s) if isinstance(n, ast.Call) and 'logFn' in norm(n.func)]
    if logs:
        guard = None
        for s in catch_all.body:
            if isinstance(s, ast.If) and any(l in list(ast.walk(s)) for l in logs):
                guard = norm(s.test)
        if guard and "'debug'" in guard and 'logFn' in guard:
            chk.ok('C05.W', f'{fname}: failure reported through logFn only when configured and in debug mode')
        else:
            chk.bad('C05.W', mod, fname, f'log guard: {guard}', 'the failure must be reported through logFn under the debug flag (and only when a logFn exists)', node=logs[0])
    else:
        chk.bad('C05.W', mod, fname, 'no logFn call in the catch-all', 'a failure inside a library or host function is no longer reported through logFn in debug mode', node=catch_all)
    # nothing else in the try body that could mask: the try body should be the call (return)
    if len(tr.body) != 1:
        chk.note(f'{fname}: try around the function call has {len(tr.body)} statements')


def check_escape(chk):
    mod = chk.repo.module('runtime')
    vv = runtime_value_vars(mod)
    eff = Effects(chk.repo, value_vars=vv, summaries={
        'parse_script': {'BareScriptParserError'},      # C06.E
        'lint_script': set(),                            # C18.K
        'parse_expression': {'BareScriptParserError'},
    })
    reported = 0
    for entry in ('execute_script', 'evaluate_expression'):
        func = mod.func(entry, 'C05.E')
        sites = eff.escapes(mod, func)
        for s in sites:
            if s.exc in ALLOWED:
                chk.ok('C05.E', f'{entry}: {s.exc} from {s.mod.name}.{s.func}: {norm(s.node)[:60]} (documented)', trivial=True)
                continue
            reported += 1
            path = ' -> '.join(s.via + (f'{s.mod.name}.{s.func}',))
            chk.bad('C05.E', s.mod, s.func, f'{norm(s.node)[:100]} [{s.exc}]',
                    f'{s.exc} ({s.why}) can escape {entry}: no handler between the primitive and the API boundary (path {path}); '
                    f'the host application receives a Python exception instead of null / BareScriptRuntimeError', node=s.node,
                    detail={'entry': entry, 'path': path, 'exception': s.exc})
    # OK instances: every primitive reachable that IS caught
    seen = set()

    def visit(m, f, depth=0):
        if (m.name, f.name) in seen or depth > 10:
            return
        seen.add((m.name, f.name))
        for node, exc, why in eff.primitives(m, f):
            if isinstance(node, ast.Raise):
                continue
            chk.ok('C05.E', f'{m.name}.{f.name}: {norm(node)[:70]} [{exc}] is caught locally or by every caller on the path' if True else '',
                   trivial=False) if not _escapes_entry(eff, mod, node, exc) else None
        for n in walk_no_nested(f):
            if isinstance(n, ast.Call) and isinstance(n.func, ast.Name):
                res = chk.repo.resolve_function(m, n.func.id)
                if res and n.func.id not in eff.summaries:
                    visit(res[0], res[1], depth + 1)
    for entry in ('execute_script', 'evaluate_expression'):
        visit(mod, mod.func(entry, 'C05.E'))
    chk.extra['functions_in_escape_analysis'] = sorted(f'{m}.{f}' for m, f in seen)


def _escapes_entry(eff, mod, node, exc):
    for entry in ('execute_script', 'evaluate_expression'):
        for s in eff.cache.get((mod.name, entry), []):
            if s.node is node and s.exc == exc:
                return True
    return False


def check_value_domain(chk):
    """C05.V: a host ** on script numbers can produce a complex number (negative base, fractional exponent): a non-BareScript value
    must not be returned"""
    mod = chk.repo.module('runtime')
    func = mod.func('evaluate_expression', 'C05.V')
    vv = runtime_value_vars(mod).get(('runtime', 'evaluate_expression'), set())
    n = 0
    for node in walk_no_nested(func):
        if isinstance(node, ast.BinOp) and isinstance(node.op, ast.Pow) and isinstance(node.left, ast.Name) and node.left.id in vv:
            n += 1
            par = getattr(node, '_parent', None)
            guarded = False
            if isinstance(par, ast.Assign) and isinstance(par.targets[0], ast.Name):
                res = par.targets[0].id
                for r in walk_no_nested(func):
                    if isinstance(r, ast.Return) and r.value is not None and res in {x.id for x in ast.walk(r.value) if isinstance(x, ast.Name)}:
                        if f'isinstance({res}, complex)' in norm(r.value) or f'isinstance({res}, (int, float))' in norm(r.value):
                            guarded = True
                    if isinstance(r, ast.If) and f'isinstance({res}, complex)' in norm(r.test):
                        guarded = True
            if guarded:
                chk.ok('C05.V', f'{norm(node)}: a complex result is mapped to null before it is returned')
            else:
                chk.bad('C05.V', mod, 'evaluate_expression', f'{norm(node)} returned unchecked',
                        'left ** right with a negative base and a fractional exponent yields a Python complex number: a value that is not a BareScript value reaches the script / host '
                        '(it must evaluate to null like other invalid operations)', node=node)
    if n == 0:
        raise Unrecognised('C05.V', 'no ** on script values found in evaluate_expression', mod.rel)


def check_failure_values(chk):
    from .c15 import check_failure_values as cfv
    cfv(chk, rule='C05.L')


def run(chk):
    chk.rule('C05.W', 'function values are called under the catch-all wrapper with the documented handler behaviour', floor=3)
    chk.rule('C05.O', 'BareScriptRuntimeError is re-raised before the catch-all', floor=1)
    chk.rule('C05.E', 'no raising primitive escapes execute_script / evaluate_expression (effect analysis over the call graph)', floor=10)
    chk.rule('C05.L', 'explicit ValueArgsError failure values agree with the declared failure value (shared with C15.V)')
    chk.assumptions += [
        'host option callbacks logFn / urlFn do not raise (host configuration); models are schema-valid; values are acyclic and recursion depth is bounded',
        'CPython primitive table: see sa/raises.py; comparisons of numbers/strings/booleans, unary minus, isinstance, len never raise',
    ]
    chk.rule('C05.V', 'no non-BareScript value (complex) is produced by the arithmetic operators', floor=1)
    chk.guard('C05.W', check_wrapper, chk)
    chk.guard('C05.E', check_escape, chk)
    chk.guard('C05.V', check_value_domain, chk)
    try:
        chk.guard('C05.L', check_failure_values, chk)
    except ImportError:
        chk.note('C05.L not available (c15 module missing)')
